#!/bin/bash
# scratch git worktree of /repo (HEAD) with the ignored build products needed to import it
set -e
D=$1
git -C /repo worktree add --detach "$D" HEAD >/dev/null 2>&1
cp /repo/nitime/_version.py "$D/nitime/" 2>/dev/null || true
cp /repo/nitime/_utils*.so "$D/nitime/" 2>/dev/null || true
cp /repo/nitime/_utils.c "$D/nitime/" 2>/dev/null || true
echo "$D"
