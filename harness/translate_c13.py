"""Translator pass for C13/C14: one-time-property tables, init-derived state, reset shape.

Pure `ast` walking of nitime/descriptors.py, nitime/analysis/*.py, nitime/timeseries.py (Epochs),
nitime/utils.py and nitime/algorithms/*.py (only to find helpers that modify an argument in place).
No repo code is executed.  Output: lean/Nitime/Generated/Analyzers.lean (`AnalyzerSpec` records
consumed by Props/C13, Props/C14 and by the model driver) and the same tables as a python dict
(`tables()`), which the harness uses to name getters / slots / flags.

Supported fragment (what is recognised inside a getter decorated with `setattr_on_read`/`auto_attr`,
and inside the plain methods / properties of the same class that it calls through `self.`):
  * `self.<g>` with <g> a one-time attribute of the class or a base      -> dependency
  * `self.input…`                                                         -> uses the input
  * `self.<x>`, `self.<x>['k']`, `self.<x>.get('k', …)`                   -> read of slot x / x.k
    (a use of the whole `self.<x>` reads x and every known x.k)
  * `self.<x> = …`, `self.<x>['k'] = …`                                   -> write of slot x / x.k
    (`self.<y> = self.<x>` makes y an alias of x for the rest of the getter)
  * `self.<x>['k'] = self.<x>.get('k', …)`; `if self.<x> is None: self.<x> = …` -> fill-if-missing
  * `n = self.<a>[i, j]` / `.data` / `.T` … (view chain; an index holding arithmetic, calls or
    lists is a copy) followed by `n[...] = …`, `n op= …`, or a call that passes `n` to a function
    that modifies that argument in place (found by scanning utils/algorithms for `p[...] = …`,
    `p op= …` on a parameter, plus `np.<f>(…, out=n)`)                    -> in-place rewrite of
    the cached result <a> / of the input / write of slot <a>
  * guards: effects inside `if self.<f>:` / `if not self.<f>:` / `if self.<f> is [not] None:` carry
    the flag; any other test is ignored (the effect is then taken as unconditional)
  * a top-level unconditional write of a slot before its first read removes the read (the getter
    does not see the old value)
`__init__` (own or inherited): slots assigned; slots whose right-hand side mentions the `input`
argument / `self.input` / a local or slot computed from them = init-derived (other than
`self.input = input`).  `ResetMixin.reset`: `own` if it walks `self.__class__.__dict__`, `mro` if
it walks `__mro__` / `mro()` / `dir(`.
Anything outside this fragment is over-approximated (more effects), never dropped silently:
unparsed stores through `self` are recorded as a write of the whole slot.
"""
import ast, os, glob, json

# (do not import `translate` here: it imports this module while loading its extensions)
REPO = os.environ.get('NITIME_REPO', '/repo')

DECOS = {'setattr_on_read', 'auto_attr'}
FILES = ['nitime/analysis/base.py', 'nitime/analysis/coherence.py', 'nitime/analysis/spectral.py',
         'nitime/analysis/correlation.py', 'nitime/analysis/granger.py', 'nitime/analysis/snr.py',
         'nitime/analysis/normalization.py', 'nitime/analysis/event_related.py', 'nitime/timeseries.py']
ONLY = {'nitime/timeseries.py': {'Epochs', 'TimeSeries', 'TimeSeriesBase'}}
VIEW_ATTRS = {'data', 'T', 'real', 'imag', 'flat'}


def _parse(rel, repo):
    with open(os.path.join(repo, rel)) as f:
        return ast.parse(f.read())


def is_getter(fn):
    for d in fn.decorator_list:
        n = d.attr if isinstance(d, ast.Attribute) else (d.id if isinstance(d, ast.Name) else None)
        if n in DECOS:
            return True
    return False


def is_property(fn):
    return any(isinstance(d, ast.Name) and d.id == 'property' for d in fn.decorator_list)


UNARY_UFUNCS = {'tanh', 'arctanh', 'sqrt', 'abs', 'absolute', 'exp', 'log', 'log2', 'log10', 'negative', 'conj',
                'conjugate', 'sin', 'cos', 'tan', 'square', 'sign', 'floor', 'ceil', 'rint', 'angle', 'real', 'imag',
                'arctan', 'arcsin', 'arccos', 'sinh', 'cosh', 'expm1', 'log1p', 'reciprocal', 'fabs'}
BINARY_UFUNCS = {'add', 'subtract', 'multiply', 'divide', 'true_divide', 'floor_divide', 'power', 'maximum', 'minimum',
                 'mod', 'remainder', 'arctan2', 'hypot', 'fmod'}


def ufunc_out(call):
    """the expression a numpy ufunc call writes into (`np.tanh(x, x)`, `np.add(a, b, a)`, `out=`), or None"""
    f = call.func
    if isinstance(f, ast.Attribute) and isinstance(f.value, ast.Name) and f.value.id in ('np', 'numpy'):
        if f.attr in UNARY_UFUNCS and len(call.args) >= 2:
            return call.args[1]
        if f.attr in BINARY_UFUNCS and len(call.args) >= 3:
            return call.args[2]
    for kw in call.keywords:
        if kw.arg == 'out':
            return kw.value
    return None


def inplace_functions(repo):
    """{function name: set of positional indices / keyword names of parameters modified in place}"""
    out = {}
    files = ['nitime/utils.py'] + sorted(os.path.relpath(p, repo) for p in glob.glob(os.path.join(repo, 'nitime/algorithms/*.py')))
    for rel in files:
        try:
            tree = _parse(rel, repo)
        except Exception:
            continue
        for fn in ast.walk(tree):
            if not isinstance(fn, ast.FunctionDef):
                continue
            params = [a.arg for a in fn.args.args]
            rebound = set()
            hit = set()
            # `if copy: x = x.copy()` at the top: x is modified in place only when `copy` is false
            unless = {}
            defaults = dict(zip(params[len(params) - len(fn.args.defaults):], fn.args.defaults))
            for st in fn.body:
                if isinstance(st, ast.If) and isinstance(st.test, ast.Name) and st.test.id in params and not st.orelse:
                    for b in st.body:
                        if isinstance(b, ast.Assign) and len(b.targets) == 1 and isinstance(b.targets[0], ast.Name) \
                                and b.targets[0].id in params and isinstance(b.value, ast.Call):
                            unless[b.targets[0].id] = st.test.id
            for node in ast.walk(fn):
                if isinstance(node, ast.Call):
                    o = ufunc_out(node)
                    if isinstance(o, ast.Name) and o.id in params:
                        hit.add(o.id)
                tg = []
                if isinstance(node, ast.Assign):
                    tg = node.targets
                elif isinstance(node, ast.AugAssign):
                    tg = [node.target]
                for t in tg:
                    if isinstance(t, ast.Name) and isinstance(node, ast.Assign):
                        rebound.add(t.id)
                    base = t
                    sub = False
                    while isinstance(base, (ast.Subscript, ast.Attribute)):
                        sub = True
                        base = base.value
                    if isinstance(base, ast.Name) and base.id in params:
                        if sub or isinstance(node, ast.AugAssign):
                            hit.add(base.id)
            # a parameter re-bound by plain assignment before use is (optimistically) still counted:
            # over-approximation is safe here
            if hit:
                s = out.setdefault(fn.name, set())
                for p in hit:
                    s.add(params.index(p))
                    s.add(p)
                    if p in unless:
                        q = unless[p]
                        d = defaults.get(q)
                        s.add(('unless', q, params.index(q), bool(d.value) if isinstance(d, ast.Constant) else None))
    return out


class ClassInfo:
    def __init__(self, name, node, rel):
        self.name, self.node, self.rel = name, node, rel
        self.bases = []
        for b in node.bases:
            self.bases.append(b.attr if isinstance(b, ast.Attribute) else getattr(b, 'id', '?'))
        self.funcs = {f.name: f for f in node.body if isinstance(f, ast.FunctionDef)}


def self_attr(node):
    """`self.X` -> 'X'"""
    if isinstance(node, ast.Attribute) and isinstance(node.value, ast.Name) and node.value.id == 'self':
        return node.attr
    return None


def _is_self(n):
    return isinstance(n, ast.Name) and n.id == 'self'


def _is_self_dict(n):
    return (isinstance(n, ast.Attribute) and n.attr == '__dict__' and _is_self(n.value)) or \
        (isinstance(n, ast.Call) and getattr(n.func, 'id', None) == 'vars' and n.args and _is_self(n.args[0]))


def dynamic_self_attr(node):
    """name reached on `self` through getattr/hasattr/__dict__ with a constant name, else None"""
    if isinstance(node, ast.Call):
        f = node.func
        if isinstance(f, ast.Name) and f.id in ('getattr', 'hasattr') and len(node.args) >= 2 and _is_self(node.args[0]):
            return const_key(node.args[1])
        if isinstance(f, ast.Attribute) and f.attr in ('get', '__contains__', 'pop', 'setdefault') and _is_self_dict(f.value) and node.args:
            return const_key(node.args[0])
    if isinstance(node, ast.Subscript) and _is_self_dict(node.value):
        return const_key(node.slice)
    if isinstance(node, ast.Compare) and len(node.ops) == 1 and isinstance(node.ops[0], (ast.In, ast.NotIn)) \
            and _is_self_dict(node.comparators[0]):
        return const_key(node.left)
    return None


def const_key(sl):
    if isinstance(sl, ast.Constant) and isinstance(sl.value, str):
        return sl.value
    return None


def index_is_view(sl):
    for n in ast.walk(sl):
        if isinstance(n, (ast.BinOp, ast.Call, ast.List, ast.Compare, ast.ListComp)):
            return False
    return True


class GetterWalk:
    """collects the effects of one getter (and of the methods it calls through self)"""

    def __init__(self, cls_getters, cls_methods, cls_props, inplace, all_funcs):
        self.getters, self.methods, self.props = cls_getters, cls_methods, cls_props
        self.inplace, self.all_funcs = inplace, all_funcs
        self.deps, self.reads, self.writes, self.dwrites, self.clobbers, self.clobin = [], [], [], [], [], []
        self.uses_input = False
        self.alias = {}        # local name -> ('getter'|'slot'|'input', name)
        self.attr_alias = {}   # self.<y> -> slot x  (after `self.y = self.x`)
        self.killed = set()
        self.flags_seen = []
        self.whole_excl = {}
        self.notes = []
        self.depth = 0

    # -- helpers
    def add(self, lst, name, guard):
        if (name, guard) not in lst:
            lst.append((name, guard))

    def root_of(self, node):
        """root object of a view chain: ('getter', g) / ('slot', x) / ('input', None) / None"""
        n = node
        while True:
            if isinstance(n, ast.Subscript):
                if not index_is_view(n.slice):
                    return None
                n = n.value
            elif isinstance(n, ast.Attribute) and self_attr(n) is None:
                if n.attr not in VIEW_ATTRS:
                    # unknown attribute of something: be conservative only for `.data`-like views
                    return None if not isinstance(n.value, ast.Name) else self.alias.get(n.value.id) if n.attr in VIEW_ATTRS else None
                n = n.value
            else:
                break
        a = self_attr(n)
        if a is not None:
            a = self.attr_alias.get(a, a)
            if a == 'input':
                return ('input', None)
            if a in self.getters:
                return ('getter', a)
            if a in self.methods or a in self.props:
                return None
            return ('slot', a)
        if isinstance(n, ast.Name):
            return self.alias.get(n.id)
        return None

    def inplace_effect(self, root, guard, key=None):
        if root is None:
            return
        kind, name = root
        if kind == 'getter':
            self.add(self.clobbers, name, guard)
        elif kind == 'input':
            self.add(self.clobin, 'input', guard)
        else:
            self.add(self.writes, name if key is None else name + '.' + key, guard)

    def guard_of(self, test):
        g = self.guard_of0(test)
        if g is not None and g[0] not in self.flags_seen:
            self.flags_seen.append(g[0])     # a recognised test is a flag of the class even when nothing hangs on it
        return g

    def guard_of0(self, test):
        """(flag name, polarity) or None"""
        pol = True
        t = test
        if isinstance(t, ast.UnaryOp) and isinstance(t.op, ast.Not):
            pol, t = False, t.operand
        a = self_attr(t)
        if a is not None and a not in self.getters:
            return ('truthy:' + self.attr_alias.get(a, a), pol)
        if isinstance(t, ast.Compare) and len(t.ops) == 1 and isinstance(t.comparators[0], ast.Constant) \
                and t.comparators[0].value is None:
            a = self_attr(t.left)
            if a is not None and a not in self.getters:
                if isinstance(t.ops[0], ast.Is):
                    return ('none:' + self.attr_alias.get(a, a), pol)
                if isinstance(t.ops[0], ast.IsNot):
                    return ('none:' + self.attr_alias.get(a, a), not pol)
        return None

    # -- expression reads
    def read_expr(self, node, guard):
        if node is None:
            return
        # self.X['k'] and self.X.get('k', …)
        if isinstance(node, ast.Subscript):
            a = self_attr(node.value)
            k = const_key(node.slice)
            if a is not None and k is not None and self.is_slot(a):
                self.read_slot(self.attr_alias.get(a, a) + '.' + k, guard)
                return
        if isinstance(node, ast.Call) and isinstance(node.func, ast.Attribute) and node.func.attr == 'get':
            a = self_attr(node.func.value)
            if a is not None and self.is_slot(a) and node.args and const_key(node.args[0]) is not None:
                self.read_slot(self.attr_alias.get(a, a) + '.' + const_key(node.args[0]), guard)
                for x in node.args[1:]:
                    self.read_expr(x, guard)
                return
        dyn = dynamic_self_attr(node)
        if dyn is not None:
            # getattr(self, 'x', d) / hasattr(self, 'x') / self.__dict__.get('x') / 'x' in self.__dict__ / self.__dict__['x']
            fake = ast.Attribute(value=ast.Name(id='self', ctx=ast.Load()), attr=dyn, ctx=ast.Load())
            self.read_expr(fake, guard)
            if isinstance(node, ast.Call):
                for x in node.args[2:]:
                    self.read_expr(x, guard)
            return
        if isinstance(node, ast.Call):
            self.call_effects(node, guard)
        a = self_attr(node)
        if a is not None:
            a = self.attr_alias.get(a, a)
            if a == 'input':
                self.uses_input = True
            elif a in self.getters:
                self.add(self.deps, a, guard)
            elif a in self.props:
                self.inline(a, guard)
            elif a in self.methods or a in ('__class__', '__dict__', '__init__'):
                pass      # a bound method that is only referenced; calls are handled in call_effects
            else:
                self.read_slot(a, guard, whole=True)
            return
        for ch in ast.iter_child_nodes(node):
            if isinstance(ch, (ast.expr, ast.keyword, ast.comprehension)):
                self.read_expr(ch if not isinstance(ch, ast.keyword) else ch.value, guard) \
                    if not isinstance(ch, ast.comprehension) else [self.read_expr(x, guard) for x in [ch.iter] + ch.ifs]

    def is_slot(self, a):
        a = self.attr_alias.get(a, a)
        return a != 'input' and a not in self.getters and a not in self.methods and a not in self.props

    def read_slot(self, name, guard, whole=False):
        if whole:
            if ('*' + name) in self.killed:
                return
            key = ('*' + name, guard)
            excl = {k for k in self.killed if k.startswith(name + '.')}
            self.whole_excl[key] = (self.whole_excl[key] & excl) if key in self.whole_excl else excl
            self.add(self.reads, '*' + name, guard)
            return
        if name in self.killed or ('*' + name.split('.')[0]) in self.killed:
            return
        self.add(self.reads, name, guard)

    def inline(self, name, guard):
        fn = self.all_funcs.get(name)
        if fn is None or self.depth > 3:
            return
        self.depth += 1
        saved = self.alias
        self.alias = {}
        self.block(fn.body, guard, top=False)
        self.alias = saved
        self.depth -= 1

    def call_effects(self, call, guard):
        fname = call.func.attr if isinstance(call.func, ast.Attribute) else getattr(call.func, 'id', None)
        if fname == 'setattr' and isinstance(call.func, ast.Name) and len(call.args) == 3 and _is_self(call.args[0]) \
                and const_key(call.args[1]) is not None:
            self.store(ast.Attribute(value=ast.Name(id='self', ctx=ast.Load()), attr=const_key(call.args[1]), ctx=ast.Store()),
                       call.args[2], guard, False)
        if fname in ('update', 'setdefault', 'pop', 'clear') and isinstance(call.func, ast.Attribute) and _is_self_dict(call.func.value):
            self.notes.append('instance dict modified through %s() at line %d' % (fname, call.lineno))
            self.add(self.writes, '*__dict__', guard)
        # method of self: self.m(...)
        if isinstance(call.func, ast.Attribute) and self_attr(call.func) is not None and fname in self.methods \
                and fname != '__init__':
            self.inline(fname, guard)
        pos = self.inplace.get(fname, set())
        for u in [u for u in pos if isinstance(u, tuple)]:
            _, q, qi, dflt = u
            val = dflt
            if qi < len(call.args):
                val = call.args[qi].value if isinstance(call.args[qi], ast.Constant) else None
            for kw in call.keywords:
                if kw.arg == q:
                    val = kw.value.value if isinstance(kw.value, ast.Constant) else None
            if val:      # the helper copies its argument first
                pos = set()
        o = ufunc_out(call)
        if o is not None:
            self.inplace_effect(self.root_of(o), guard)
        for i, a in enumerate(call.args):
            if i in pos:
                self.inplace_effect(self.root_of(a), guard)
        for kw in call.keywords:
            if kw.arg in pos or kw.arg == 'out':
                self.inplace_effect(self.root_of(kw.value), guard)

    # -- statements
    def block(self, stmts, guard, top):
        for st in stmts:
            self.stmt(st, guard, top)

    def store(self, target, value, guard, top, aug=False):
        # self.__dict__['x'] = …  is  self.x = …
        if isinstance(target, ast.Subscript) and _is_self_dict(target.value) and const_key(target.slice) is not None:
            target = ast.Attribute(value=ast.Name(id='self', ctx=ast.Load()), attr=const_key(target.slice), ctx=ast.Store())
        # self.X = …
        a = self_attr(target)
        if a is not None:
            if a in self.getters:
                self.add(self.clobbers, a, guard)
                return
            src = self_attr(value) if value is not None else None
            if src is not None and self.is_slot(src) and not aug:
                self.attr_alias[a] = self.attr_alias.get(src, src)   # self.y = self.x : alias
                self.add(self.writes, a, guard)
                return
            a = self.attr_alias.get(a, a)
            self.add(self.writes, '*' + a, guard)
            if top and guard is None and not aug:
                self.killed.add('*' + a)
            return
        # self.X['k'] = …  (possibly the fill-if-missing pattern)
        if isinstance(target, ast.Subscript) and self_attr(target.value) is not None and self.is_slot(self_attr(target.value)):
            x = self.attr_alias.get(self_attr(target.value), self_attr(target.value))
            k = const_key(target.slice)
            if k is None:
                self.add(self.writes, '*' + x, guard)
                return
            slot = x + '.' + k
            v = value
            if (not aug and isinstance(v, ast.Call) and isinstance(v.func, ast.Attribute) and v.func.attr == 'get'
                    and self_attr(v.func.value) is not None
                    and self.attr_alias.get(self_attr(v.func.value), self_attr(v.func.value)) == x
                    and v.args and const_key(v.args[0]) == k):
                self.add(self.dwrites, slot, guard)
            else:
                self.add(self.writes, slot, guard)
                if top and guard is None and not aug:
                    self.killed.add(slot)
            return
        # in place through a view chain rooted at self / an alias
        if isinstance(target, (ast.Subscript, ast.Attribute)) or aug:
            base = target
            chain = target
            if isinstance(target, ast.Name):
                root = self.alias.get(target.id)
            else:
                # n[...] = … : the object indexed is target.value
                root = self.root_of(target.value if isinstance(target, ast.Subscript) else target)
                if root is None and isinstance(target, ast.Subscript):
                    # cache['FFT_slices'][-1] = … : walk down to the base name
                    b = target
                    while isinstance(b, (ast.Subscript, ast.Attribute)) and self_attr(b) is None:
                        b = b.value
                    root = self.root_of(b)
            self.inplace_effect(root, guard)
            return
        if isinstance(target, (ast.Tuple, ast.List)):
            for e in target.elts:
                self.store(e, None, guard, top)
            return
        if isinstance(target, ast.Name):
            # local binding: alias when the value is a view chain
            r = self.root_of(value) if value is not None and not isinstance(value, ast.Call) else None
            if isinstance(value, ast.Call):
                # helpers that return their (modified) argument keep the alias
                fname = value.func.attr if isinstance(value.func, ast.Attribute) else getattr(value.func, 'id', None)
                if fname in self.inplace and value.args and 0 in self.inplace[fname]:
                    r = self.root_of(value.args[0])
            if r is not None:
                self.alias[target.id] = r
            else:
                self.alias.pop(target.id, None)

    def stmt(self, st, guard, top):
        if isinstance(st, ast.Assign):
            alias_only = (len(st.targets) == 1 and self_attr(st.targets[0]) is not None
                          and self_attr(st.value) is not None and self.is_slot(self_attr(st.value)))
            if not alias_only:      # `self.y = self.x` binds a second name, it does not look inside x
                self.read_expr(st.value, guard)
            for t in st.targets:
                if isinstance(t, ast.Subscript):
                    self.read_index(t, guard)
                self.store(t, st.value, guard, top)
        elif isinstance(st, ast.AugAssign):
            self.read_expr(st.value, guard)
            if self_attr(st.target) is not None or isinstance(st.target, ast.Subscript):
                self.read_expr(st.target, guard)
            self.store(st.target, st.value, guard, top, aug=True)
        elif isinstance(st, ast.If):
            g = self.guard_of(st.test)
            self.read_expr(st.test, guard)
            # `if self.x is None: self.x = …`  -> fill-if-missing of x
            if g is not None and g[0].startswith('none:') and g[1]:
                x = g[0][5:]
                rest = []
                for b in st.body:
                    if isinstance(b, ast.Assign) and len(b.targets) == 1 and self_attr(b.targets[0]) is not None \
                            and self.attr_alias.get(self_attr(b.targets[0]), self_attr(b.targets[0])) == x:
                        self.read_expr(b.value, guard)
                        self.add(self.dwrites, x, guard)
                    else:
                        rest.append(b)
                self.block(rest, g, False)
            else:
                self.block(st.body, g if g is not None else guard, False)
            self.block(st.orelse, (g[0], not g[1]) if g is not None else guard, False)
        elif isinstance(st, (ast.For, ast.While)):
            if isinstance(st, ast.For):
                self.read_expr(st.iter, guard)
                # `for i, x in enumerate(self.seed.data)` : loop variables are views of the iterated object
                it = st.iter
                if isinstance(it, ast.Call) and getattr(it.func, 'id', None) in ('enumerate', 'zip') and it.args:
                    it = it.args[0]
                r = self.root_of(it)
                for n in ast.walk(st.target):
                    if isinstance(n, ast.Name):
                        if r is not None:
                            self.alias[n.id] = r
                        else:
                            self.alias.pop(n.id, None)
            else:
                self.read_expr(st.test, guard)
            self.block(st.body, guard, False)
            self.block(st.orelse, guard, False)
        elif isinstance(st, (ast.Return, ast.Expr)):
            self.read_expr(st.value, guard)
        elif isinstance(st, ast.Raise):
            self.read_expr(st.exc, guard)
        elif isinstance(st, (ast.With, ast.Try)):
            for b in ([st.body] + ([st.orelse, st.finalbody] + [h.body for h in st.handlers] if isinstance(st, ast.Try) else [])):
                self.block(b, guard, False)
        elif isinstance(st, (ast.Pass, ast.Import, ast.ImportFrom, ast.Assert, ast.Delete, ast.Global, ast.Break, ast.Continue)):
            pass
        elif isinstance(st, ast.FunctionDef):
            self.block(st.body, guard, False)
        else:
            self.notes.append('unsupported statement %s at line %d' % (type(st).__name__, st.lineno))

    def read_index(self, t, guard):
        n = t
        while isinstance(n, ast.Subscript):
            self.read_expr(n.slice, guard)
            n = n.value


def init_info(fn, cinfo_by_name, cls, input_names=('input',)):
    """(slots assigned, derived slots, always-present slots) of an `__init__`, following
    `Base.__init__(self, …)` calls"""
    assigned, derived, present = [], [], []
    tainted = set(input_names)

    def mentions(node):
        for n in ast.walk(node):
            if isinstance(n, ast.Name) and n.id in tainted:
                return True
            a = self_attr(n)
            if a is not None and (a == 'input' or a in derived_set):
                return True
            if isinstance(n, ast.Subscript) and self_attr(n.value) is not None and const_key(n.slice) is not None \
                    and (self_attr(n.value) + '.' + const_key(n.slice)) in derived_set:
                return True
        return False

    derived_set = set()

    def note(slot, value, top):
        if slot not in assigned:
            assigned.append(slot)
        if value is not None and isinstance(value, ast.Call) and getattr(value.func, 'id', None) == 'dict' and len(value.args) == 1 \
                and self_attr(value.args[0]) == slot and value.keywords and all(kw.arg for kw in value.keywords):
            # `self.x = dict(self.x, k=…)`: a copy of the slot's dict with the entries k replaced — only those
            # entries are (re)computed, the rest keeps its value
            for kw in value.keywords:
                if mentions(kw.value) and slot + '.' + kw.arg not in derived_set:
                    derived.append(slot + '.' + kw.arg)
                    derived_set.add(slot + '.' + kw.arg)
        elif value is not None and isinstance(value, ast.Dict) and all(const_key(k) is not None for k in value.keys):
            # a dict literal: only the entries computed from the input are derived
            for k, v in zip(value.keys, value.values):
                if mentions(v) and slot + '.' + const_key(k) not in derived_set:
                    derived.append(slot + '.' + const_key(k))
                    derived_set.add(slot + '.' + const_key(k))
        elif value is not None and mentions(value):
            if slot not in derived:
                derived.append(slot)
                derived_set.add(slot)

    def walk(stmts, top):
        for st in stmts:
            if isinstance(st, ast.Assign):
                for t in st.targets:
                    targets = t.elts if isinstance(t, (ast.Tuple, ast.List)) else [t]
                    for tt in targets:
                        a = self_attr(tt)
                        if a is not None:
                            if a == 'input':
                                continue
                            note(a, st.value, top)
                            if top and not (isinstance(st.value, ast.Name)):
                                present.append(a)
                        elif isinstance(tt, ast.Subscript) and self_attr(tt.value) is not None and const_key(tt.slice) is not None:
                            slot = self_attr(tt.value) + '.' + const_key(tt.slice)
                            note(slot, st.value, top)
                            if top:
                                present.append(slot)
                        elif isinstance(tt, ast.Name):
                            if mentions(st.value):
                                tainted.add(tt.id)
            elif isinstance(st, ast.Expr) and isinstance(st.value, ast.Call):
                c = st.value
                if isinstance(c.func, ast.Attribute) and c.func.attr == '__init__' and isinstance(c.func.value, ast.Name):
                    base = cinfo_by_name.get(c.func.value.id)
                    if base is not None and '__init__' in base.funcs:
                        walk(base.funcs['__init__'].body, top)
            elif isinstance(st, ast.If):
                walk(st.body, False)
                walk(st.orelse, False)
            elif isinstance(st, (ast.For, ast.While, ast.With)):
                walk(st.body, False)
    walk(fn.body, True)
    return assigned, derived, present


def reset_shape(repo):
    try:
        tree = _parse('nitime/descriptors.py', repo)
    except Exception:
        return None
    for c in ast.walk(tree):
        if isinstance(c, ast.ClassDef) and c.name == 'ResetMixin':
            for f in c.body:
                if isinstance(f, ast.FunctionDef) and f.name == 'reset':
                    src = ast.dump(f)
                    if "'__mro__'" in src or "attr='mro'" in src or "id='dir'" in src:
                        return 'mro'
                    if "'__dict__'" in src and "'__class__'" in src:
                        return 'own'
    return None



# ------------------------------------------------------------------ state OUTSIDE the objects
def _fname(call):
    f = call.func
    return f.attr if isinstance(f, ast.Attribute) else getattr(f, 'id', None)


def _root_name(n):
    while isinstance(n, (ast.Attribute, ast.Subscript, ast.Call)):
        n = n.func if isinstance(n, ast.Call) else n.value
    return n.id if isinstance(n, ast.Name) else None


def mro_walk_filters(fns, is_mro, is_cls_dict):
    """reasons why the walk over the MRO in `fns` (reset and its helpers) does NOT visit every class of the MRO:
    the iterable is a slice / filter(...) / the direct bases only; the loop body can skip a class (`continue`, `break`,
    an `if` on the class itself rather than on the entries of its dictionary); a comprehension condition on the class"""
    why = []

    def names(e):
        return {x.id for x in ast.walk(e) if isinstance(x, ast.Name)}

    def mentions_class_itself(test, targets):
        """`test` uses a loop variable bound to a class other than through `<cls>.__dict__` / `vars(<cls>)`"""
        hidden = set()
        for x in ast.walk(test):
            if is_cls_dict(x):
                hidden |= {id(y) for y in ast.walk(x)}
        return any(isinstance(x, ast.Name) and x.id in targets and id(x) not in hidden for x in ast.walk(test))

    def partial_iter(it):
        """the iterable is derived from the MRO but is not the whole MRO"""
        if isinstance(it, ast.Attribute) and it.attr == '__bases__':
            return 'walks __bases__ (the direct bases only)'
        if isinstance(it, ast.Subscript) and (is_mro(it.value) or partial_iter(it.value)):
            return 'walks a slice of the MRO'
        if isinstance(it, ast.Call):
            fn_ = _fname(it)
            if fn_ in ('filter', 'takewhile', 'dropwhile', 'islice', 'filterfalse') and any(is_mro(a) or partial_iter(a) for a in it.args):
                return 'walks %s(...) of the MRO' % fn_
            if fn_ in ('reversed', 'list', 'tuple', 'iter', 'sorted', 'enumerate') and it.args:
                return partial_iter(it.args[0])
        if isinstance(it, (ast.GeneratorExp, ast.ListComp, ast.SetComp)):
            for g in it.generators:
                r = comp_reason(g)
                if r:
                    return r
        return None

    def comp_reason(g):
        if is_mro(g.iter) or partial_iter(g.iter):
            t = names(g.target)
            r = partial_iter(g.iter)
            if r:
                return r
            for c in g.ifs:
                if mentions_class_itself(c, t):
                    return 'comprehension over the MRO with a condition on the class: %s' % ast.unparse(c)
        return None
    for f in fns:
        for n in ast.walk(f):
            if isinstance(n, ast.comprehension):
                r = comp_reason(n)
                if r:
                    why.append(r)
            if isinstance(n, ast.For):
                r = partial_iter(n.iter)
                if r:
                    why.append(r)
                if not (is_mro(n.iter) or r):
                    continue
                t = names(n.target)
                for x in ast.walk(ast.Module(body=n.body, type_ignores=[])):
                    if isinstance(x, (ast.Continue, ast.Break)):
                        # a continue/break of an INNER loop over the dictionary entries skips an entry, not a class
                        inner = [y for y in ast.walk(ast.Module(body=n.body, type_ignores=[])) if isinstance(y, (ast.For, ast.While))
                                 and any(z is x for z in ast.walk(y))]
                        if not inner:
                            why.append('the loop over the MRO can skip a class (%s)' % type(x).__name__.lower())
                    if isinstance(x, (ast.If, ast.IfExp, ast.While, ast.Assert)) and mentions_class_itself(x.test, t):
                        why.append('the loop over the MRO tests the class itself: %s' % ast.unparse(x.test))
                    if isinstance(x, ast.Try):
                        why.append('the loop over the MRO has a try/except (a class may be skipped)')
    return sorted(set(why))


def reset_name_source(repo):
    """HOW `ResetMixin.reset` obtains the names it deletes: 'walkPerCall' (recomputed from the class dictionaries on
    every call, nothing kept outside the object), 'ownTable' (a table stored on the class and looked up in the class's
    OWN dictionary with a constant key), 'inheritedTable' (stored on the class and found by attribute lookup —
    getattr / hasattr / cls.<name> — which also finds a parent's table), 'walkFiltered' (recomputed per call, or kept in an
    own table, but the walk does NOT visit every class of the MRO: `mro_walk_filters`), 'unknown' (any other state outside the
    object: globals, module-level containers)."""
    try:
        tree = _parse('nitime/descriptors.py', repo)
    except Exception:
        return 'unknown', ['descriptors.py not parsed']
    fn = None
    methods, modfuncs = {}, {f.name: f for f in tree.body if isinstance(f, ast.FunctionDef)}
    for c in ast.walk(tree):
        if isinstance(c, ast.ClassDef) and c.name == 'ResetMixin':
            for f in c.body:
                if isinstance(f, ast.FunctionDef):
                    methods[f.name] = f
                    if f.name == 'reset':
                        fn = f
    if fn is None:
        return 'unknown', ['ResetMixin.reset not found']
    clsnames = set()

    def is_cls(e):
        if isinstance(e, ast.Attribute) and e.attr == '__class__' and _is_self(e.value):
            return True
        if isinstance(e, ast.Call) and getattr(e.func, 'id', None) == 'type' and len(e.args) == 1 and _is_self(e.args[0]):
            return True
        return isinstance(e, ast.Name) and e.id in clsnames

    def is_mro(e):
        if isinstance(e, ast.Attribute) and e.attr in ('__mro__', '__bases__') and is_cls(e.value):
            return True
        if isinstance(e, ast.Call) and _fname(e) in ('mro', 'getmro', 'reversed', 'list', 'tuple'):
            a = (e.args[0] if e.args else None)
            if isinstance(e.func, ast.Attribute) and e.func.attr == 'mro' and is_cls(e.func.value):
                return True
            return a is not None and (is_cls(a) or is_mro(a))
        return False
    # `reset` together with the helpers it calls (methods through self / the class, module-level functions)
    fns = [fn]

    class _All:
        pass
    changed = True
    while changed:
        changed = False
        for f in list(fns):
            for n in ast.walk(f):
                if isinstance(n, ast.Assign) and len(n.targets) == 1 and isinstance(n.targets[0], ast.Name) and is_cls(n.value) \
                        and n.targets[0].id not in clsnames:
                    clsnames.add(n.targets[0].id)
                    changed = True
                if isinstance(n, (ast.For, ast.comprehension)) and is_mro(n.iter):
                    for x in ast.walk(n.target):
                        if isinstance(x, ast.Name) and x.id not in clsnames:
                            clsnames.add(x.id)
                            changed = True
                if isinstance(n, ast.Call):
                    tgt, skip = None, 0
                    if isinstance(n.func, ast.Attribute) and n.func.attr in methods and (_is_self(n.func.value) or is_cls(n.func.value)):
                        tgt = methods[n.func.attr]
                        skip = 1
                        if is_cls(n.func.value) and tgt.args.args and tgt.args.args[0].arg not in clsnames:
                            clsnames.add(tgt.args.args[0].arg)
                            changed = True
                    elif isinstance(n.func, ast.Name) and n.func.id in modfuncs:
                        tgt = modfuncs[n.func.id]
                    if tgt is not None:
                        if tgt not in fns:
                            fns.append(tgt)
                            changed = True
                        for i, a in enumerate(n.args):
                            if is_cls(a) and i + skip < len(tgt.args.args) and tgt.args.args[i + skip].arg not in clsnames:
                                clsnames.add(tgt.args.args[i + skip].arg)
                                changed = True
    locs = set()
    for f in fns:
        locs |= {a.arg for a in f.args.args}
        for n in ast.walk(f):
            if isinstance(n, ast.Name) and isinstance(n.ctx, ast.Store):
                locs.add(n.id)
    locs |= set(modfuncs)
    fn = ast.Module(body=list(fns), type_ignores=[])
    DUNDER = ('__mro__', '__dict__', 'mro', '__name__', '__bases__', '__class__', '__qualname__', '__module__')
    stores = reads_attr = reads_own = other = False
    why = []

    def is_cls_dict(e):
        return (isinstance(e, ast.Attribute) and e.attr == '__dict__' and is_cls(e.value)) or \
            (isinstance(e, ast.Call) and getattr(e.func, 'id', None) == 'vars' and e.args and is_cls(e.args[0]))
    for n in ast.walk(fn):
        if isinstance(n, (ast.Global, ast.Nonlocal)):
            other = True
            why.append('global/nonlocal statement')
        if isinstance(n, ast.Attribute) and is_cls(n.value) and n.attr not in DUNDER:
            if isinstance(n.ctx, ast.Store):
                stores = True
                why.append('stores %s on the class' % n.attr)
            else:
                reads_attr = True
                why.append('reads %s through the class (attribute lookup)' % n.attr)
        if isinstance(n, ast.Call):
            fnm = _fname(n)
            if fnm == 'setattr' and isinstance(n.func, ast.Name) and n.args and is_cls(n.args[0]):
                stores = True
                why.append('setattr on the class')
            if fnm in ('getattr', 'hasattr') and isinstance(n.func, ast.Name) and n.args and is_cls(n.args[0]) \
                    and not (len(n.args) > 1 and const_key(n.args[1]) in DUNDER):
                reads_attr = True
                why.append('%s on the class' % fnm)
            if isinstance(n.func, ast.Attribute) and fnm in ('get', '__contains__', '__getitem__') and is_cls_dict(n.func.value) \
                    and n.args and const_key(n.args[0]) is not None:
                reads_own = True
                why.append('looks %r up in the class\'s own dictionary' % const_key(n.args[0]))
        if isinstance(n, ast.Subscript) and is_cls_dict(n.value) and const_key(n.slice) is not None:
            reads_own = True
            why.append('looks %r up in the class\'s own dictionary' % const_key(n.slice))
        if isinstance(n, ast.Compare) and len(n.ops) == 1 and isinstance(n.ops[0], (ast.In, ast.NotIn)) and is_cls_dict(n.comparators[0]) \
                and const_key(n.left) is not None:
            reads_own = True
            why.append('tests %r in the class\'s own dictionary' % const_key(n.left))
        # anything rooted at a name that is neither local, nor self, nor a class of the MRO: module-level state
        if isinstance(n, (ast.Subscript, ast.Attribute)) or (isinstance(n, ast.Call) and isinstance(n.func, ast.Attribute)):
            r = _root_name(n)
            if r is not None and r not in locs and r != 'self' and r not in clsnames:
                other = True
                why.append('uses the non-local name %s' % r)
    # WHICH classes of the MRO the walk visits: all of them, or only those passing a predicate / a slice / the direct bases
    filt = mro_walk_filters(fns, is_mro, is_cls_dict)
    if other:
        return 'unknown', sorted(set(why + filt))
    if not stores and not reads_attr and not reads_own:
        return ('walkFiltered', sorted(set(filt))) if filt else ('walkPerCall', [])
    if stores and reads_own and not reads_attr:
        return ('walkFiltered' if filt else 'ownTable'), sorted(set(why + filt))
    if stores and reads_attr:
        return 'inheritedTable', sorted(set(why))
    return 'unknown', sorted(set(why))


MUTABLE_DISPLAY = (ast.Dict, ast.List, ast.Set, ast.ListComp, ast.DictComp, ast.SetComp)


def ctor_bindings(init, input_names):
    """{slot: set of provenances} for every `self.<slot> = <expr>` of an `__init__`: 'fresh' (an object built right
    there), 'arg:<p>' (the caller's argument object itself), 'process' (a module-level / class-level object, or a
    mutable default argument: shared by every object built that way), 'input', 'slot:<y>'"""
    params = [a.arg for a in init.args.args if a.arg != 'self']
    defaults = dict(zip(params[len(params) - len(init.args.defaults):], init.args.defaults))
    local = {}
    for n in ast.walk(init):
        if isinstance(n, ast.Assign):
            for t in n.targets:
                if isinstance(t, ast.Name):
                    local.setdefault(t.id, []).append(n.value)
        elif isinstance(n, (ast.For, ast.comprehension)):
            for x in ast.walk(n.target):
                if isinstance(x, ast.Name):
                    local.setdefault(x.id, []).append(ast.Constant(value=0))
    builtins_ = {'True', 'False', 'None'}

    def prov(e, depth=0):
        if e is None or depth > 4:
            return {'fresh'}
        if isinstance(e, ast.IfExp):
            return prov(e.body, depth) | prov(e.orelse, depth)
        if isinstance(e, ast.BoolOp):
            out = set()
            for v in e.values:
                out |= prov(v, depth)
            return out
        if isinstance(e, ast.Name):
            if e.id in builtins_:
                return {'fresh'}
            if e.id in local and e.id not in params:
                out = set()
                for v in local[e.id]:
                    out |= prov(v, depth + 1)
                return out
            if e.id in params:
                out = {'input'} if e.id in input_names else {'arg:' + e.id}
                d = defaults.get(e.id)
                if isinstance(d, MUTABLE_DISPLAY) or (isinstance(d, ast.Call) and _fname(d) in ('dict', 'list', 'set')):
                    out.add('process')           # one default object for every call
                if e.id in local:
                    for v in local[e.id]:
                        out |= prov(v, depth + 1)
                return out
            return {'process'}                   # a module-level name
        if isinstance(e, (ast.Attribute, ast.Subscript)):
            a = self_attr(e)
            if a is not None:
                return {'input'} if a == 'input' else {'slot:' + a}
            r = e
            while isinstance(r, (ast.Attribute, ast.Subscript)):
                if self_attr(r) is not None:
                    return {'input'} if self_attr(r) == 'input' else {'fresh'}
                r = r.value
            if isinstance(r, ast.Name):
                if r.id in params:
                    return {'input'} if r.id in input_names else {'fresh'}
                if r.id in local:
                    return {'fresh'}
                if r.id == 'self':
                    return {'fresh'}
                return {'process'}               # attribute / element of a module-level object
            return {'fresh'}
        return {'fresh'}
    out = {}
    for n in ast.walk(init):
        if isinstance(n, ast.Assign):
            for t in n.targets:
                for tt in (t.elts if isinstance(t, (ast.Tuple, ast.List)) else [t]):
                    a = self_attr(tt)
                    if a is not None and a != 'input':
                        out.setdefault(a, set()).update(prov(n.value))
    # resolve slot aliases
    for _ in range(3):
        for a, ps in out.items():
            for q in [x for x in ps if x.startswith('slot:')]:
                ps |= out.get(q[5:], set()) - {q}
    return out


def tables(repo=None):
    """list of class tables (dicts) + global info"""
    repo = repo or REPO
    inplace = inplace_functions(repo)
    classes = {}
    order = []
    for rel in FILES:
        try:
            tree = _parse(rel, repo)
        except Exception:
            continue
        for node in tree.body:
            if isinstance(node, ast.ClassDef) and (rel not in ONLY or node.name in ONLY[rel]):
                classes[node.name] = ClassInfo(node.name, node, rel)
                order.append(node.name)

    def mro(name):
        out = []
        while name in classes:
            out.append(classes[name])
            nxt = [b for b in classes[name].bases if b in classes]
            name = nxt[0] if nxt else None
        return out

    out = []
    for cname in order:
        chain = mro(cname)
        all_funcs = {}
        for ci in reversed(chain):
            all_funcs.update(ci.funcs)
        getters = [n for n, f in all_funcs.items() if is_getter(f)]
        if not getters:
            continue
        own = [n for n, f in classes[cname].funcs.items() if is_getter(f)]
        props = {n for n, f in all_funcs.items() if is_property(f)}
        methods = {n for n, f in all_funcs.items() if not is_getter(f) and n not in props}
        eff = {}
        notes = []
        for g in getters:
            w = GetterWalk(set(getters), methods, props, inplace, all_funcs)
            w.block(all_funcs[g].body, None, True)
            eff[g] = w
            notes += ['%s.%s: %s' % (cname, g, n) for n in w.notes]
        init = all_funcs.get('__init__')
        has_input = (any('input' == a.arg for a in init.args.args) if init else False) or 'set_input' in all_funcs
        assigned, derived, present = ([], [], [])
        if init is not None:
            in_names = [a.arg for a in init.args.args if a.arg in ('input', 'time_series', 'seed_time_series', 'target_time_series', 'events')]
            assigned, derived, present = init_info(init, classes, cname, tuple(in_names) if has_input else ('input',))
        # an overriding set_input that recomputes slots from the new input
        refreshed = []
        si = all_funcs.get('set_input')
        if si is not None and not any(ci.name == 'BaseAnalyzer' and ci.funcs.get('set_input') is si for ci in chain):
            _, refreshed, _ = init_info(si, classes, cname, tuple(a.arg for a in si.args.args if a.arg != 'self'))
        # ---- slots
        slots = []

        def slot(s):
            s = s.lstrip('*')
            if s not in slots:
                slots.append(s)
        for s in assigned:
            slot(s)
        for g in getters:
            for lst in (eff[g].reads, eff[g].writes, eff[g].dwrites):
                for (s, _) in lst:
                    slot(s)
        for s in derived:
            slot(s)

        def expand(s):
            """'*x' = x and every x.k"""
            if s.startswith('*'):
                b = s[1:]
                return [t for t in slots if t == b or t.startswith(b + '.')]
            return [s]
        flags = []
        for g in getters:
            for f in eff[g].flags_seen:
                if f not in flags:
                    flags.append(f)

        def fl(g):
            if g is None:
                return None
            if g[0] not in flags:
                flags.append(g[0])
            return (flags.index(g[0]), g[1])
        # ---- topological order of the getters
        deps_of = {g: [d for (d, _) in eff[g].deps if d != g] for g in getters}
        done, topo = set(), []

        def visit(g, stack):
            if g in done or g in stack:
                return
            for d in deps_of[g]:
                visit(d, stack | {g})
            done.add(g)
            topo.append(g)
        for g in getters:
            visit(g, frozenset())
        gid = {g: i for i, g in enumerate(topo)}
        recs = []
        for g in topo:
            w = eff[g]

            def conv(lst, expandit=True):
                o = []
                for (s, gd) in lst:
                    ex = w.whole_excl.get((s, gd), set()) if lst is w.reads else set()
                    for t in (expand(s) if expandit else [s]):
                        if t in ex:
                            continue
                        e = (slots.index(t), fl(gd))
                        if e not in o:
                            o.append(e)
                return o
            recs.append({'name': g,
                         'deps': [(gid[d], fl(gd)) for (d, gd) in w.deps],
                         'reads': conv(w.reads), 'writes': conv(w.writes), 'dwrites': conv(w.dwrites),
                         'clobbers': [(gid[k], fl(gd)) for (k, gd) in w.clobbers],
                         'clobbersInput': [fl(gd) for (_, gd) in w.clobin],
                         'usesInput': w.uses_input})
        # slots filled by some getter when missing: present iff not missing at construction
        init_present = []
        dw = {slots[s] for r in recs for (s, _) in r['dwrites']}
        for s in slots:
            if s in present:
                init_present.append((slots.index(s), None))
            elif s in dw:
                init_present.append((slots.index(s), fl(('none:' + s, False))))
        # slots bound at construction to an object that outlives / is shared beyond the instance, and that the
        # constructor or a getter writes INTO (sub-slot writes): interference between instances goes through these
        bind = {}
        if init is not None:
            for ci in reversed(chain):
                if '__init__' in ci.funcs:
                    bind.update(ctor_bindings(ci.funcs['__init__'], tuple(in_names) if has_input else ('input',)))
        written_into = {s_.split('.')[0] for s_ in assigned if '.' in s_}
        for r in recs:
            for lst in ('writes', 'dwrites'):
                for (si, _) in r[lst]:
                    if '.' in slots[si]:
                        written_into.add(slots[si].split('.')[0])
        proc_b = sorted(a for a, ps in bind.items() if 'process' in ps and a in written_into)
        arg_k = sorted(a for a, ps in bind.items() if any(x.startswith('arg:') for x in ps) and a in written_into)

        def with_subs(names):
            return [slots.index(t) for t in slots if t in names or t.split('.')[0] in names]
        out.append({'cls': cname, 'file': classes[cname].rel, 'getters': topo, 'slots': slots, 'flags': flags,
                    'processBound': with_subs(proc_b), 'argKept': with_subs(arg_k),
                    'bindings': {a: sorted(ps) for a, ps in sorted(bind.items()) if ps - {'fresh', 'input'}},
                    'recs': recs, 'initPresent': init_present,
                    'initDerived': [slots.index(s) for s in derived if s in slots] if has_input else [],
                    'derivedNames': derived if has_input else [],
                    'refreshed': [slots.index(s) for s in refreshed if s in slots and s in derived],
                    'inherited': [gid[g] for g in topo if g not in own],
                    'hasInput': has_input, 'hasReset': any(('ResetMixin' in ci.bases) for ci in chain),
                    'hasSetInput': 'set_input' in all_funcs, 'notes': notes})
    src, why = reset_name_source(repo)
    return {'classes': out, 'reset': reset_shape(repo), 'resetNameSource': src, 'resetNameSourceWhy': why,
            'inplace': {k: sorted(str(x) for x in v if not isinstance(x, int)) for k, v in sorted(inplace.items())}}


# ------------------------------------------------------------------ Lean emission
def lguard(g):
    return 'none' if g is None else 'some (%d, %s)' % (g[0], 'true' if g[1] else 'false')


def lpairs(lst):
    return '[' + ', '.join('(%d, %s)' % (a, lguard(g)) for (a, g) in lst) + ']'


def lstrs(lst):
    return '[' + ', '.join(json.dumps(s) for s in lst) + ']'


def gen_analyzers():
    t = tables()
    L = ['-- GENERATED by harness/translate_c13.py from nitime/descriptors.py, nitime/analysis/*.py,',
         '-- nitime/timeseries.py (Epochs). DO NOT EDIT.', 'import Nitime.Model.OneTime',
         'namespace Nitime.Generated', 'open Nitime.OneTime', '']
    names = []
    for c in t['classes']:
        nm = 'spec_' + c['cls']
        names.append(nm)
        L.append('/-- %s (%s): getters %s -/' % (c['cls'], c['file'], ', '.join('%d=%s' % (i, g) for i, g in enumerate(c['getters']))))
        L.append('def %s : AnalyzerSpec :=' % nm)
        L.append('  { cls := %s' % json.dumps(c['cls']))
        L.append('    getterNames := %s' % lstrs(c['getters']))
        L.append('    slotNames := %s' % lstrs(c['slots']))
        L.append('    flagNames := %s' % lstrs(c['flags']))
        L.append('    getters := [')
        rows = []
        for r in c['recs']:
            rows.append('      { deps := %s, reads := %s, writes := %s, dwrites := %s, clobbers := %s, clobbersInput := [%s], usesInput := %s }  -- %s'
                        % (lpairs(r['deps']), lpairs(r['reads']), lpairs(r['writes']), lpairs(r['dwrites']),
                           lpairs(r['clobbers']), ', '.join(lguard(g) for g in r['clobbersInput']),
                           'true' if r['usesInput'] else 'false', r['name']))
        for i, row in enumerate(rows):
            code, _, com = row.partition('  -- ')
            L.append(code + (',' if i < len(rows) - 1 else '') + '  -- ' + com)
        L.append('    ]')
        L.append('    initPresent := %s' % lpairs(c['initPresent']))
        L.append('    initDerived := [%s]' % ', '.join(str(i) for i in c['initDerived']))
        L.append('    inherited := [%s]' % ', '.join(str(i) for i in c['inherited']))
        L.append('    refreshed := [%s]' % ', '.join(str(i) for i in c['refreshed']))
        L.append('    processBound := [%s]' % ', '.join(str(i) for i in c['processBound']))
        L.append('    argKept := [%s] }' % ', '.join(str(i) for i in c['argKept']))
        L.append('')
    def san(x):
        return ''.join(ch if ch.isalnum() else '_' for ch in x)
    L.append('/-! ids by name (so that the property theorems do not depend on the order of the tables) -/')
    for c in t['classes']:
        for i, g in enumerate(c['getters']):
            L.append('def g_%s_%s : Nat := %d' % (c['cls'], san(g), i))
        for i, g in enumerate(c['slots']):
            L.append('def s_%s_%s : Nat := %d' % (c['cls'], san(g), i))
        for i, g in enumerate(c['flags']):
            L.append('def f_%s_%s : Nat := %d' % (c['cls'], san(g), i))
    L.append('')
    L.append('def allSpecs : List AnalyzerSpec := [%s]' % ', '.join(names))
    L.append('')
    L.append('/-- `ResetMixin.reset` walks the class dictionaries of the whole MRO (`false`: only `self.__class__.__dict__`; also `false` when the shape was not recognised) -/')
    L.append('def resetWalksMRO : Bool := %s' % ('true' if t['reset'] == 'mro' else 'false'))
    L.append('/-- the shape of `ResetMixin.reset` was recognised -/')
    L.append('def resetShapeKnown : Bool := %s' % ('true' if t['reset'] in ('own', 'mro') else 'false'))
    L.append('/-- how `ResetMixin.reset` obtains the names it deletes%s -/' % ((' (' + '; '.join(t['resetNameSourceWhy']) + ')') if t['resetNameSourceWhy'] else ''))
    L.append('def resetNameSource : NameSource := .%s' % t['resetNameSource'])
    L += ['', 'end Nitime.Generated', '']
    echo = {'reset': t['reset'], 'resetNameSource': t['resetNameSource'], 'resetNameSourceWhy': t['resetNameSourceWhy'],
            'ctor_bindings': {c['cls']: c['bindings'] for c in t['classes'] if c['bindings']},
            'inplace_helpers': t['inplace'],
            'classes': {c['cls']: {'getters': c['getters'], 'slots': c['slots'], 'flags': c['flags'],
                                   'derived': c['derivedNames'], 'refreshed': [c['slots'][i] for i in c['refreshed']], 'notes': c['notes'],
                                   'effects': {r['name']: {k: r[k] for k in ('writes', 'dwrites', 'clobbers', 'clobbersInput') if r[k]}
                                               for r in c['recs'] if r['writes'] or r['dwrites'] or r['clobbers'] or r['clobbersInput']}}
                        for c in t['classes']}}
    return 'Analyzers.lean', '\n'.join(L), echo


GENERATORS = [gen_analyzers]

if __name__ == '__main__':
    n, text, echo = gen_analyzers()
    print(text)
