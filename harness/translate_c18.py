"""C18 translator pass: option handling of FilterAnalyzer / boxcar_filter -> lean/Nitime/Generated/C18Opts.lean.

Pure `ast` walking of nitime/analysis/spectral.py and nitime/algorithms/filter.py (no repo code is executed).
Generated tables (source text, so that ANY edit of these fragments changes the table and re-opens the decided
statements `Props.option_flow`, `Props.ub_rule_all`, `Props.boxcar_guards` of lean/Nitime/Props/C18.lean):

  initFlow     FilterAnalyzer.__init__: (attribute, constructor parameter) for every `self.<attr> = <parameter>`
  callArgs     (method, callee, position | keyword, source text) for every argument of the external design / filter calls
               (signal.firwin, signal.iirdesign, tsa.boxcar_filter, signal.filtfilt) in fir / iir / filtered_boxcar / filtfilt
  ubRule       per method, how `self.ub` is read: (method, isNotNone | isNone | truthy | other:<text>, value when taken
               from the argument, value when ub is None)
  lbRule       per method, the expression the lower band edge is computed with
  boxcarTests  the tests of boxcar_filter's `if` statements, in source order (`lb == 0`, truthiness of `ub`, `lb`, ...)
  inTsRule     filtfilt: the test that selects `in_ts`, and the (name, source) pairs assigned in both branches
"""
import ast
import translate as T

METHODS = ['fir', 'iir', 'filtered_fourier', 'filtered_boxcar']
CALLEES = ['signal.firwin', 'signal.iirdesign', 'tsa.boxcar_filter', 'signal.filtfilt']


def un(node):
    try:
        return ast.unparse(node)
    except Exception:
        return '?'


def lit(s):
    return '"' + s.replace('\\', '\\\\').replace('"', '\\"') + '"'


def mentions(node, attr):
    return any(isinstance(n, ast.Attribute) and n.attr == attr and isinstance(n.value, ast.Name) and n.value.id == 'self' for n in ast.walk(node))


def test_kind(test, attr):
    if isinstance(test, ast.Compare) and len(test.ops) == 1 and mentions(test.left, attr) and isinstance(test.comparators[0], ast.Constant) \
            and test.comparators[0].value is None and un(test.left) == 'self.' + attr:
        if isinstance(test.ops[0], ast.IsNot):
            return 'isNotNone'
        if isinstance(test.ops[0], ast.Is):
            return 'isNone'
    if un(test) == 'self.' + attr:
        return 'truthy'
    return 'other:' + un(test)


def assigned(stmts):
    out = []
    for s in stmts:
        if isinstance(s, ast.Assign) and len(s.targets) == 1:
            out.append((un(s.targets[0]), un(s.value)))
    return out


def gen_opts():
    echo = {}
    init_flow, call_args, ub_rule, lb_rule, box_tests, in_ts = [], [], [], [], [], []
    try:
        sp = T.parse('nitime/analysis/spectral.py')
        init = T.find_func(sp, '__init__', 'FilterAnalyzer')
        params = {a.arg for a in init.args.args} if init else set()
        for s in (init.body if init else []):
            if isinstance(s, ast.Assign) and len(s.targets) == 1 and isinstance(s.targets[0], ast.Attribute) \
                    and un(s.targets[0].value) == 'self' and isinstance(s.value, ast.Name) and s.value.id in params:
                init_flow.append((s.targets[0].attr, s.value.id))
        for m in METHODS + ['filtfilt']:
            fn = T.find_func(sp, m, 'FilterAnalyzer')
            if fn is None:
                continue
            for node in ast.walk(fn):
                if isinstance(node, ast.Call) and un(node.func) in CALLEES:
                    for i, a in enumerate(node.args):
                        call_args.append((m, un(node.func), str(i), un(a)))
                    for k in node.keywords:
                        call_args.append((m, un(node.func), k.arg or '**', un(k.value)))
            if m in METHODS:
                found = False
                for node in ast.walk(fn):
                    if isinstance(node, ast.If) and mentions(node.test, 'ub') and not found:
                        found = True
                        kind = test_kind(node.test, 'ub')
                        a, b = assigned(node.body), assigned(node.orelse)
                        if kind == 'isNone':        # `if self.ub is None: self.ub = <default>`: value when given = the argument itself
                            ub_rule.append((m, kind, 'self.ub', a[0][1] if a else '?'))
                        else:
                            ub_rule.append((m, kind, a[0][1] if a else '?', b[0][1] if b else '?'))
                if not found:
                    ub_rule.append((m, 'absent', '?', '?'))
                lbs = [un(s.value) for s in ast.walk(fn) if isinstance(s, ast.Assign) and len(s.targets) == 1
                       and un(s.targets[0]) in ('lb_frac', 'lb') and mentions(s.value, 'lb')]
                lb_rule.append((m, lbs[0] if len(lbs) == 1 else ('self.lb' if not lbs else '?')))
        ff = T.find_func(sp, 'filtfilt', 'FilterAnalyzer')
        if ff is not None:
            for node in ff.body:
                if isinstance(node, ast.If) and 'in_ts' in un(node.test):
                    in_ts.append(('test', un(node.test)))
                    in_ts += [('then:' + k, v) for k, v in assigned(node.body)]
                    in_ts += [('else:' + k, v) for k, v in assigned(node.orelse)]
                    break
        fl = T.parse('nitime/algorithms/filter.py')
        bf = T.find_func(fl, 'boxcar_filter')
        if bf is not None:
            box_tests = [un(n.test) for n in ast.walk(bf) if isinstance(n, ast.If)]
            echo['boxcar_defaults'] = [un(d) for d in bf.args.defaults]
    except Exception as e:  # degraded tables: the decided statements stop checking
        echo['error'] = repr(e)

    def table(name, doc, rows, arity):
        ty = ' × '.join(['String'] * arity)
        body = ',\n   '.join('(' + ', '.join(lit(x) for x in r) + ')' for r in rows)
        return ['/-- %s -/' % doc, 'def %s : List (%s) :=\n  [%s]' % (name, ty, body), '']
    lines = ['-- GENERATED by harness/translate_c18.py from nitime/analysis/spectral.py (FilterAnalyzer) and', '-- nitime/algorithms/filter.py (boxcar_filter). DO NOT EDIT.',
             'namespace Nitime.Generated.C18Opts', '']
    lines += table('initFlow', '`self.<attr> = <constructor parameter>` in `FilterAnalyzer.__init__`', init_flow, 2)
    lines += table('callArgs', '(method, callee, position or keyword, source text of the argument)', call_args, 4)
    lines += table('ubRule', '(method, how `self.ub` is tested, value when an upper edge is given, value when it is `None`)', ub_rule, 4)
    lines += table('lbRule', '(method, expression of the lower band edge)', lb_rule, 2)
    lines += table('inTsRule', '`filtfilt`: the `in_ts` switch and what both branches assign', in_ts, 2)
    lines += ['/-- tests of the `if` statements of `boxcar_filter`, in source order -/',
              'def boxcarTests : List String :=\n  [%s]' % ', '.join(lit(t) for t in box_tests), '', 'end Nitime.Generated.C18Opts', '']
    echo.update(initFlow=init_flow, callArgs=call_args, ubRule=ub_rule, lbRule=lb_rule, inTsRule=in_ts, boxcarTests=box_tests)
    return 'C18Opts.lean', '\n'.join(lines), {'C18Opts': echo}


GENERATORS = [gen_opts]
