"""Translator pass for C07: the loop bodies of `tridisolve` -> lean/Nitime/Generated/Tridi.lean.

Two sources are read (never executed):
  * nitime/_utils.pyx   -- Cython text.  The function is cut out, the typed signature and the
                           `cdef` declarations are stripped (`cdef int N = len(b)` keeps its
                           assignment), `xrange` is read as `range`; the rest is plain Python
                           and goes through `ast`.
  * nitime/utils.py     -- the fallback `def tridisolve` inside `try: from nitime._utils import
                           tridisolve / except ImportError:`.

Supported fragment (anything else degrades the artefact so that `generated_eq_model_*` fails):
  N = len(b); dw = d.copy(); ew = e.copy(); if overwrite_b: x = b / else: x = b.copy()
  for k in range(lo, hi): ...          -> forUp lo hi
  for k in range(top, -1, -1): ...     -> forDown (top+1)
  A[i] = expr  (A in dw, ew, x)        -> let s := { s with A := set s.A i expr }
  t = expr                             -> let t := expr
  if not overwrite_b: return x
  expr: A[i] | temp | expr (+|-|*|/) expr | -expr ; i: affine in one of k, N with integer offset
Each program is emitted in the statement order of the source, as a fold over `Tridi.St`.
"""
import ast, os, re
import translate as tr

ARRS = ('dw', 'ew', 'x')


class Unsupported(Exception):
    pass


def _cut_pyx(text):
    m = re.search(r'^def tridisolve\(', text, flags=re.M)
    if not m:
        raise Unsupported('no def tridisolve in _utils.pyx')
    rest = text[m.start():]
    # signature up to the first line ending with '):'
    sig_end = re.search(r'\)\s*:\s*\n', rest)
    if not sig_end:
        raise Unsupported('signature of tridisolve not recognised')
    sig = rest[:sig_end.end()]
    body = rest[sig_end.end():]
    # stop at the next top-level statement
    nxt = re.search(r'^\S', body, flags=re.M)
    if nxt:
        body = body[:nxt.start()]
    params = []
    flat = re.sub(r'\[[^\]]*\]', '', sig.strip())          # drop buffer-type brackets
    for part in re.sub(r'^def tridisolve\(|\)\s*:\s*$', '', flat, flags=re.S).split(','):
        part = part.strip()
        if '=' in part:
            name, default = part.split('=', 1)
            params.append(name.strip().split()[-1] + '=' + default.strip())
        else:
            params.append(part.split()[-1])
    out = ['def tridisolve(%s):' % ', '.join(params)]
    for line in body.split('\n'):
        m2 = re.match(r'^(\s*)cdef\s+(.*)$', line)
        if m2:
            decl = re.sub(r'\[[^\]]*\]', '', m2.group(2))   # drop buffer-type brackets
            if '=' in decl:      # cdef int N = len(b)
                lhs, rhs = decl.split('=', 1)
                out.append('%s%s = %s' % (m2.group(1), lhs.strip().split()[-1], rhs.strip()))
            else:
                out.append(m2.group(1) + 'pass')
            continue
        out.append(line)
    return '\n'.join(out) + '\n'


def _find_py_fallback(tree):
    for node in ast.walk(tree):
        if isinstance(node, ast.Try):
            imports = any(isinstance(s, ast.ImportFrom) and s.module == 'nitime._utils' for s in node.body)
            if not imports:
                continue
            for h in node.handlers:
                for s in h.body:
                    if isinstance(s, ast.FunctionDef) and s.name == 'tridisolve':
                        return s
    return None


def _affine(node):
    """index expression -> (var or None, offset)"""
    if isinstance(node, ast.Constant) and isinstance(node.value, int) and not isinstance(node.value, bool):
        return (None, node.value)
    if isinstance(node, ast.UnaryOp) and isinstance(node.op, ast.USub):
        v, c = _affine(node.operand)
        if v is None:
            return (None, -c)
        raise Unsupported('negated index variable')
    if isinstance(node, ast.Name) and node.id in ('k', 'N'):
        return (node.id, 0)
    if isinstance(node, ast.BinOp) and isinstance(node.op, (ast.Add, ast.Sub)):
        (v1, c1), (v2, c2) = _affine(node.left), _affine(node.right)
        if isinstance(node.op, ast.Sub):
            if v2 is not None:
                raise Unsupported('index subtracts a variable')
            return (v1, c1 - c2)
        if v1 is not None and v2 is not None:
            raise Unsupported('index adds two variables')
        return (v1 or v2, c1 + c2)
    raise Unsupported('index expression ' + ast.dump(node)[:80])


def _show_affine(vc):
    v, c = vc
    if v is None:
        if c < 0:
            raise Unsupported('negative constant index')
        return str(c)
    if c == 0:
        return v
    return '(%s %s %d)' % (v, '+' if c > 0 else '-', abs(c))


def _expr(node, temps):
    if isinstance(node, ast.Subscript) and isinstance(node.value, ast.Name) and node.value.id in ARRS:
        return 'get s.%s %s' % (node.value.id, _show_affine(_affine(node.slice)))
    if isinstance(node, ast.Name) and node.id in temps:
        return node.id
    if isinstance(node, ast.BinOp) and isinstance(node.op, (ast.Add, ast.Sub, ast.Mult, ast.Div)):
        op = {ast.Add: '+', ast.Sub: '-', ast.Mult: '*', ast.Div: '/'}[type(node.op)]
        a, b = _expr(node.left, temps), _expr(node.right, temps)
        # parenthesise according to the python tree (explicit, no reliance on precedence)
        def par(s, sub):
            return '(%s)' % s if isinstance(sub, ast.BinOp) else s
        return '%s %s %s' % (par(a, node.left), op, par(b, node.right))
    raise Unsupported('expression ' + ast.dump(node)[:80])


def _assign(st, temps, ind):
    if len(st.targets) != 1:
        raise Unsupported('multiple assignment')
    tg = st.targets[0]
    if isinstance(tg, ast.Subscript) and isinstance(tg.value, ast.Name) and tg.value.id in ARRS:
        a = tg.value.id
        return '%slet s := { s with %s := set s.%s %s (%s) }' % (
            ind, a, a, _show_affine(_affine(tg.slice)), _expr(st.value, temps))
    if isinstance(tg, ast.Name) and tg.id not in ARRS + ('k', 'N', 's', 'd', 'e', 'b'):
        line = '%slet %s := %s' % (ind, tg.id, _expr(st.value, temps))
        temps.add(tg.id)
        return line
    raise Unsupported('assignment target ' + ast.dump(tg)[:80])


def _is_call(node, fn):
    return isinstance(node, ast.Call) and isinstance(node.func, ast.Name) and node.func.id == fn


def _copy_of(node):
    """`d.copy()` -> ('d', True); `d` -> ('d', False)"""
    if isinstance(node, ast.Call) and isinstance(node.func, ast.Attribute) and node.func.attr == 'copy' \
            and isinstance(node.func.value, ast.Name) and not node.args:
        return node.func.value.id, True
    if isinstance(node, ast.Name):
        return node.id, False
    raise Unsupported('work-vector initialiser ' + ast.dump(node)[:80])


def program(fn, name):
    """FunctionDef -> (lean text of the definition, echo)"""
    body = list(fn.body)
    if body and isinstance(body[0], ast.Expr) and isinstance(getattr(body[0], 'value', None), ast.Constant):
        body = body[1:]
    init, copies, lines, echo = {}, {}, [], []
    started = False
    returned = False
    for st in body:
        src = ast.unparse(st)
        if isinstance(st, ast.Pass):
            continue
        echo.append(src)
        if returned:
            raise Unsupported('statement after the return')
        if isinstance(st, ast.Assign) and len(st.targets) == 1 and isinstance(st.targets[0], ast.Name) \
                and st.targets[0].id == 'N':
            if not (_is_call(st.value, 'len') and len(st.value.args) == 1 and isinstance(st.value.args[0], ast.Name)
                    and st.value.args[0].id == 'b'):
                raise Unsupported('N is not len(b)')
            if started:
                raise Unsupported('N assigned after the loops began')
            continue
        if isinstance(st, ast.Assign) and len(st.targets) == 1 and isinstance(st.targets[0], ast.Name) \
                and st.targets[0].id in ('dw', 'ew'):
            if started:
                raise Unsupported('work vector re-bound after the loops began')
            init[st.targets[0].id], copies[st.targets[0].id] = _copy_of(st.value)
            continue
        if isinstance(st, ast.If) and isinstance(st.test, ast.Name) and st.test.id == 'overwrite_b':
            if started:
                raise Unsupported('x re-bound after the loops began')
            if not (len(st.body) == 1 and len(st.orelse) == 1 and isinstance(st.body[0], ast.Assign)
                    and isinstance(st.orelse[0], ast.Assign)):
                raise Unsupported('overwrite_b branch shape')
            (a, ca), (b2, cb) = _copy_of(st.body[0].value), _copy_of(st.orelse[0].value)
            if st.body[0].targets[0].id != 'x' or st.orelse[0].targets[0].id != 'x' or a != b2:
                raise Unsupported('overwrite_b branches bind different things')
            init['x'] = a
            copies['x'] = (not ca) and cb      # in place when asked to, a copy otherwise
            continue
        if isinstance(st, ast.If) and isinstance(st.test, ast.UnaryOp) and isinstance(st.test.op, ast.Not) \
                and isinstance(st.test.operand, ast.Name) and st.test.operand.id == 'overwrite_b':
            if not (len(st.body) == 1 and isinstance(st.body[0], ast.Return) and isinstance(st.body[0].value, ast.Name)
                    and st.body[0].value.id == 'x' and not st.orelse):
                raise Unsupported('return shape')
            returned = True
            continue
        if (not started and isinstance(st, ast.If) and not st.orelse and len(st.body) == 1 and isinstance(st.body[0], ast.Raise)
                and not any(isinstance(n, (ast.NamedExpr, ast.Yield, ast.Await, ast.Lambda)) for n in ast.walk(st.test))):
            # a precondition guard before the work vectors are touched (`if <operands are not floating point>: raise …`):
            # it only narrows the domain — the model is typed over a field K and has no such operands; echoed, not modelled
            echo[-1] = 'GUARD (domain restriction, not modelled): ' + src.split('\n')[0]
            continue
        if not started:
            if set(init) != set(ARRS):
                raise Unsupported('work vectors not all initialised before the first loop: %s' % sorted(init))
            lines.append('  let s : St K := { dw := %s, ew := %s, x := %s }' % (init['dw'], init['ew'], init['x']))
            started = True
        if isinstance(st, ast.For):
            if not (isinstance(st.target, ast.Name) and st.target.id == 'k' and not st.orelse
                    and isinstance(st.iter, ast.Call) and isinstance(st.iter.func, ast.Name)
                    and st.iter.func.id in ('range', 'xrange')):
                raise Unsupported('loop header ' + src.split('\n')[0])
            args = st.iter.args
            if len(args) == 2:
                hdr = 'forUp %s %s' % (_show_affine(_affine(args[0])), _show_affine(_affine(args[1])))
            elif len(args) == 3 and _affine(args[1]) == (None, -1) and _affine(args[2]) == (None, -1):
                v, c = _affine(args[0])
                hdr = 'forDown %s' % _show_affine((v, c + 1))
            else:
                raise Unsupported('range form ' + src.split('\n')[0])
            lines.append('  let s := %s s fun k s =>' % hdr)
            temps = set()
            for sub in st.body:
                if not isinstance(sub, ast.Assign):
                    raise Unsupported('loop body statement ' + ast.unparse(sub)[:80])
                lines.append(_assign(sub, temps, '    '))
            lines.append('    s')
        elif isinstance(st, ast.Assign):
            lines.append(_assign(st, set(), '  '))
        else:
            raise Unsupported('statement ' + src.split('\n')[0][:80])
    if not returned:
        raise Unsupported('no `if not overwrite_b: return x`')
    text = ['def %s (d e b : Array K) : Array K :=' % name, '  let N := b.size'] + lines + ['  s.x', '',
            '/-- d and e are copied before being worked on; b is used in place exactly when asked -/',
            'def %sCopies : Bool × Bool × Bool := (%s, %s, %s)' % (
                name, *('true' if copies.get(a) else 'false' for a in ARRS))]
    return '\n'.join(text), echo


def gen_tridi():
    echo, defs = {}, []
    jobs = []
    try:
        with open(os.path.join(tr.REPO, 'nitime/_utils.pyx')) as f:
            pyx = _cut_pyx(f.read())
        fn = ast.parse(pyx).body[0]
        jobs.append(('solvePyx', fn))
    except (Unsupported, SyntaxError, OSError, IndexError) as e:
        jobs.append(('solvePyx', e))
    try:
        fn = _find_py_fallback(tr.parse('nitime/utils.py'))
        jobs.append(('solvePy', fn if fn is not None else Unsupported('fallback def tridisolve not found in utils.py')))
    except (SyntaxError, OSError) as e:
        jobs.append(('solvePy', e))
    for name, fn in jobs:
        try:
            if isinstance(fn, Exception):
                raise fn
            text, ech = program(fn, name)
            echo[name] = ech
        except Exception as e:  # degraded artefact: the consuming theorem fails to check
            reason = re.sub(r'[^ -~]', '?', '%s: %s' % (type(e).__name__, e))[:200].replace('-/', '- /')
            text = ('/- UNSUPPORTED (%s) -/\ndef %s (d e b : Array K) : Array K := #[]\n'
                    'def %sCopies : Bool × Bool × Bool := (false, false, false)' % (reason, name, name))
            echo[name] = 'UNSUPPORTED: ' + reason
        defs.append(text)
    lines = ['-- GENERATED by harness/translate_c07.py from nitime/_utils.pyx and nitime/utils.py (tridisolve). DO NOT EDIT.',
             'import Nitime.Model.TridiBase', 'namespace Nitime.Generated.Tridi', 'open Nitime.Tridi', '',
             'variable {K : Type} [Inhabited K] [Add K] [Sub K] [Mul K] [Div K]', '']
    lines += ['\n\n'.join(defs), '', 'end Nitime.Generated.Tridi', '']
    return 'Tridi.lean', '\n'.join(lines), echo


# ---------------------------------------------------------------------------------------------
# dpss_windows: the commuting tridiagonal matrix and the autocorrelation weights
#   diagonal = <expr in N, nidx, np.cos(2*np.pi*W)>       -> diagGen N n cw
#   off_diag[:-1] = <expr in N, nidx[1:]>                  -> offGen N n1     (n1 = nidx[1:] entry = i+1)
#   W = float(NW) / N ; nidx = np.arange(N, dtype='d')     -> checked, flags
#   r = <expr in W, nidx, np.sinc(.)> ; r[0] = <expr in W> -> rGen W n sinc / r0Gen W
#   eigvals_banded(..., select_range=(N - Kmax, N - 1)) ; w = w[::-1]   -> flags
# Expression fragment: names N, W, numbers, + - * /, ** <small int>, np.cos(2*np.pi*W) (-> cw),
# nidx (-> n), nidx[1:] (-> n1), np.sinc(e) (-> sinc (e)).
# ---------------------------------------------------------------------------------------------
def _is_np(node, attr):
    return isinstance(node, ast.Attribute) and node.attr == attr and isinstance(node.value, ast.Name) \
        and node.value.id == 'np'


def _is_two_pi_W(node):
    """2 * np.pi * W in any association / order"""
    facs = []

    def flat(n):
        if isinstance(n, ast.BinOp) and isinstance(n.op, ast.Mult):
            flat(n.left); flat(n.right)
        else:
            facs.append(n)
    flat(node)
    kinds = []
    for f in facs:
        if isinstance(f, ast.Constant) and f.value in (2, 2.0):
            kinds.append('2')
        elif _is_np(f, 'pi'):
            kinds.append('pi')
        elif isinstance(f, ast.Name) and f.id == 'W':
            kinds.append('W')
        else:
            return False
    return sorted(kinds) == ['2', 'W', 'pi']


def _dexpr(node, env):
    """env: python name/pattern -> lean variable"""
    if isinstance(node, ast.Constant) and isinstance(node.value, (int, float)) and not isinstance(node.value, bool):
        v = node.value
        if float(v) != int(v) or v < 0:
            raise Unsupported('non-integral constant %r' % (v,))
        return '((%d : Nat) : K)' % int(v)
    if isinstance(node, ast.Name) and node.id in env:
        return env[node.id]
    if isinstance(node, ast.Subscript) and isinstance(node.value, ast.Name) and node.value.id == 'nidx' \
            and isinstance(node.slice, ast.Slice) and node.slice.upper is None and node.slice.step is None \
            and isinstance(node.slice.lower, ast.Constant) and node.slice.lower.value == 1 and 'nidx[1:]' in env:
        return env['nidx[1:]']
    if isinstance(node, ast.Call) and _is_np(node.func, 'cos') and len(node.args) == 1 and not node.keywords \
            and _is_two_pi_W(node.args[0]) and 'cos2piW' in env:
        return env['cos2piW']
    if isinstance(node, ast.Call) and _is_np(node.func, 'sinc') and len(node.args) == 1 and not node.keywords \
            and 'sinc' in env:
        return '(%s (%s))' % (env['sinc'], _dexpr(node.args[0], env))
    if isinstance(node, ast.BinOp) and isinstance(node.op, (ast.Add, ast.Sub, ast.Mult, ast.Div)):
        op = {ast.Add: '+', ast.Sub: '-', ast.Mult: '*', ast.Div: '/'}[type(node.op)]
        return '(%s %s %s)' % (_dexpr(node.left, env), op, _dexpr(node.right, env))
    if isinstance(node, ast.BinOp) and isinstance(node.op, ast.Pow) and isinstance(node.right, ast.Constant) \
            and isinstance(node.right.value, int) and 0 <= node.right.value <= 4:
        b = _dexpr(node.left, env)
        if node.right.value == 0:
            return '((1 : Nat) : K)'
        return '(' + ' * '.join([b] * node.right.value) + ')'
    raise Unsupported('expression ' + ast.unparse(node)[:80])


def gen_dpss():
    echo = {}
    items = {}     # name -> (signature, body or None, reason)
    flags = {}
    try:
        fn = tr.find_func(tr.parse('nitime/utils.py'), 'dpss_windows')
        if fn is None:
            raise Unsupported('def dpss_windows not found')
        assigns = {}
        for node in ast.walk(fn):
            if isinstance(node, ast.Assign) and len(node.targets) == 1:
                assigns.setdefault(ast.unparse(node.targets[0]), []).append(node.value)

        def one(name):
            vs = assigns.get(name, [])
            if len(vs) != 1:
                raise Unsupported('%d assignments to %s' % (len(vs), name))
            return vs[0]

        def attempt(key, sig, target, env):
            try:
                v = one(target)
                items[key] = (sig, _dexpr(v, env))
                echo[key] = {'source': '%s = %s' % (target, ast.unparse(v)), 'lean': items[key][1]}
            except Unsupported as e:
                items[key] = (sig, None)
                echo[key] = 'UNSUPPORTED: %s' % e
        attempt('diagGen', '(N n cw : K)', 'diagonal', {'N': 'N', 'nidx': 'n', 'cos2piW': 'cw'})
        attempt('offGen', '(N n1 : K)', 'off_diag[:-1]', {'N': 'N', 'nidx[1:]': 'n1'})
        attempt('rGen', '(W n : K) (sinc : K → K)', 'r', {'W': 'W', 'nidx': 'n', 'sinc': 'sinc'})
        attempt('r0Gen', '(W : K)', 'r[0]', {'W': 'W'})
        src = {k: ast.unparse(one(k)) for k in ('W', 'nidx') if len(assigns.get(k, [])) == 1}
        flags['wIsNWoverN'] = src.get('W') in ('float(NW) / N', 'NW / float(N)', 'float(NW) / float(N)')
        flags['nidxIsArange'] = src.get('nidx') in ("np.arange(N, dtype='d')", 'np.arange(N, dtype=float)',
                                                    "np.arange(N, dtype='float64')")
        sel = [ast.unparse(k.value) for n in ast.walk(fn) if isinstance(n, ast.Call)
               and ast.unparse(n.func).endswith('eigvals_banded') for k in n.keywords if k.arg == 'select_range']
        flags['selectsTopKmax'] = sel == ['(N - Kmax, N - 1)']
        flags['reversesEigs'] = [ast.unparse(v) for v in assigns.get('w', [])][-1:] == ['w[::-1]']
        calls = [n for n in ast.walk(fn) if isinstance(n, ast.Call) and ast.unparse(n.func) == 'tridi_inverse_iteration']
        flags['inverseIterationArgs'] = len(calls) == 1 and [ast.unparse(a) for a in calls[0].args] == \
            ['diagonal', 'off_diag', 'w[k]']
        ab = {k: [ast.unparse(v) for v in vs] for k, vs in assigns.items() if k.startswith('ab[')}
        flags['bandedStorage'] = ab == {'ab[1]': ['diagonal'], 'ab[0, 1:]': ['off_diag[:-1]']}
        echo['flags'] = dict(flags)
    except (Unsupported, SyntaxError, OSError) as e:
        echo['error'] = 'UNSUPPORTED: %s' % e
    lines = ['-- GENERATED by harness/translate_c07.py from nitime/utils.py (dpss_windows). DO NOT EDIT.',
             'namespace Nitime.Generated.Dpss', '',
             'variable {K : Type} [Add K] [Sub K] [Mul K] [Div K] [NatCast K]', '']
    for key, sig in (('diagGen', '(N n cw : K)'), ('offGen', '(N n1 : K)'), ('rGen', '(W n : K) (sinc : K → K)'),
                     ('r0Gen', '(W : K)')):
        body = items.get(key, (sig, None))[1]
        if body is None:
            lines.append('/- UNSUPPORTED: %s -/' % re.sub(r'[^ -~]', '?', str(echo.get(key, echo.get('error', ''))))[:200].replace('-/', '- /'))
            lines.append('def %s %s : K := ((0 : Nat) : K)' % (key, sig))
        else:
            lines.append('def %s %s : K := %s' % (key, sig, body))
        lines.append('')
    for k in ('wIsNWoverN', 'nidxIsArange', 'selectsTopKmax', 'reversesEigs', 'inverseIterationArgs', 'bandedStorage'):
        lines.append('def %s : Bool := %s' % (k, 'true' if flags.get(k) else 'false'))
    lines += ['', 'end Nitime.Generated.Dpss', '']
    return 'Dpss.lean', '\n'.join(lines), echo


GENERATORS = [gen_tridi, gen_dpss]
