"""Translator pass for C07: the loop bodies of `tridisolve` -> lean/Nitime/Generated/Tridi.lean.

Two sources are read (never executed):
  * nitime/_utils.pyx   -- Cython text.  The function is cut out, the typed signature and the
                           `cdef` declarations are stripped (`cdef int N = len(b)` keeps its
                           assignment), `xrange` is read as `range`; the rest is plain Python
                           and goes through `ast`.
  * nitime/utils.py     -- the fallback `def tridisolve` inside `try: from nitime._utils import
                           tridisolve / except ImportError:`.

Supported fragment (anything else degrades the artefact so that `generated_eq_model_*` fails):
  N = len(b); dw = d.copy(); ew = e.copy(); if overwrite_b: x = b / else: x = b.copy()
  for k in range(lo, hi): ...          -> forUp lo hi
  for k in range(top, -1, -1): ...     -> forDown (top+1)
  A[i] = expr  (A in dw, ew, x)        -> let s := { s with A := set s.A i expr }
  t = expr                             -> let t := expr
  if not overwrite_b: return x
  expr: A[i] | temp | expr (+|-|*|/) expr | -expr ; i: affine in one of k, N with integer offset
Each program is emitted in the statement order of the source, as a fold over `Tridi.St`.
"""
import ast, os, re
import translate as tr

ARRS = ('dw', 'ew', 'x')


class Unsupported(Exception):
    pass


def _cut_pyx(text):
    m = re.search(r'^def tridisolve\(', text, flags=re.M)
    if not m:
        raise Unsupported('no def tridisolve in _utils.pyx')
    rest = text[m.start():]
    # signature up to the first line ending with '):'
    sig_end = re.search(r'\)\s*:\s*\n', rest)
    if not sig_end:
        raise Unsupported('signature of tridisolve not recognised')
    sig = rest[:sig_end.end()]
    body = rest[sig_end.end():]
    # stop at the next top-level statement
    nxt = re.search(r'^\S', body, flags=re.M)
    if nxt:
        body = body[:nxt.start()]
    params = []
    flat = re.sub(r'\[[^\]]*\]', '', sig.strip())          # drop buffer-type brackets
    for part in re.sub(r'^def tridisolve\(|\)\s*:\s*$', '', flat, flags=re.S).split(','):
        part = part.strip()
        if '=' in part:
            name, default = part.split('=', 1)
            params.append(name.strip().split()[-1] + '=' + default.strip())
        else:
            params.append(part.split()[-1])
    out = ['def tridisolve(%s):' % ', '.join(params)]
    for line in body.split('\n'):
        m2 = re.match(r'^(\s*)cdef\s+(.*)$', line)
        if m2:
            decl = re.sub(r'\[[^\]]*\]', '', m2.group(2))   # drop buffer-type brackets
            if '=' in decl:      # cdef int N = len(b)
                lhs, rhs = decl.split('=', 1)
                out.append('%s%s = %s' % (m2.group(1), lhs.strip().split()[-1], rhs.strip()))
            else:
                out.append(m2.group(1) + 'pass')
            continue
        out.append(line)
    return '\n'.join(out) + '\n'


def _find_py_fallback(tree):
    for node in ast.walk(tree):
        if isinstance(node, ast.Try):
            imports = any(isinstance(s, ast.ImportFrom) and s.module == 'nitime._utils' for s in node.body)
            if not imports:
                continue
            for h in node.handlers:
                for s in h.body:
                    if isinstance(s, ast.FunctionDef) and s.name == 'tridisolve':
                        return s
    return None


def _affine(node):
    """index expression -> (var or None, offset)"""
    if isinstance(node, ast.Constant) and isinstance(node.value, int) and not isinstance(node.value, bool):
        return (None, node.value)
    if isinstance(node, ast.UnaryOp) and isinstance(node.op, ast.USub):
        v, c = _affine(node.operand)
        if v is None:
            return (None, -c)
        raise Unsupported('negated index variable')
    if isinstance(node, ast.Name) and node.id in ('k', 'N'):
        return (node.id, 0)
    if isinstance(node, ast.BinOp) and isinstance(node.op, (ast.Add, ast.Sub)):
        (v1, c1), (v2, c2) = _affine(node.left), _affine(node.right)
        if isinstance(node.op, ast.Sub):
            if v2 is not None:
                raise Unsupported('index subtracts a variable')
            return (v1, c1 - c2)
        if v1 is not None and v2 is not None:
            raise Unsupported('index adds two variables')
        return (v1 or v2, c1 + c2)
    raise Unsupported('index expression ' + ast.dump(node)[:80])


def _show_affine(vc):
    v, c = vc
    if v is None:
        if c < 0:
            raise Unsupported('negative constant index')
        return str(c)
    if c == 0:
        return v
    return '(%s %s %d)' % (v, '+' if c > 0 else '-', abs(c))


def _expr(node, temps):
    if isinstance(node, ast.Subscript) and isinstance(node.value, ast.Name) and node.value.id in ARRS:
        return 'get s.%s %s' % (node.value.id, _show_affine(_affine(node.slice)))
    if isinstance(node, ast.Name) and node.id in temps:
        return node.id
    if isinstance(node, ast.BinOp) and isinstance(node.op, (ast.Add, ast.Sub, ast.Mult, ast.Div)):
        op = {ast.Add: '+', ast.Sub: '-', ast.Mult: '*', ast.Div: '/'}[type(node.op)]
        a, b = _expr(node.left, temps), _expr(node.right, temps)
        # parenthesise according to the python tree (explicit, no reliance on precedence)
        def par(s, sub):
            return '(%s)' % s if isinstance(sub, ast.BinOp) else s
        return '%s %s %s' % (par(a, node.left), op, par(b, node.right))
    raise Unsupported('expression ' + ast.dump(node)[:80])


def _assign(st, temps, ind):
    if len(st.targets) != 1:
        raise Unsupported('multiple assignment')
    tg = st.targets[0]
    if isinstance(tg, ast.Subscript) and isinstance(tg.value, ast.Name) and tg.value.id in ARRS:
        a = tg.value.id
        return '%slet s := { s with %s := set s.%s %s (%s) }' % (
            ind, a, a, _show_affine(_affine(tg.slice)), _expr(st.value, temps))
    if isinstance(tg, ast.Name) and tg.id not in ARRS + ('k', 'N', 's', 'd', 'e', 'b'):
        line = '%slet %s := %s' % (ind, tg.id, _expr(st.value, temps))
        temps.add(tg.id)
        return line
    raise Unsupported('assignment target ' + ast.dump(tg)[:80])


def _is_call(node, fn):
    return isinstance(node, ast.Call) and isinstance(node.func, ast.Name) and node.func.id == fn


def _copy_of(node):
    """`d.copy()` -> ('d', True); `d` -> ('d', False)"""
    if isinstance(node, ast.Call) and isinstance(node.func, ast.Attribute) and node.func.attr == 'copy' \
            and isinstance(node.func.value, ast.Name) and not node.args:
        return node.func.value.id, True
    if isinstance(node, ast.Name):
        return node.id, False
    raise Unsupported('work-vector initialiser ' + ast.dump(node)[:80])


def program(fn, name):
    """FunctionDef -> (lean text of the definition, echo)"""
    body = list(fn.body)
    if body and isinstance(body[0], ast.Expr) and isinstance(getattr(body[0], 'value', None), ast.Constant):
        body = body[1:]
    init, copies, lines, echo = {}, {}, [], []
    started = False
    returned = False
    for st in body:
        src = ast.unparse(st)
        if isinstance(st, ast.Pass):
            continue
        echo.append(src)
        if returned:
            raise Unsupported('statement after the return')
        if isinstance(st, ast.Assign) and len(st.targets) == 1 and isinstance(st.targets[0], ast.Name) \
                and st.targets[0].id == 'N':
            if not (_is_call(st.value, 'len') and len(st.value.args) == 1 and isinstance(st.value.args[0], ast.Name)
                    and st.value.args[0].id == 'b'):
                raise Unsupported('N is not len(b)')
            if started:
                raise Unsupported('N assigned after the loops began')
            continue
        if isinstance(st, ast.Assign) and len(st.targets) == 1 and isinstance(st.targets[0], ast.Name) \
                and st.targets[0].id in ('dw', 'ew'):
            if started:
                raise Unsupported('work vector re-bound after the loops began')
            init[st.targets[0].id], copies[st.targets[0].id] = _copy_of(st.value)
            continue
        if isinstance(st, ast.If) and isinstance(st.test, ast.Name) and st.test.id == 'overwrite_b':
            if started:
                raise Unsupported('x re-bound after the loops began')
            if not (len(st.body) == 1 and len(st.orelse) == 1 and isinstance(st.body[0], ast.Assign)
                    and isinstance(st.orelse[0], ast.Assign)):
                raise Unsupported('overwrite_b branch shape')
            (a, ca), (b2, cb) = _copy_of(st.body[0].value), _copy_of(st.orelse[0].value)
            if st.body[0].targets[0].id != 'x' or st.orelse[0].targets[0].id != 'x' or a != b2:
                raise Unsupported('overwrite_b branches bind different things')
            init['x'] = a
            copies['x'] = (not ca) and cb      # in place when asked to, a copy otherwise
            continue
        if isinstance(st, ast.If) and isinstance(st.test, ast.UnaryOp) and isinstance(st.test.op, ast.Not) \
                and isinstance(st.test.operand, ast.Name) and st.test.operand.id == 'overwrite_b':
            if not (len(st.body) == 1 and isinstance(st.body[0], ast.Return) and isinstance(st.body[0].value, ast.Name)
                    and st.body[0].value.id == 'x' and not st.orelse):
                raise Unsupported('return shape')
            returned = True
            continue
        if not started:
            if set(init) != set(ARRS):
                raise Unsupported('work vectors not all initialised before the first loop: %s' % sorted(init))
            lines.append('  let s : St K := { dw := %s, ew := %s, x := %s }' % (init['dw'], init['ew'], init['x']))
            started = True
        if isinstance(st, ast.For):
            if not (isinstance(st.target, ast.Name) and st.target.id == 'k' and not st.orelse
                    and isinstance(st.iter, ast.Call) and isinstance(st.iter.func, ast.Name)
                    and st.iter.func.id in ('range', 'xrange')):
                raise Unsupported('loop header ' + src.split('\n')[0])
            args = st.iter.args
            if len(args) == 2:
                hdr = 'forUp %s %s' % (_show_affine(_affine(args[0])), _show_affine(_affine(args[1])))
            elif len(args) == 3 and _affine(args[1]) == (None, -1) and _affine(args[2]) == (None, -1):
                v, c = _affine(args[0])
                hdr = 'forDown %s' % _show_affine((v, c + 1))
            else:
                raise Unsupported('range form ' + src.split('\n')[0])
            lines.append('  let s := %s s fun k s =>' % hdr)
            temps = set()
            for sub in st.body:
                if not isinstance(sub, ast.Assign):
                    raise Unsupported('loop body statement ' + ast.unparse(sub)[:80])
                lines.append(_assign(sub, temps, '    '))
            lines.append('    s')
        elif isinstance(st, ast.Assign):
            lines.append(_assign(st, set(), '  '))
        else:
            raise Unsupported('statement ' + src.split('\n')[0][:80])
    if not returned:
        raise Unsupported('no `if not overwrite_b: return x`')
    text = ['def %s (d e b : Array K) : Array K :=' % name, '  let N := b.size'] + lines + ['  s.x', '',
            '/-- d and e are copied before being worked on; b is used in place exactly when asked -/',
            'def %sCopies : Bool × Bool × Bool := (%s, %s, %s)' % (
                name, *('true' if copies.get(a) else 'false' for a in ARRS))]
    return '\n'.join(text), echo


def gen_tridi():
    echo, defs = {}, []
    jobs = []
    try:
        with open(os.path.join(tr.REPO, 'nitime/_utils.pyx')) as f:
            pyx = _cut_pyx(f.read())
        fn = ast.parse(pyx).body[0]
        jobs.append(('solvePyx', fn))
    except (Unsupported, SyntaxError, OSError, IndexError) as e:
        jobs.append(('solvePyx', e))
    try:
        fn = _find_py_fallback(tr.parse('nitime/utils.py'))
        jobs.append(('solvePy', fn if fn is not None else Unsupported('fallback def tridisolve not found in utils.py')))
    except (SyntaxError, OSError) as e:
        jobs.append(('solvePy', e))
    for name, fn in jobs:
        try:
            if isinstance(fn, Exception):
                raise fn
            text, ech = program(fn, name)
            echo[name] = ech
        except Exception as e:  # degraded artefact: the consuming theorem fails to check
            reason = re.sub(r'[^ -~]', '?', '%s: %s' % (type(e).__name__, e))[:200].replace('-/', '- /')
            text = ('/- UNSUPPORTED (%s) -/\ndef %s (d e b : Array K) : Array K := #[]\n'
                    'def %sCopies : Bool × Bool × Bool := (false, false, false)' % (reason, name, name))
            echo[name] = 'UNSUPPORTED: ' + reason
        defs.append(text)
    lines = ['-- GENERATED by harness/translate_c07.py from nitime/_utils.pyx and nitime/utils.py (tridisolve). DO NOT EDIT.',
             'import Nitime.Model.TridiBase', 'namespace Nitime.Generated.Tridi', 'open Nitime.Tridi', '',
             'variable {K : Type} [Inhabited K] [Add K] [Sub K] [Mul K] [Div K]', '']
    lines += ['\n\n'.join(defs), '', 'end Nitime.Generated.Tridi', '']
    return 'Tridi.lean', '\n'.join(lines), echo


GENERATORS = [gen_tridi]
