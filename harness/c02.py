"""C02 — every valid sampling specification yields one well-formed uniform time axis.

Correspondence: `UniformTime(...)`, `TimeSeries(...).time`, `TimeSeries(data, time=axis).time`,
`Frequency(f, unit)`, `Frequency.to_period()` on the real classes vs the Lean model `Nitime.C02`
(variant `.intended`; the driver also prints variant `.current`, the model of the unchanged tree,
whose agreement is counted in the oracle statistics).  numpy's `arange` length contract is
monitored (`arange_len`).  Op `heap`: programs on a store of live objects (constructions FROM other objects interleaved
with in-place operators on any of them) vs the Lean object store (`Heap`, `exec`): every object after every command.
Oracle (independent of the Lean model and of the translator): fractions.Fraction arithmetic on
picoseconds + the documented argument table written out by hand below.
"""
import math
from fractions import Fraction as Fr
import numpy as np
from common import Case, Failure, f2x, x2f, call

PID = 'C02'
LEAN_TARGETS = ['Nitime.Props.C02']
RULE = ('specifications generated from one PRNG state: all 16 (+16 with an existing axis) presence patterns of '
        '(interval, rate, length, duration); values as python int / float / 0-d time object / Frequency; lengths '
        'log-uniform 1..10^5 (quick) or 1..10^6 (thorough); intervals from {whole ps, k/3, k/7, 1-6 digit decimals, 2.2, '
        '0.81327, reciprocal of a rate}; 9 units + None + an invalid name; t0 of both signs; series with 1-d/2-d data; '
        'distinct = distinct protocol line; non-trivial = accepted specification with n >= 2; '
        'object programs (op `heap`): a store of live objects starting from one axis (n 1..400, sometimes 5000; 9 units), 5-18 commands '
        'drawn from {UniformTime(obj[,unit][,length]), obj.copy(), TimeSeries(data, time=obj[,unit]), series.time, series.copy(), '
        'obj += / -= scalar or ramp (bare ints in the axis unit / time objects), obj *= k, obj /= k, obj[i] = v} applied to ANY live '
        'object; every object re-observed after every command, then every object written to directly (buffer, attribute objects); '
        'every constructor case additionally changes its ARGUMENT objects in place after the construction and the result in place, '
        're-inspecting the other side; session 3: every bare number (length, duration, rate, interval, t0) is handed over as python int/float, '
        'np.int16/32/64, np.float64 or a 0-d array (a function of its value), explicit falsy starts (0, 0.0, zero time objects) are always present, '
        'an equal specification is rebuilt after the first result was changed in place, and for every program the np.shares_memory classes of '
        'all live axes are compared with the buffer layer of the model (op heapparts); round 4: ~95 cases per run (own PRNG stream, every tier) at '
        'lengths 1e5+-{0..3}, 2^17+-1, 2e5+-2, 1e6+-{0..10}: TimeSeries(data_m, time=axis_n) with m = n and m = n+-{1,2,3,10} (1-d / 2-d data, 4 intervals, '
        'several units, t0 given or not), time= with an explicit rate that fills the axis exactly / 7x that rate / data one sample off, and length-vs-duration '
        'specifications (exact, over-determined, existing axis cut to a length)')
ASSUMPTIONS = ['numpy int64/float64 arithmetic is IEEE-754 binary64 / two\'s complement (F64 model checked bit-for-bit in C01)',
               'np.arange(int64 start, stop, step) has length ceil(fl((stop-start)/step)) (monitored by op arange_len in this run)',
               'total extent |t0| + n*interval stays below 2^62 ps; intervals are at least 1 ps; lengths are python ints >= 1']
TRUSTED_EXTRA = ['np.arange integer fill start + i*step and its length rule (modelled by `arangeLen`, monitored per run)',
                 'python float()/int*float/float/int conversions = correctly rounded binary64 (modelled with F64.ofInt/fmul/fdiv)']

UNITS = ['ps', 'ns', 'us', 'ms', 's', 'm', 'h', 'D', 'W']
FACTOR = {'ps': 1, 'ns': 10**3, 'us': 10**6, 'ms': 10**9, 's': 10**12, 'm': 60 * 10**12,
          'h': 3600 * 10**12, 'D': 86400 * 10**12, 'W': 604800 * 10**12}   # SI definition (oracle side)
LIM = 2**61
# the documented argument table (docstrings of UniformTime / TimeSeries), order (interval, rate, length, duration)
DOC = {(1, 0, 1, 0), (1, 0, 0, 1), (0, 1, 1, 0), (0, 1, 0, 1), (0, 0, 1, 1)}
DOC_WITH_AXIS = DOC | {(0, 0, 0, 0), (1, 0, 0, 0), (0, 1, 0, 0), (0, 0, 1, 0), (0, 0, 0, 1)}
DOC_SERIES = {(1, 0, 0), (1, 0, 1), (0, 1, 0), (0, 1, 1), (0, 0, 1)}       # (interval, rate, duration)
SHAPE = {(1, 0, 1, 0): 'iv+len', (1, 0, 0, 1): 'iv+dur', (0, 1, 1, 0): 'rate+len', (0, 1, 0, 1): 'rate+dur',
         (0, 0, 1, 1): 'len+dur', (0, 0, 0, 0): 'nothing', (1, 0, 0, 0): 'iv', (0, 1, 0, 0): 'rate',
         (0, 0, 1, 0): 'len', (0, 0, 0, 1): 'dur'}


def ts():
    import nitime.timeseries as t
    return t


# ------------------------------------------------------------------ argument values
# tagged values: ('i', int) ('f', float) ('T', unit, ps) ('F', hz)
def tok(v):
    if v is None:
        return '-'
    if v[0] == 'i':
        return 'i%d' % v[1]
    if v[0] == 'f':
        return f2x(v[1])
    if v[0] == 'T':
        return 'T:%s:%d' % (v[1], v[2])
    if v[0] == 'F':
        return 'F:' + f2x(v[1])[1:]
    raise ValueError(v)


def dress_num(x):
    """session 3 (L3 / L1): the SAME number in another of the types a caller may hold it in — python int / float, numpy
    scalars of several widths, 0-d arrays.  The choice is a function of the value, so every run, the replay and the
    fresh-argument re-construction dress it alike; model and oracle see the number, whatever its type.
    (float32 is left out here: scaling a float32 is C01's recorded finding.)"""
    import zlib
    if isinstance(x, bool) or not isinstance(x, (int, float)):
        return x
    h = zlib.crc32(repr(x).encode()) % 10
    if isinstance(x, int):
        if h == 4 or (h in (5, 7) and abs(x) >= 2**15):
            return np.int64(x) if abs(x) < 2**63 else x
        if h == 5:
            return np.int16(x)
        if h == 6:
            return np.array(x, dtype=np.int64) if abs(x) < 2**63 else x
        if h == 7:
            return np.int32(x)
        return x
    if h == 5:
        return np.float64(x)
    if h == 6:
        return np.array(x, dtype=np.float64)
    return x


def real(v):
    if v is None:
        return None
    if v[0] in ('i', 'f'):
        return dress_num(v[1])
    if v[0] == 'T':
        t = ts().TimeArray(np.int64(v[2]), time_unit='ps')
        t.convert_unit(v[1])
        return t
    if v[0] == 'F':
        return ts().Frequency(v[1])


def real_axis(ax):
    """a real UniformTime with exactly these (unit, t0 ps, dt ps, n); built from time objects and a
    length, the path that is exact on integers"""
    if ax is None:
        return None
    u, t0, dt, n = ax
    return ts().UniformTime(length=n, sampling_interval=real(('T', u, dt)), t0=real(('T', u, t0)), time_unit=u)


def axis_obs(a):
    """(unit, t0, dt, n, dur, rate, affine?) of a real axis"""
    arr = np.asarray(a).view(np.ndarray)
    n = len(arr)
    t0, dt = int(a.t0), int(a.sampling_interval)
    affine = bool(n == 0 or (arr[0] == t0 and np.array_equal(arr, t0 + dt * np.arange(n, dtype=np.int64))))
    if n:
        s = '%d,%d,%d' % (arr[0], arr[min(1, n - 1)], arr[-1])
    else:
        s = '-'
    return {'unit': a.time_unit, 't0': t0, 'dt': dt, 'n': n, 'dur': int(a.duration), 'rate': float(a.sampling_rate),
            'affine': affine, 'S': s}


def canon_axis(a):
    o = axis_obs(a)
    return 'A:%s:%d:%d:%d:%d:%s:S:%s' % (o['unit'], o['t0'], o['dt'], o['n'], o['dur'], f2x(o['rate'])[1:],
                                          o['S'] if o['affine'] else 'NOT-AFFINE')


def tok_axis_obj(a):
    o = axis_obs(a)
    return 'A:%s:%d:%d:%d:%d:%s' % (o['unit'], o['t0'], o['dt'], o['n'], o['dur'], f2x(o['rate'])[1:])


def parse_axis(s):
    """'A:unit:t0:dt:n:dur:rate:S:..' -> dict"""
    p = s.split(':')
    if len(p) < 9 or p[0] != 'A':
        return None
    return {'unit': p[1], 't0': int(p[2]), 'dt': int(p[3]), 'n': int(p[4]), 'dur': int(p[5]), 'rate': x2f('x' + p[6]),
            'affine': p[8] != 'NOT-AFFINE', 'S': p[8]}


# ------------------------------------------------------------------ hidden state on argument / result objects
def _seq_rng(line):
    import hashlib, random
    return random.Random(int.from_bytes(hashlib.sha256(line.encode()).digest()[:8], 'little'))


def snap(obj):
    """observable state of an argument object (value, unit label), for before/after comparison"""
    T = ts()
    if obj is None or isinstance(obj, (int, str)) and not isinstance(obj, T.Frequency):
        return repr(obj)
    if isinstance(obj, T.UniformTime):
        o = axis_obs(obj)
        return 'U:%s' % sorted(o.items())
    if isinstance(obj, T.TimeInterface):
        a = np.asarray(obj).view(np.ndarray)
        return 'T:%s:%s:%s' % (obj.time_unit, getattr(obj, '_conversion_factor', None), a.tobytes().hex())
    if isinstance(obj, T.Frequency):
        return 'F:%s' % f2x(float(obj))
    if isinstance(obj, float):
        return f2x(obj)
    if isinstance(obj, np.ndarray):
        return 'A:%s:%s' % (obj.dtype, obj.tobytes().hex()[:4000])
    return repr(obj)


def exercise(obj, r):
    """read an object through its accessors / converters, each possibly twice, in an order drawn from r;
    none of these may change what the object means when it is used afterwards"""
    T = ts()
    ops = []
    if isinstance(obj, T.Frequency):
        us = ['ms', 's', 'ns', 'us', 'ps', 'm']
        ops = [lambda u=u: obj.to_period(u) for u in r.sample(us, 3)] + [
            lambda: obj.to_period(), lambda: float(obj), lambda: repr(obj), lambda: obj * 2, lambda: T.Frequency(obj),
            lambda: 1 / obj, lambda: obj.to_period(time_unit=r.choice(us))]
    elif isinstance(obj, T.UniformTime):
        ops = [lambda: obj.sampling_rate.to_period(r.choice(['ms', 's', 'us', 'm'])), lambda: obj.sampling_rate.to_period(),
               lambda: float(obj.duration), lambda: float(obj.sampling_interval), lambda: repr(obj.t0), lambda: len(obj),
               lambda: obj.copy(), lambda: T.UniformTime(obj), lambda: obj[0], lambda: obj.min(), lambda: obj.max(),
               lambda: obj.index_at(obj.t0), lambda: obj.at(obj.t0), lambda: T.TimeArray(obj), lambda: obj + obj.sampling_interval,
               lambda: obj == obj, lambda: T.UniformTime(obj, time_unit=r.choice(UNITS)),
               lambda: T.TimeSeries(np.zeros(len(obj), dtype=np.int8), time=obj)]
    elif isinstance(obj, T.TimeSeries):
        ops = [lambda: obj.time, lambda: obj.sampling_rate.to_period(r.choice(['ms', 's', 'us'])), lambda: float(obj.duration),
               lambda: float(obj.sampling_interval), lambda: len(obj), lambda: obj.time.copy(), lambda: repr(obj.t0),
               lambda: obj.copy(), lambda: obj.time.sampling_rate.to_period('ms'), lambda: T.UniformTime(obj.time)]
    elif isinstance(obj, T.TimeInterface):
        ops = [lambda: float(obj), lambda: int(obj), lambda: repr(obj), lambda: obj + obj, lambda: obj - obj, lambda: obj == obj,
               lambda: obj * 2, lambda: obj.copy(), lambda: T.TimeArray(obj), lambda: T.TimeArray(obj, time_unit=r.choice(UNITS)),
               lambda: np.asarray(obj), lambda: obj.max(), lambda: obj < obj]
    r.shuffle(ops)
    with np.errstate(all='ignore'):
        for op in ops:
            for _ in range(r.choice([1, 1, 2])):
                try:
                    op()
                except Exception:   # noqa  (an accessor refusing is not this check's business)
                    pass


def mutate_object(obj, r, undo):
    """change a time object IN PLACE the ways a caller can: the in-place operators of an axis, direct writes to a time
    object's buffer and unit label (restored afterwards through `undo` when the object may be used again), the same on
    the axis and attribute objects of a series"""
    T = ts()
    with np.errstate(all='ignore'):
        if isinstance(obj, T.UniformTime):
            ext = abs(int(obj.t0)) + len(obj) * abs(int(obj.sampling_interval))
            ops = [lambda: obj.__iadd__(T.TimeArray(np.int64(r.randint(1, 10**6)), time_unit='ps')),
                   lambda: obj.__isub__(T.TimeArray(np.int64(r.randint(1, 10**6)), time_unit='ps'))]
            if ext < 2**58:
                ops.append(lambda: obj.__imul__(r.choice([2, 3])))
            if 1 < len(obj) <= 5000 and ext < 2**58:
                ops.append(lambda: obj.__iadd__(T.TimeArray(np.arange(len(obj), dtype=np.int64) * r.randint(1, 9) + 1, time_unit='ps')))
            r.shuffle(ops)
            for op in ops[:r.randint(1, len(ops))]:
                try:
                    op()
                except Exception:   # noqa
                    pass
            for attr in ('t0', 'sampling_interval', 'duration'):
                o = getattr(obj, attr, None)
                if isinstance(o, np.ndarray) and r.random() < 0.5:
                    mutate_object(o, r, undo)
        elif isinstance(obj, T.TimeSeries):
            for attr in ('t0', 'sampling_interval', 'duration'):
                o = getattr(obj, attr, None)
                if isinstance(o, np.ndarray):
                    mutate_object(o, r, undo)
            try:
                mutate_object(obj.time, r, undo)
            except Exception:   # noqa
                pass
        elif isinstance(obj, np.ndarray) and not isinstance(obj, T.TimeInterface) and obj.dtype.kind in 'if' and obj.flags.writeable:
            keep0 = obj.copy()     # a number handed over as a 0-d array: the caller's later write is not the axis' business
            undo.append(lambda: obj.__setitem__(Ellipsis, keep0))
            obj[...] = obj + 3
        elif isinstance(obj, np.ndarray) and isinstance(obj, T.TimeInterface):
            raw = obj.view(np.ndarray)
            keep, unit, cf = raw.copy(), obj.time_unit, getattr(obj, '_conversion_factor', None)

            def restore():
                raw[...] = keep
                obj.time_unit = unit
                if cf is not None:
                    obj._conversion_factor = cf
            undo.append(restore)
            try:
                raw += 1
                obj.convert_unit('ns' if unit != 'ns' else 'us')
            except Exception:   # noqa
                pass


class mem_guard:
    """soft address-space limit around calls into the implementation: a defect that asks for an absurd
    number of samples then raises MemoryError (reported as a failure) instead of getting the harness killed"""
    LIMIT = 6 << 30

    def __enter__(self):
        import resource
        self.res = resource
        self.old = resource.getrlimit(resource.RLIMIT_AS)
        try:
            with open('/proc/self/statm') as f:
                cur = int(f.read().split()[0]) * resource.getpagesize()
            soft = cur + self.LIMIT
            if self.old[1] != resource.RLIM_INFINITY:
                soft = min(soft, self.old[1])
            resource.setrlimit(resource.RLIMIT_AS, (soft, self.old[1]))
        except Exception:   # noqa
            pass
        return self

    def __exit__(self, *a):
        try:
            self.res.setrlimit(self.res.RLIMIT_AS, self.old)
        except Exception:   # noqa
            pass


def construct_seq(build_args, construct, canon, line):
    """the constructor under hidden-state scrutiny.  build_args() -> fresh kwargs; construct(kw) -> object.
    1. arguments are built once, read through their accessors, snapshotted; 2. the object is constructed from them
    twice (reuse); 3. once more from fresh, untouched arguments; 4. the first result is read through ITS accessors and
    canonicalised again.  Everything must agree and the arguments must be unchanged.  Returns the canonical string
    (or an error string), or 'SEQ <symptom> ...' naming the first disagreement."""
    r = _seq_rng(line)
    with np.errstate(all='ignore'), mem_guard():
        kw = build_args(False)
        for v in kw.values():
            exercise(v, r)
        before = {k: snap(v) for k, v in kw.items()}

        def run(k):
            try:
                obj = construct(k)
                return obj, 'ok ' + canon(obj)
            except Exception as e:  # noqa
                from common import err_kind
                return None, 'err ' + err_kind(e)
        o1, c1 = run(kw)
        mid = {k: snap(v) for k, v in kw.items()}
        if mid != before:
            bad = sorted(k for k in kw if mid[k] != before[k])
            return 'SEQ argument-mutated %s: %s -> %s' % (bad[0], before[bad[0]][:80], mid[bad[0]][:80])
        for v in kw.values():
            exercise(v, r)
        o2, c2 = run(kw)
        if c2 != c1:
            return 'SEQ reuse-differs first=%s second=%s' % (c1, c2)
        o3, c3 = run(build_args(True))
        if c3 != c1:
            return 'SEQ fresh-differs used=%s fresh=%s' % (c1, c3)
        if o1 is not None:
            exercise(o1, r)
            try:
                c4 = 'ok ' + canon(o1)
            except Exception as e:  # noqa
                c4 = 'err-on-reread ' + type(e).__name__
            if c4 != c1:
                return 'SEQ result-changes-on-read before=%s after=%s' % (c1, c4)
            # 5. the argument objects stay the caller's: what the caller does to them AFTERWARDS (in-place operators on
            # an axis it passed in, direct writes to a time object) is no business of the object built from them
            undo = []
            for v in kw.values():
                mutate_object(v, r, undo)
            try:
                c5 = 'ok ' + canon(o1)
            except Exception as e:  # noqa
                c5 = 'err-on-reread ' + type(e).__name__
            for u in reversed(undo):
                u()
            if c5 != c1:
                return 'SEQ result-follows-argument built=%s after-the-arguments-were-changed-in-place=%s' % (c1, c5)
            # 6. and the other way round: in-place changes of the result leave the arguments alone
            before = {k: snap(v) for k, v in kw.items()}
            mutate_object(o1, r, [])
            after = {k: snap(v) for k, v in kw.items()}
            if after != before:
                bad = sorted(k for k in kw if after[k] != before[k])
                return 'SEQ argument-follows-result %s: %s -> %s' % (bad[0], before[bad[0]][:80], after[bad[0]][:80])
            # 7. (session 3, L2) an EQUAL specification, built after an object of that specification was changed in place,
            # gives what the first construction gave (no grid / attribute object of the first one is handed out again)
            o7, c7 = run(build_args(True))
            if c7 != c1:
                return 'SEQ fresh-after-inplace-differs first=%s built-after-the-first-was-changed-in-place=%s' % (c1, c7)
        return c1


def intended(model):
    return (model or '').split(' | ')[0]


def current(model):
    p = (model or '').split(' | ')
    return p[1] if len(p) > 1 else ''


def cmp_intended(impl, model):
    return impl == intended(model)


# ------------------------------------------------------------------ generators
def gen_len(rng, tier, cap=None):
    top = 10**6 if tier == 'thorough' else 10**5
    c = rng.random()
    if c < 0.15:
        n = rng.randint(1, 8)
    elif c < 0.85:
        n = int(round(math.exp(rng.uniform(0, math.log(5000)))))
    elif c < 0.97:
        n = int(round(math.exp(rng.uniform(math.log(5000), math.log(top)))))
    else:
        n = rng.choice([100, 5000, 7, 10**5, top])
    if cap is not None:
        n = min(n, cap)
    return max(1, n)


def gen_interval(rng, unit):
    """a bare interval (python int or float) in `unit`, at least 1 ps"""
    f = FACTOR[unit]
    c = rng.random()
    if c < 0.18:
        v = rng.randint(1, 1000) if f < 10**13 else rng.randint(1, 3)
    elif c < 0.3:
        v = rng.randint(1, 20) / rng.choice([3.0, 7.0])
    elif c < 0.55:
        d = rng.randint(1, 6)
        v = round(rng.uniform(0.001, 50), d)
    elif c < 0.7:
        v = rng.choice([2.2, 0.81327, 1 / 3.0, 0.1, 0.3, 1e-3, 0.25, 2.5, 1.1, 0.7])
    elif c < 0.85:
        v = 1.0 / rng.choice([3, 7, 30, 60, 1000, 44100, 256, 500, 1200, 9.7, 0.3])
    else:
        k = rng.randint(1, 10**9)          # whole picoseconds written in the unit
        v = k / float(f)
    if isinstance(v, float) and v * f < 1:
        v = rng.randint(1, 50) / float(f) if f > 1 else 1.0
    if v * f >= LIM / 4:
        v = 0.001 if 0.001 * f >= 1 else 1
    return ('i', v) if isinstance(v, int) else ('f', float(v))


def gen_rate(rng, unit=None):
    """a bare rate in Hz whose period is at least 1 ps and at most ~1 day"""
    c = rng.random()
    if c < 0.25:
        return ('i', rng.choice([1, 2, 3, 7, 10, 100, 1000, 256, 44100, 30, 60, 500, 10**6, 10**9]))
    if c < 0.5:
        return ('f', float(round(rng.uniform(0.01, 5000), rng.randint(1, 5))))
    if c < 0.8:
        x = gen_interval(rng, 's')[1]
        return ('f', 1.0 / x)
    if c < 0.9:
        return ('f', rng.choice([1 / 0.81327, 1 / 2.2, 1 / 3.0, 0.1, 0.7, 29.97, 1e-3, 1e-4]))
    return ('f', math.exp(rng.uniform(math.log(1e-4), math.log(1e11))))


def as_T(rng, unit, v, disp=None):
    """the bare value (read in `unit`) as a 0-d time object of possibly another display unit"""
    x = v[1]
    ps = x * FACTOR[unit] if isinstance(x, int) else int(np.float64(x * FACTOR[unit]).round())
    return ('T', disp or rng.choice(UNITS), int(ps))


def gen_t0(rng, unit, room):
    f = FACTOR[unit]
    c = rng.random()
    if c < 0.35:
        return None
    if c < 0.43:    # session 3 (L3): an EXPLICIT falsy start — 0, 0.0, a zero time object in any unit — is a start, not "no start"
        return rng.choice([('i', 0), ('f', 0.0), ('T', rng.choice(UNITS), 0)])
    top = max(0, int(room // f))
    if c < 0.6:
        return ('i', rng.randint(-min(top, 1000), min(top, 1000)))
    if c < 0.85:
        v = rng.uniform(-1, 1) * min(top, 1000) if top >= 1 else rng.uniform(-1, 1) * room / f
        return ('f', float(round(v, rng.randint(0, 6))) if top >= 1 else float(v))
    return ('T', rng.choice(UNITS), rng.randint(-int(room), int(room)))


def dt_ps_estimate(unit, spec_iv, spec_rate):
    if spec_iv is not None:
        return spec_iv[2] if spec_iv[0] == 'T' else max(1, float(spec_iv[1]) * FACTOR[unit])
    if spec_rate is not None:
        return max(1.0, 1e12 / float(spec_rate[1]))
    return None


def gen_uniform_spec(rng, tier, pattern=None, with_axis=None):
    """one specification; mostly documented patterns, all 16 (+16) over a run"""
    with_axis = (rng.random() < 0.3) if with_axis is None else with_axis
    if pattern is None:
        pool = sorted(DOC_WITH_AXIS if with_axis else DOC)
        pattern = rng.choice(pool) if rng.random() < 0.9 else tuple(rng.randint(0, 1) for _ in range(4))
    has_iv, has_rate, has_len, has_dur = pattern
    unit_arg = rng.choice(UNITS + ['none', 'none', 's', 'ms'])
    if rng.random() < 0.02:
        unit_arg = 'bad'
    ax = None
    if with_axis:
        au = rng.choice(UNITS)
        adt = max(1, int(gen_interval(rng, au)[1] * FACTOR[au])) if rng.random() < 0.7 else rng.randint(1, 10**13)
        an = gen_len(rng, tier, cap=max(1, min(20000, LIM // 8 // adt)))
        room = LIM // 8
        at0 = rng.choice([0, rng.randint(-room, room), rng.randint(-1000, 1000) * FACTOR[au] if FACTOR[au] * 1000 < room else 0])
        ax = (au, int(at0), int(adt), int(an))
    unit = unit_arg if unit_arg in UNITS else (ax[0] if (ax and unit_arg == 'none') else 's')
    # unit inference: with time_unit=None and no axis the unit comes from a duration time object,
    # else from an interval time object; the values are generated relative to that unit
    infer = unit_arg == 'none' and ax is None
    force_T = None
    if infer and (has_dur or has_iv) and rng.random() < 0.4:
        unit = rng.choice(UNITS)
        force_T = 'duration' if has_dur else 'interval'
    f = FACTOR[unit]
    iv = rate = length = dur = None
    if has_iv:
        iv = gen_interval(rng, unit)
        if force_T == 'interval' or rng.random() < 0.2:
            # display unit free only when it cannot change the inferred unit
            iv = as_T(rng, unit, iv, disp=None if (not infer or force_T == 'duration') else unit)
            if iv[2] < 1:
                iv = ('T', iv[1], 1)
    if has_rate:
        rate = gen_rate(rng)
        if rng.random() < 0.25:
            rate = ('F', float(rate[1]))
    dt = dt_ps_estimate(unit, iv, rate)
    if dt is None and ax is not None and not (has_len and has_dur):
        dt = ax[2]
    if has_len:
        cap = None if dt is None else max(1, int(LIM // 4 // max(1, int(dt))))
        length = gen_len(rng, tier, cap=cap)
    if has_dur:
        if dt is None:       # length + duration
            per = gen_interval(rng, unit)[1]
            total = per * (length or 1)
            if total * f >= LIM / 4:
                total = 1
            dv = total if rng.random() < 0.5 else float(round(total, rng.randint(0, 4)) or total)
            if isinstance(dv, float) and dv.is_integer() and rng.random() < 0.5:
                dv = int(dv)
            if dv * f < (length or 1):     # keep the interval at >= 1 ps
                dv = int((length or 1) // f + 1)
            dur = ('i', dv) if isinstance(dv, int) else ('f', dv)
        else:
            nn = gen_len(rng, tier, cap=max(1, int(LIM // 4 // max(1, int(dt)))))
            dps = dt * (nn - rng.choice([0, 0, 0.5, 0.999, 0.001, rng.random()]))
            dps = max(dps, dt * 0.5)
            dv = dps / f
            k = rng.random()
            if k < 0.3 and dv >= 1:
                dur = ('i', int(round(dv)))
            elif k < 0.6:
                dur = ('f', float(round(dv, rng.randint(0, 6)) or dv))
            else:
                dur = ('f', float(dv))
        if force_T == 'duration' or rng.random() < 0.2:
            dur = as_T(rng, unit, dur, disp=unit if infer else None)
            if dur[2] < 1:
                dur = ('T', dur[1], 1)
    ext = 0
    if dt is not None:
        ext = dt * (length or (ax[3] if ax else 1))
    t0 = gen_t0(rng, unit, max(1000, min(LIM // 8, LIM // 4 - int(ext)) if ext < LIM // 4 else 1000))
    return {'axis': ax, 'length': length, 'duration': dur, 'rate': rate, 'interval': iv, 't0': t0, 'unit': unit_arg}


def spec_line(sp, axis_tok):
    return 'C02 uniform %s %s %s %s %s %s %s' % (
        axis_tok, '-' if sp['length'] is None else sp['length'], tok(sp['duration']), tok(sp['rate']),
        tok(sp['interval']), tok(sp['t0']), sp['unit'])


def pattern_of(sp):
    return tuple(int(sp[k] is not None) for k in ('interval', 'rate', 'length', 'duration'))


def clause_of(sp):
    p = pattern_of(sp)
    doc = DOC_WITH_AXIS if sp['axis'] else DOC
    if p not in doc:
        return 'uniform/invalid' if not sp['axis'] else 'uniform/from/invalid'
    return ('uniform/from/' if sp['axis'] else 'uniform/') + SHAPE[p]


def predicted_sizes_ok(sp):
    """refuse specifications on which either the intended or today's behaviour would allocate
    more than ~2.5e6 samples (keeps the run bounded; counted, never judged)"""
    LIMN = 2.5e6
    unit = sp['unit'] if sp['unit'] in UNITS else (sp['axis'][0] if (sp['axis'] and sp['unit'] == 'none') else None)
    if unit is None:
        for k in ('duration', 'interval'):
            if sp[k] is not None and sp[k][0] == 'T':
                unit = sp[k][1]
                break
        unit = unit or 's'
    f = FACTOR[unit]
    ax = sp['axis']

    def ps_of(v):
        return v[2] if v[0] == 'T' else float(v[1]) * f
    dts = []
    if sp['interval'] is not None:
        dts.append(ps_of(sp['interval']))
    elif sp['rate'] is not None:
        dts.append(1e12 / float(sp['rate'][1]))
        if ax and pattern_of(sp) == (0, 1, 0, 0):
            # today: 1.0/rate read in the axis unit, or the integer period read in the axis unit
            dts.append((1.0 / float(sp['rate'][1])) * f)
    elif ax:
        dts.append(ax[2])
    durs = []
    if sp['duration'] is not None:
        durs.append(ps_of(sp['duration']))
        if sp['duration'][0] == 'T' and sp['length'] is not None and not dts:
            return True
    elif ax and sp['length'] is None:
        durs.append(ax[2] * ax[3])
    if sp['length'] is not None and sp['length'] > LIMN:
        return False
    for dt in dts:
        if dt < 0.5:
            return False
        for d in durs:
            if d / dt > LIMN:
                return False
    return True


def shared_real(v, shared, fresh):
    """the python object for a tagged value; inside a group of constructions that SHARE their argument
    objects the same object is handed out every time (unless a fresh one is asked for)"""
    if fresh or shared is None or v is None or v[0] not in ('T', 'F'):
        return real(v)
    if v not in shared:
        shared[v] = real(v)
    return shared[v]


def make_uniform_case(sp, shared=None):
    T = ts()
    axis = call(lambda: real_axis(sp['axis']))
    if isinstance(axis, str):
        return None
    axis_tok = '-' if axis is None else tok_axis_obj(axis)
    def build_args(fresh):
        kw = {}
        if axis is not None:
            kw['data'] = real_axis(sp['axis'])
        if sp['length'] is not None:
            kw['length'] = dress_num(sp['length']) if isinstance(sp['length'], int) and 0 < sp['length'] < 2**31 else sp['length']
        for k, name in (('duration', 'duration'), ('rate', 'sampling_rate'), ('interval', 'sampling_interval'), ('t0', 't0')):
            if sp[k] is not None:
                kw[name] = shared_real(sp[k], shared, fresh)
        if sp['unit'] != 'none':
            kw['time_unit'] = 'fortnight' if sp['unit'] == 'bad' else sp['unit']
        return kw
    impl = construct_seq(build_args, lambda kw: T.UniformTime(**kw), canon_axis, 'U ' + spec_line(sp, axis_tok))
    meta = {'kind': 'uniform', 'spec': sp}
    if axis is not None:
        meta['axis_obs'] = {k: v for k, v in axis_obs(axis).items() if k not in ('affine', 'S')}
    nontriv = impl.startswith('ok') and (parse_axis(impl[3:]) or {}).get('n', 0) >= 2
    return Case(spec_line(sp, axis_tok), impl, clause_of(sp), cmp=cmp_intended, meta=meta, nontrivial=nontriv)


def gen_series_spec(rng, tier):
    pattern = rng.choice(sorted(DOC_SERIES)) if rng.random() < 0.92 else tuple(rng.randint(0, 1) for _ in range(3))
    has_iv, has_rate, has_dur = pattern
    unit_arg = rng.choice(UNITS + ['default', 'default', 's', 'ms', 'none', 'none', 'none'])
    unit = unit_arg if unit_arg in UNITS else 's'
    # an EXPLICIT time_unit=None (the default is 's'): the unit comes from a duration given as a time object, else from
    # an interval given as a time object, else seconds; bare numbers are generated relative to that unit
    infer = unit_arg == 'none'
    force_T = None
    if infer and (has_dur or has_iv) and rng.random() < 0.75:
        unit = rng.choice(UNITS)
        force_T = 'duration' if has_dur and (not has_iv or rng.random() < 0.6) else 'interval'
    f = FACTOR[unit]
    iv = rate = dur = None
    if has_iv:
        iv = gen_interval(rng, unit)
        if force_T == 'interval' or rng.random() < (0.5 if force_T == 'duration' else 0.2):
            # (display unit free only when it cannot change the inferred unit: with a duration object the duration wins)
            iv = as_T(rng, unit, iv, disp=None if (not infer or force_T == 'duration') else unit)
            if iv[2] < 1:
                iv = ('T', iv[1], 1)
    if has_rate:
        rate = gen_rate(rng)
        if rng.random() < 0.25:
            rate = ('F', float(rate[1]))
    dt = dt_ps_estimate(unit, iv, rate)
    n = gen_len(rng, tier, cap=None if dt is None else max(1, int(LIM // 4 // max(1, int(dt)))))
    if has_dur:
        if dt is None:
            per = gen_interval(rng, unit)[1]
            total = per * n
            if total * f >= LIM / 4:
                total = 1
            if total * f < n:
                total = int(n // f + 1)
            dur = ('i', total) if isinstance(total, int) else ('f', float(total))
        else:
            dv = dt * n / f
            dur = ('f', float(dv)) if rng.random() < 0.7 or dv < 1 else ('i', int(round(dv)))
        if force_T == 'duration' or rng.random() < 0.2:
            dur = as_T(rng, unit, dur, disp=unit if infer else None)
            if dur[2] < 1:
                dur = ('T', dur[1], 1)
    ext = (dt or 1) * n
    t0 = gen_t0(rng, unit, max(1000, min(LIM // 8, LIM // 4 - int(ext)) if ext < LIM // 4 else 1000))
    return {'n': n, 'ndim': rng.choice([1, 1, 2, 3]), 't0': t0, 'interval': iv, 'rate': rate, 'duration': dur, 'unit': unit_arg}


def series_data(n, ndim):
    return np.zeros({1: (n,), 2: (2, n), 3: (2, 1, n)}[ndim], dtype=np.int8)


def canon_series(s):
    # (with time_unit=None and no time object among the arguments the label stays None: `time_unit_conversion[None]`
    # is documented as "the default is seconds", every value is read and stored in seconds)
    u = 's' if s.time_unit is None else s.time_unit
    return 'S:%s:%d:%d:%s:%s' % (u, int(s.t0), int(s.sampling_interval), f2x(float(s.sampling_rate))[1:], canon_axis(s.time))


def parse_series(s):
    p = s.split(':', 5)
    if len(p) < 6 or p[0] != 'S':
        return None
    return {'unit': p[1], 't0': int(p[2]), 'dt': int(p[3]), 'rate': x2f('x' + p[4]), 'time': parse_axis(p[5])}


def make_series_case(sp, shared=None):
    T = ts()
    def build_args(fresh):
        kw = {}
        for k, name in (('t0', 't0'), ('interval', 'sampling_interval'), ('rate', 'sampling_rate'), ('duration', 'duration')):
            if sp[k] is not None:
                kw[name] = shared_real(sp[k], shared, fresh)
        if sp['unit'] != 'default':
            kw['time_unit'] = 'fortnight' if sp['unit'] == 'bad' else (None if sp['unit'] == 'none' else sp['unit'])
        return kw
    impl = construct_seq(build_args, lambda kw: T.TimeSeries(series_data(sp['n'], sp['ndim']), **kw), canon_series,
                         'S %r' % sorted((k, str(v)) for k, v in sp.items()))
    line = 'C02 series %d %s %s %s %s %s' % (sp['n'], tok(sp['t0']), tok(sp['interval']), tok(sp['rate']), tok(sp['duration']),
                                            {'default': 's'}.get(sp['unit'], sp['unit']))
    p = tuple(int(sp[k] is not None) for k in ('interval', 'rate', 'duration'))
    clause = 'series/' + ({(1, 0, 0): 'iv', (1, 0, 1): 'iv+dur', (0, 1, 0): 'rate', (0, 1, 1): 'rate+dur', (0, 0, 1): 'dur'}.get(p, 'invalid'))
    return Case(line, impl, clause, cmp=cmp_intended, meta={'kind': 'series', 'spec': sp},
                nontrivial=impl.startswith('ok') and sp['n'] >= 2)


def make_series_from_time_case(sp):
    """sp: axis (unit,t0,dt,n), m (data length), t0, unit ('default' | 'none' | unit)"""
    T = ts()
    axis = call(lambda: real_axis(sp['axis']))
    if isinstance(axis, str):
        return None
    def build_args(fresh):
        kw = {'time': real_axis(sp['axis'])}
        if sp['t0'] is not None:
            kw['t0'] = real(sp['t0'])
        if sp['unit'] != 'default':
            kw['time_unit'] = None if sp['unit'] == 'none' else sp['unit']
        return kw
    nd = sp.get('ndim', 1)
    impl = construct_seq(build_args, lambda kw: T.TimeSeries(series_data(sp['m'], nd), **kw), canon_series,
                         'ST %r' % sorted((k, str(v)) for k, v in sp.items()))
    line = 'C02 series_from_time %s %d %s %s' % (tok_axis_obj(axis), sp['m'], tok(sp['t0']),
                                                {'default': 's'}.get(sp['unit'], sp['unit']))
    meta = {'kind': 'series_from_time', 'spec': sp,
            'axis_obs': {k: v for k, v in axis_obs(axis).items() if k not in ('affine', 'S')}}
    # round 4: the series' OWN duration attribute (not part of canon_series) — judged for the plain `time=` call only
    meta['series_dur'] = call(lambda: int(T.TimeSeries(series_data(sp['m'], nd), **build_args(True)).duration))
    return Case(line, impl, 'series/from-time' + ('/large' if sp.get('large') else '') + ('' if sp['m'] == sp['axis'][3] else '/length-mismatch'),
                cmp=cmp_intended, meta=meta, nontrivial=impl.startswith('ok'))


def make_series_from_time_ov_case(sp):
    """round 2 (wave 6, seed C02-13): `TimeSeries(data, time=axis, sampling_interval=… | sampling_rate=… [, t0][, time_unit])` — an axis
    handed over together with an OVERRIDING interval or rate.  The expectation is the one for the equivalent specification without `time=`
    (start = the given one or the axis' own, as a time object; unit = the given one or the axis' own): the model line is the ordinary
    `series` line of that specification, and every reported attribute (t0, interval, rate, the lazily built axis) is judged like there.
    sp: axis (unit,t0,dt,n), interval | rate (tagged values), t0, unit ('none' | unit)"""
    T = ts()
    axis = call(lambda: real_axis(sp['axis']))
    if isinstance(axis, str):
        return None
    au, at0, adt, an = sp['axis']
    unit = {'none': au, 'default': 's'}.get(sp['unit'], sp['unit'])      # explicit None: the axis' unit; not given: the constructor's default, seconds
    dl = sp.get('m', an)          # round 4: data of ANOTHER length than the axis, with an explicit rate that reconciles them exactly — or not
    eq = {'n': dl, 'ndim': 1, 't0': sp['t0'] if sp['t0'] is not None else ('T', au, int(at0)), 'interval': sp['interval'], 'rate': sp['rate'],
          'duration': None, 'unit': unit}

    def build_args(fresh):
        kw = {'time': real_axis(sp['axis'])}
        for k, name in (('t0', 't0'), ('interval', 'sampling_interval'), ('rate', 'sampling_rate')):
            if sp[k] is not None:
                kw[name] = real(sp[k])
        if sp['unit'] != 'default':
            kw['time_unit'] = None if sp['unit'] == 'none' else sp['unit']
        return kw
    impl = construct_seq(build_args, lambda kw: T.TimeSeries(series_data(dl, 1), **kw), canon_series,
                         'STO %r' % sorted((k, str(v)) for k, v in sp.items()))
    if dl != an:
        # model: `mkSeriesFromTimeRate` (the length check on the explicit rate, then the equivalent specification)
        line = 'C02 series_from_time_rate %s %d %s %s %s' % (tok_axis_obj(axis), dl, tok(sp['t0']), tok(sp['rate']),
                                                            {'default': 's'}.get(sp['unit'], sp['unit']))
        return Case(line, impl, 'series/from-time/explicit-rate', cmp=cmp_intended,
                    meta={'kind': 'series_from_time_ov', 'spec': sp, 'equiv': eq}, nontrivial=True)
    line = 'C02 series %d %s %s %s %s %s' % (an, tok(eq['t0']), tok(eq['interval']), tok(eq['rate']), tok(None), unit)
    return Case(line, impl, 'series/from-time/override-' + ('interval' if sp['interval'] is not None else 'rate'), cmp=cmp_intended,
                meta={'kind': 'series_from_time_ov', 'spec': sp, 'equiv': eq}, nontrivial=impl.startswith('ok') and an >= 2)


# ------------------------------------------------------------------ two live objects: built FROM one another, changed in place
# A program on a store of real objects (ids = positions, like the Lean `Heap`): constructions that take an existing
# object (UniformTime(axis[, unit][, length]), axis.copy(), TimeSeries(data, time=axis), series.time, series.copy())
# interleaved with every in-place operator UniformTime has (+= -= with scalars and ramps, *=, /=, __setitem__) applied
# to ANY of the objects; after every command every object is observed again.
HEAP_UNITS = ['ps', 'ns', 'us', 'ms', 's', 's', 's', 'm', 'h', 'D', 'W']
HLIM = 2**57


def sh_apply(e, op):
    """documented effect of an in-place operator on (unit, t0, dt, n) -> new dict or 'err'
    (plain python integers; written against the docstrings / the property, not the code)"""
    f = FACTOR[e['unit']]
    k = op[0]

    def ps(kind, v):
        return v * f if kind == 'i' else v
    if k in ('as', 'ss'):
        sg = 1 if k == 'as' else -1
        return dict(e, t0=e['t0'] + sg * ps(op[1], op[2]))
    if k in ('ar', 'sr'):
        sg = 1 if k == 'ar' else -1
        v0, d, cnt = ps(op[1], op[2]), ps(op[1], op[3]), op[4]
        if cnt == 0:
            return 'err'
        if cnt == 1:
            return dict(e, t0=e['t0'] + sg * v0)
        if cnt != e['n'] or (d != 0 and e['dt'] + sg * d == 0):
            return 'err'
        return dict(e, t0=e['t0'] + sg * v0, dt=e['dt'] + sg * d)
    if k == 'mu':
        return 'err' if op[1] == 0 else dict(e, t0=e['t0'] * op[1], dt=e['dt'] * op[1])
    if k == 'dv':
        if op[1] == 0 or e['t0'] % op[1] or e['dt'] % op[1]:
            return 'err'
        return dict(e, t0=e['t0'] // op[1], dt=e['dt'] // op[1])
    return 'err'        # st: setting single samples is refused


class Shadow:
    """what the property demands of every object after every command: a constructor gives a NEW object with the
    sampling of its source (as overridden), an in-place operator changes the object it is applied to and no other"""

    def __init__(self, ax):
        self.axes = [dict(unit=ax[0], t0=ax[1], dt=ax[2], n=ax[3])]
        self.origin = [('init', None)]
        self.series = []          # dict(unit,t0,dt,n,time,src)

    def _read_time(self, sid, kind):
        s = self.series[sid]
        if s['time'] is None:
            self.axes.append(dict(unit=s['unit'], t0=s['t0'], dt=s['dt'], n=s['n']))
            self.origin.append((kind, s['src']))
            s['time'] = len(self.axes) - 1
        return s['time']

    def step(self, c):
        """-> (expected status 'ok <res>' | 'err' | None when not judged, target axis id or None)"""
        k = c[0]
        if k == 'R':
            e = dict(self.axes[c[1]])
            if c[2] != 'none':
                e['unit'] = c[2]
            if c[3] is not None:
                e['n'] = c[3]
            self.axes.append(e)
            self.origin.append(('rebuilt', c[1]))
            return 'ok a%d' % (len(self.axes) - 1), None
        if k == 'C':
            self.axes.append(dict(self.axes[c[1]]))
            self.origin.append(('copy', c[1]))
            return 'ok a%d' % (len(self.axes) - 1), None
        if k == 'S':
            e = self.axes[c[1]]
            if c[2] != e['n']:
                return 'err', None
            self.series.append(dict(unit=e['unit'] if c[3] == 'none' else c[3], t0=e['t0'], dt=e['dt'], n=c[2], time=None, src=c[1]))
            return 'ok s%d' % (len(self.series) - 1), None
        if k == 'T':
            return 'ok a%d' % self._read_time(c[1], 'series-time'), None
        if k == 'SC':
            p = self._read_time(c[1], 'series-time')
            s = self.series[c[1]]
            # the copy is made from (a copy of) the series' time axis as it is NOW
            self.series.append(dict(unit=s['unit'], t0=self.axes[p]['t0'], dt=self.axes[p]['dt'], n=s['n'], time=None, src=p))
            return 'ok s%d' % (len(self.series) - 1), None
        if k == 'I':
            r = sh_apply(self.axes[c[1]], c[2])
            if r == 'err':
                return 'err', c[1]
            self.axes[c[1]] = r
            return 'ok -', c[1]
        raise ValueError(c)

    def relation(self, j, t):
        """how object j is related to the object t an operator was applied to"""
        if self.origin[j][1] == t:
            return self.origin[j][0] + '/changed-by-operator-on-its-source'
        if self.origin[t][1] == j:
            return self.origin[t][0] + '/source-changed-by-operator-on-product'
        if self.origin[j][1] is not None and self.origin[j][1] == self.origin[t][1]:
            return self.origin[j][0] + '/changed-by-operator-on-sibling'
        return self.origin[j][0] + '/changed-by-operator-on-other-object'


def cmd_tok(c):
    k = c[0]
    if k == 'R':
        return 'R:%d:%s:%s' % (c[1], c[2], '-' if c[3] is None else c[3])
    if k == 'C':
        return 'C:%d' % c[1]
    if k == 'S':
        return 'S:%d:%d:%s' % (c[1], c[2], c[3])
    if k in ('T', 'SC'):
        return '%s:%d' % (k, c[1])
    return 'I:%d:%s' % (c[1], ':'.join(str(x) for x in c[2]))


def gen_inplace(rng, e):
    """an in-place operator for an axis with the (shadow) state e; mostly accepted ones, magnitudes bounded"""
    f = FACTOR[e['unit']]
    room = HLIM - (abs(e['t0']) + e['n'] * abs(e['dt']))
    c = rng.random()
    if c < 0.3:
        kind = rng.choice('it')
        top = max(0, min(1000, room // 4 // f)) if kind == 'i' else max(0, min(2**45, room // 4))
        return (rng.choice(['as', 'ss']), kind, rng.randint(-top, top))
    if c < 0.6:
        name = rng.choice(['ar', 'sr'])
        sg = 1 if name == 'ar' else -1
        kind = rng.choice('it')
        g = f if kind == 'i' else 1
        cnt = e['n'] if rng.random() < 0.85 else rng.choice([0, 1, e['n'] + 1, max(1, e['n'] - 1)])
        top = max(0, min(1000, room // 8 // g))
        v0 = rng.randint(-top, top)
        # the step keeps the interval positive (or, rarely, cancels it exactly: refused)
        dmax = max(0, min(room // 8 // max(1, e['n']) // g, 10**6))
        lo, hi = (-((e['dt'] - 1) // g), dmax) if sg == 1 else (-dmax, (e['dt'] - 1) // g)
        d = rng.randint(min(lo, hi), max(lo, hi)) if rng.random() < 0.9 else 0
        if rng.random() < 0.05 and e['dt'] % g == 0:
            d = -sg * (e['dt'] // g)
        return (name, kind, v0, d, cnt)
    if c < 0.78:
        k = rng.choice([1, 2, 2, 3, 5, 10, 0])
        if (abs(e['t0']) + e['n'] * abs(e['dt'])) * max(1, k) >= HLIM:
            k = 1
        return ('mu', k)
    if c < 0.95:
        g = math.gcd(abs(e['t0']), e['dt'])
        ds = [d for d in (2, 3, 4, 5, 7, 8, 10, 100, 1000) if g % d == 0]
        return ('dv', rng.choice(ds) if ds and rng.random() < 0.8 else rng.choice([1, 2, 3, 7, 0]))
    return ('st',)


def gen_heap_spec(rng, tier):
    u = rng.choice(HEAP_UNITS)
    f = FACTOR[u]
    c = rng.random()
    if c < 0.5:
        dt = max(1, int(gen_interval(rng, u)[1] * f))
    elif c < 0.8:
        dt = rng.choice([1, 2, 5, 10, 60, 250, 1000]) * rng.choice([f, max(1, f // 1000), 10**9, 10**12])
    else:
        dt = rng.randint(1, 10**13)
    dt = min(dt, 2**46)
    n = rng.choice([1, 2, 3, 4, 5, 8, rng.randint(2, 60), rng.randint(2, 60), rng.randint(60, 400),
                    5000 if tier == 'thorough' or rng.random() < 0.3 else 77])
    n = max(1, min(n, 2**50 // dt))
    t0 = rng.choice([0, rng.randint(-1000, 1000) * min(f, 10**12), rng.randint(-2**44, 2**44), 6 * dt, -3 * dt])
    sh = Shadow((u, t0, dt, n))
    prog = []

    def construct():
        k = rng.random()
        na, ns = len(sh.axes), len(sh.series)
        if k < 0.3 or (k >= 0.6 and ns == 0):
            src = rng.randrange(na)
            e = sh.axes[src]
            m = e['n'] if rng.random() < 0.93 else e['n'] + rng.choice([1, 2])
            unit = e['unit'] if rng.random() < 0.55 else rng.choice(['none', 'none', 's', rng.choice(UNITS)])
            return ('S', src, m, unit)
        if k < 0.5:
            src = rng.randrange(na)
            w = rng.random()
            return ('R', src, 'none' if w < 0.6 or w >= 0.8 else rng.choice(UNITS),
                    None if w < 0.8 else rng.randint(1, 2 * sh.axes[src]['n']))
        if k < 0.6:
            return ('C', rng.randrange(na))
        if k < 0.9:
            return ('T', rng.randrange(ns))
        return ('SC', rng.randrange(ns))

    def push(c):
        prog.append(c)
        sh.step(c)
    # a series on the first axis (or an axis rebuilt from it) comes early in most programs
    for _ in range(rng.randint(1, 3)):
        push(construct())
    for _ in range(rng.randint(4, 11) if tier == 'quick' else rng.randint(4, 16)):
        if len(sh.axes) + len(sh.series) < 9 and rng.random() < 0.4:
            push(construct())
        else:
            t = rng.randrange(len(sh.axes))
            push(('I', t, gen_inplace(rng, sh.axes[t])))
    # every series' axis is read in the end, after whatever happened to the axes they were built from
    for sid in range(len(sh.series)):
        if sh.series[sid]['time'] is None and rng.random() < 0.8:
            push(('T', sid))
    if len(sh.axes) > 1 and rng.random() < 0.7:
        t = rng.randrange(len(sh.axes))
        push(('I', t, gen_inplace(rng, sh.axes[t])))
    return {'axis': (u, int(t0), int(dt), int(n)), 'prog': prog}


def canon_sobj(s, tid):
    return 'S:%s:%d:%d:%s:%d:%s' % (s.time_unit, int(s.t0), int(s.sampling_interval), f2x(float(s.sampling_rate))[1:],
                                    s.data.shape[-1], '-' if tid is None else tid)


def _operand(op, r, T):
    """the python object for the operand of an in-place operator (type drawn from r)"""
    k = op[0]
    if k in ('as', 'ss'):
        if op[1] == 'i':
            v = op[2]
            return r.choice([v, np.int64(v), np.array(v, dtype=np.int64)] + ([np.int32(v)] if abs(v) < 2**31 else []))
        t = T.TimeArray(np.int64(op[2]), time_unit='ps')
        t.convert_unit(r.choice(UNITS))
        return t
    if k in ('ar', 'sr'):
        vals = op[2] + op[3] * np.arange(op[4], dtype=np.int64)
        if op[1] == 'i' or op[4] == 0:
            return r.choice([vals, list(int(x) for x in vals)]) if op[4] <= 200 else vals
        t = T.TimeArray(vals, time_unit='ps')
        t.convert_unit(r.choice(UNITS))
        return t
    return op[1] if len(op) > 1 else None


def _poke(axes, series, stime, origin):
    """the objects' mutable parts written DIRECTLY (sample buffer through a plain ndarray view, the 0-d attribute
    objects t0 / sampling_interval / duration in place, their unit label): no other object may notice.
    Returns [(symptom, text)]."""
    def obs_axis(a):
        arr = np.asarray(a).view(np.ndarray)
        return (arr[:64].tobytes(), arr[-1:].tobytes(), a.time_unit, int(a.t0), a.t0.time_unit, int(a.sampling_interval),
                a.sampling_interval.time_unit, int(a.duration), a.duration.time_unit, float(a.sampling_rate))

    def obs_series(s):
        return (s.time_unit, int(s.t0), s.t0.time_unit, int(s.sampling_interval), s.sampling_interval.time_unit,
                int(s.duration), s.duration.time_unit, float(s.sampling_rate))
    names = ['samples', 'samples', 'unit', 't0', 't0-unit', 'interval', 'interval-unit', 'duration', 'duration-unit', 'rate']
    snames = ['unit', 't0', 't0-unit', 'interval', 'interval-unit', 'duration', 'duration-unit', 'rate']
    bad = []

    def everything(skip_axis=None, skip_series=None):
        return ([None if i == skip_axis else obs_axis(a) for i, a in enumerate(axes)],
                [None if i == skip_series else obs_series(s) for i, s in enumerate(series)])

    def compare(b, a, who):
        for j, (x, y) in enumerate(zip(b[0], a[0])):
            if x != y:
                w = [names[q] for q in range(len(x)) if x[q] != y[q]][0]
                bad.append(('%s/%s-shared' % (origin[j][0], w), 'axis #%d (%s) changed its %s when %s was written to directly' % (j, origin[j][0], w, who)))
        for j, (x, y) in enumerate(zip(b[1], a[1])):
            if x != y:
                w = [snames[q] for q in range(len(x)) if x[q] != y[q]][0]
                bad.append(('series-attrs/%s-shared' % w, 'series #%d changed its %s when %s was written to directly' % (j, w, who)))
    for i, a in enumerate(axes):
        b = everything(skip_axis=i)
        try:
            raw = np.asarray(a).view(np.ndarray)
            raw += 1
            for attr in ('t0', 'sampling_interval', 'duration'):
                o = getattr(a, attr)
                if isinstance(o, np.ndarray):
                    v = o.view(np.ndarray)
                    v += 1
                    if hasattr(o, 'convert_unit'):
                        o.convert_unit('ns' if o.time_unit != 'ns' else 'us')
        except Exception:   # noqa  (read-only buffers etc.: nothing was written)
            pass
        compare(b, everything(skip_axis=i), 'axis #%d (%s)' % (i, origin[i][0]))
    for i, s in enumerate(series):
        b = everything(skip_series=i)
        try:
            for attr in ('t0', 'sampling_interval', 'duration'):
                o = getattr(s, attr)
                if isinstance(o, np.ndarray):
                    v = o.view(np.ndarray)
                    v += 1
                    if hasattr(o, 'convert_unit'):
                        o.convert_unit('ns' if o.time_unit != 'ns' else 'us')
        except Exception:   # noqa
            pass
        compare(b, everything(skip_series=i), 'the attributes of series #%d' % i)
    return bad


def run_heap(sp, line):
    """the program on real objects -> (trace string in the model's syntax, poke findings)"""
    import operator
    T = ts()
    r = _seq_rng(line)
    from common import err_kind
    with np.errstate(all='ignore'), mem_guard():
        axes, series, stime = [real_axis(sp['axis'])], [], {}
        sh = Shadow(sp['axis'])      # only for the origin labels of the poke phase

        def dump():
            return '|'.join(canon_axis(a) for a in axes) + '#' + '|'.join(canon_sobj(s, stime.get(i)) for i, s in enumerate(series))

        def read_time(sid):
            if sid not in stime:
                axes.append(series[sid].time)
                stime[sid] = len(axes) - 1
            return stime[sid]

        def do(c):
            k = c[0]
            if k == 'R':
                kw = {}
                if c[2] != 'none':
                    kw['time_unit'] = c[2]
                if c[3] is not None:
                    kw['length'] = c[3]
                a = T.UniformTime(axes[c[1]], **kw)
                axes.append(a)
                return 'a%d' % (len(axes) - 1)
            if k == 'C':
                a = axes[c[1]].copy()
                axes.append(a)
                return 'a%d' % (len(axes) - 1)
            if k == 'S':
                s = T.TimeSeries(np.zeros(c[2], dtype=np.int8), time=axes[c[1]], time_unit=None if c[3] == 'none' else c[3])
                series.append(s)
                return 's%d' % (len(series) - 1)
            if k == 'T':
                return 'a%d' % read_time(c[1])
            if k == 'SC':
                s = series[c[1]].copy()
                read_time(c[1])
                series.append(s)
                return 's%d' % (len(series) - 1)
            op = c[2]
            a = axes[c[1]]
            x = _operand(op, r, T)
            if op[0] in ('as', 'ar'):
                axes[c[1]] = operator.iadd(a, x)
            elif op[0] in ('ss', 'sr'):
                axes[c[1]] = operator.isub(a, x)
            elif op[0] == 'mu':
                axes[c[1]] = operator.imul(a, x)
            elif op[0] == 'dv':
                axes[c[1]] = operator.itruediv(a, x)
            else:
                a[r.randrange(len(a))] = 5
            return '-'
        out = [dump()]
        for c in sp['prog']:
            if r.random() < 0.25:
                pool = axes + series
                exercise_keep_lazy(pool[r.randrange(len(pool))], r)
            try:
                st = 'ok ' + do(c)
            except Exception as e:  # noqa
                st = 'err ' + err_kind(e)
            sh.step(c)
            out.append(st + ' ' + dump())
        while len(sh.origin) < len(axes):
            sh.origin.append(('unexpected-object', None))
        # below object granularity (session 3): which axis objects view one sample buffer, and whether every buffer holds
        # the grid its axis' attributes describe — compared with the buffer layer of the Lean store (`runHP`, op heapparts)
        reps = []
        for j, a in enumerate(axes):
            reps.append(next((i for i in range(j) if np.shares_memory(np.asarray(axes[i]), np.asarray(a))), j))
        run_heap.parts = 'ok B:%s W:%s' % (','.join(str(i) for i in reps), ','.join('1' if axis_obs(a)['affine'] else '0' for a in axes))
        try:
            poke = _poke(axes, series, stime, sh.origin)
        except Exception as e:  # noqa
            poke = [('poke-raised', 'direct writes raised %s' % type(e).__name__)]
    return 'ok ' + ' ; '.join(out), poke


def exercise_keep_lazy(obj, r):
    """like `exercise`, but a series' unread `.time` stays unread (the program decides when it is first read)"""
    T = ts()
    if isinstance(obj, T.TimeSeries) and 'time' not in obj.__dict__:
        with np.errstate(all='ignore'):
            for op in (lambda: float(obj.duration), lambda: repr(obj.t0), lambda: len(obj), lambda: obj.sampling_rate.to_period('ms'),
                       lambda: float(obj.sampling_interval)):
                try:
                    op()
                except Exception:   # noqa
                    pass
        return
    exercise(obj, r)


def make_heap_case(sp, parts=False):
    ax = call(lambda: real_axis(sp['axis']))
    if isinstance(ax, str):
        return None
    line = 'C02 heap %s %s' % (tok_axis_obj(ax), ';'.join(cmd_tok(c) for c in sp['prog']) or '-')
    run_heap.parts = 'err not-run'
    try:
        impl, poke = run_heap(sp, line)
    except Exception as e:  # noqa
        from common import err_kind
        impl, poke = 'err ' + err_kind(e), []
    c = Case(line, impl, 'alias/program', meta={'kind': 'heap', 'spec': sp, 'poke': poke})
    extra = Case(line.replace('C02 heap ', 'C02 heapparts ', 1), run_heap.parts, 'alias/buffers', meta={'kind': 'heapparts', 'spec': sp})
    return [c, extra] if parts else c


def judge_heap(c):
    """-> (symptom key, text) or None.  Independent of the model: the Shadow above."""
    sp = c.meta['spec']
    if not c.impl.startswith('ok '):
        return 'program-raised', 'the object program could not be run: %s' % c.impl
    steps = c.impl[3:].split(' ; ')
    sh = Shadow(sp['axis'])

    def parse_dump(d):
        a, s = d.split('#')
        axes = [parse_axis(x) for x in a.split('|')] if a else []
        ser = []
        for x in (s.split('|') if s else []):
            q = x.split(':')
            ser.append({'unit': q[1], 't0': int(q[2]), 'dt': int(q[3]), 'rate': x2f('x' + q[4]), 'n': int(q[5]), 'time': q[6]})
        return axes, ser

    def axis_bad(o, e):
        for k in ('unit', 't0', 'dt', 'n'):
            if o[k] != e[k]:
                return k, '%s is %s, must be %s' % (k, o[k], e[k])
        if o['dur'] != e['n'] * e['dt']:
            return 'duration', 'duration %d ps, the %d intervals of %d ps cover %d ps' % (o['dur'], e['n'], e['dt'], e['n'] * e['dt'])
        if not o['affine']:
            return 'samples', 'the samples are not t0 + i*interval of its own attributes'
        first, second, last = [int(x) for x in o['S'].split(',')]
        if (first, second, last) != (e['t0'], e['t0'] + min(1, e['n'] - 1) * e['dt'], e['t0'] + (e['n'] - 1) * e['dt']):
            return 'samples', 'first/second/last sample %s' % o['S']
        if e['dt'] > 0 and (not (o['rate'] > 0) or abs(e['dt'] - Fr(10**12) / Fr(o['rate'])) > 1 + Fr(e['dt']) / 2**51):
            return 'rate', 'rate %r Hz vs interval %d ps' % (o['rate'], e['dt'])
        return None
    prev_ok = {}
    for i, step in enumerate(steps):
        if i == 0:
            st, cmd, target, want = 'ok', None, None, 'ok'
            d = step
        else:
            cmd = sp['prog'][i - 1]
            if step.startswith('ok '):
                st, d = step.split(' ', 2)[0] + ' ' + step.split(' ', 2)[1], step.split(' ', 2)[2]
            else:
                st, d = 'err', step.split(' ', 2)[2]
                errname = step.split(' ', 2)[1]
            want, target = sh.step(cmd)
        axes, ser = parse_dump(d)
        what = 'after command %d (%s) of %s' % (i, cmd_tok(cmd) if cmd else 'start', ';'.join(cmd_tok(x) for x in sp['prog'][:i]))
        kindname = {'R': 'rebuilt', 'C': 'copy', 'S': 'series', 'T': 'series-time', 'SC': 'series-copy', 'I': 'inplace'}.get(cmd[0] if cmd else None, 'init')
        if cmd and cmd[0] == 'I':
            kindname += '/' + cmd[2][0]
        if st != want:
            if want == 'err':
                return kindname + '/accepted', 'must be refused, was carried out ' + what
            if st == 'err':
                return kindname + '/raises-' + errname, 'raised %s %s' % (errname, what)
            return kindname + '/returns-existing-object', 'returned %s, a new object %s was due %s' % (st, want, what)
        if st == 'err' and errname != 'ValueError':
            return kindname + '/raises-' + errname, 'refused with %s instead of ValueError %s' % (errname, what)
        if len(axes) != len(sh.axes) or len(ser) != len(sh.series):
            return kindname + '/object-count', '%d axes, %d series; expected %d, %d %s' % (len(axes), len(ser), len(sh.axes), len(sh.series), what)
        for j, (o, e) in enumerate(zip(axes, sh.axes)):
            b = axis_bad(o, e) if o else ('unparsable', 'unparsable')
            if b:
                if target is not None and j != target:
                    return 'two-objects/' + sh.relation(j, target), \
                        'axis #%d (%s of #%s) %s although the operator was applied to axis #%d: %s' % (j, sh.origin[j][0], sh.origin[j][1], b[1], target, what)
                if target is not None:
                    return kindname + '/wrong-effect/' + b[0], 'axis #%d after the operator: %s; %s' % (j, b[1], what)
                return sh.origin[j][0] + '/product-wrong/' + b[0], 'axis #%d (%s of #%s): %s; %s' % (j, sh.origin[j][0], sh.origin[j][1], b[1], what)
        for j, (o, e) in enumerate(zip(ser, sh.series)):
            for k in ('unit', 't0', 'dt', 'n'):
                if o[k] != e[k]:
                    return ('series-attrs/changed-by-operator' if target is not None else 'series/product-wrong/' + k), \
                        'series #%d: %s is %s, must be %s; %s' % (j, k, o[k], e[k], what)
            if o['time'] != ('-' if e['time'] is None else str(e['time'])):
                return 'series/time-object', 'series #%d holds axis %s as its time, expected %s; %s' % (j, o['time'], e['time'], what)
            if e['dt'] > 0 and (not (o['rate'] > 0) or abs(e['dt'] - Fr(10**12) / Fr(o['rate'])) > 1 + Fr(e['dt']) / 2**51):
                return 'series/rate-does-not-describe-interval', 'series #%d rate %r vs interval %d; %s' % (j, o['rate'], e['dt'], what)
    if c.meta.get('poke'):
        k, t = c.meta['poke'][0]
        return 'shared-state/' + k, t + ' (after the program %s)' % ';'.join(cmd_tok(x) for x in sp['prog'])
    return None



# ------------------------------------------------------------------ round 4 (class L9): LARGE lengths, where a comparison of lengths decides
LARGE_N = [10**5, 10**5 + 1, 10**5 - 1, 10**5 + 2, 10**5 - 2, 10**5 + 3, 10**5 - 3, 2**17, 2**17 + 1, 2**17 - 1, 2 * 10**5, 2 * 10**5 + 2,
           2 * 10**5 - 2, 10**6] + [10**6 + d for d in range(1, 11)] + [10**6 - d for d in range(1, 11)]
LARGE_DT = [10**9, 5 * 10**11, 2 * 10**12, 333333333333]        # 1 ms, 0.5 s, 2 s (whole ps) and the interval of 3 Hz


_F7 = {}


def finding7_cases_enabled():
    """finding 7 (round 4): the length check of `TimeSeries(data, time=axis …)` forms the reconciling rate with the AXIS' conversion factor
    (samples per <axis unit>) and compares it with a rate in Hz — right on seconds axes only.  The cases that show it (clauses
    `series/from-time/unit-not-seconds/…`) are generated once the finding is recorded in known_findings.json (then: KNOWN-FINDING) or the
    tree is repaired (`proposed_fixes/C02-from-time-rate-in-hz.diff`; then: ordinary green cases) — until the lead has done one of the two
    they are left out, so that the unchanged tree stays green (the model already describes the intended check, in Hz)."""
    if 'on' not in _F7:
        import common
        T = ts()
        rec = common.match_known('series/from-time/unit-not-seconds/explicit-rate/reconciling-rate-refused', common.load_findings(PID)) is not None
        r = call(lambda: 'ok %d' % len(T.TimeSeries(np.zeros(2), time=T.UniformTime(length=4, sampling_rate=1000.0, time_unit='ms'),
                                                    sampling_rate=500.0).time))
        _F7['on'] = rec or r == 'ok 2'
    return _F7['on']


def large_cases(seed, tier):
    """a few cases per run (rotated by the seed; x6 in the thorough tier) at lengths 1e5 … 1e6 (+- a few samples): every accepted /
    refused combination in which a comparison of LENGTHS (or of a length with a duration) decides.  Expectations are exact integers;
    the model lines are the ordinary ops (the model never lays the samples out)."""
    import common
    rng = common.make_rng(PID, seed, 'large-lengths')
    reps = 2 if tier == 'quick' else 12
    out = []

    def add(c):
        if c:
            c.meta['large'] = True
            out.append(c)

    def t0_for(unit):
        return rng.choice([None, None, ('i', rng.randint(-3, 3)), ('f', 1.5), ('T', rng.choice(['s', 'ms', 'us']), rng.randint(-10**13, 10**13)), ('i', 0)])

    def from_time(n, m, au, dt, su, t0, at0, ndim):
        add(make_series_from_time_case({'axis': (au, int(at0), int(dt), int(n)), 'm': int(m), 't0': t0, 'unit': su, 'ndim': ndim, 'large': True}))

    # (a) TimeSeries(data_m, time=axis_n): the fixed witnesses (seconds, no explicit rate: the case a relative tolerance lets through) ...
    from_time(10**5, 10**5 + 1, 's', 10**9, 'default', None, 0, 1)
    from_time(10**5, 10**5, 's', 10**9, 'default', None, 0, 1)
    from_time(10**6 + 1, 10**6, 's', 5 * 10**11, 'default', ('i', -3), -3 * 10**12, 2)
    from_time(2 * 10**5 + 2, 2 * 10**5, 's', 333333333333, 's', None, 15 * 10**11, 1)
    for _ in range(reps):
        # ... every offset, at a length where an off-by-k is within 1e-5 of the length (and at one where it is not)
        for k in (-10, -3, -2, -1, 1, 2, 3, 10):
            for pick in (0, 1):
                m = rng.choice([x for x in LARGE_N if x * 1e-5 >= abs(k)] if pick == 0 else LARGE_N)
                au = 's' if pick == 0 else rng.choice(['s', 'ms', 'ms', 'us', 'm'])
                su = rng.choice(['default', 'default', 'none', au, 'ms'])
                from_time(m + k, m, au, rng.choice(LARGE_DT), su, t0_for({'default': 's', 'none': au}.get(su, su)),
                          rng.choice([0, 0, rng.randint(-10**13, 10**13)]), rng.choice([1, 1, 2]))
        # ... and equal lengths: accepted, m samples, duration m * dt (series and axis)
        for _ in range(4):
            m = rng.choice(LARGE_N)
            au = rng.choice(['s', 's', 'ms', 'm'])
            su = rng.choice(['default', 'none', au, 'ms'])
            from_time(m, m, au, rng.choice(LARGE_DT), su, t0_for({'default': 's', 'none': au}.get(su, su)),
                      rng.choice([0, rng.randint(-10**13, 10**13)]), rng.choice([1, 2]))
        # (b) `time=` + an explicit rate, data of another length: a rate that makes the data fill the duration of the axis exactly (down-sampling
        # by f on whole-ps intervals) is accepted; 7 x the rate, or the right rate with data one sample too long / short, is refused.
        # (seconds axes only: on an axis in another unit the code compares with a quotient in that unit and refuses every rate — observed, notes)
        for _ in range(3):
            base_hz, adt = rng.choice([(1000, 10**9), (2, 5 * 10**11), (500, 2 * 10**9)])
            f = rng.choice([d for d in (2, 4, 5, 8, 10) if base_hz % d == 0 or base_hz == 1000])
            if base_hz == 2:
                f = 2
            m = rng.choice([10**5, 10**5 + 1, 125000, 2 * 10**5, 2**17])
            r_ok = base_hz / float(f)
            rate_ok = rng.choice([('f', r_ok), ('F', r_ok)] + ([('i', base_hz // f)] if base_hz % f == 0 else []))
            ax = ('s', rng.choice([0, 2 * 10**12]), adt, m * f)
            su = rng.choice(['default', 'none', 's'])
            t0 = t0_for('s')
            for dl, rate in ((m, rate_ok), (m, (rate_ok[0], rate_ok[1] * 7)), (m + rng.choice([-1, 1]), rate_ok)):
                add(make_series_from_time_ov_case({'axis': ax, 'm': dl, 'interval': None, 'rate': rate, 't0': t0, 'unit': su}))
        # (b') the same on axes whose unit is NOT seconds (finding 7: the code forms the reconciling rate in samples per <axis unit>): the right
        # rate in Hz is accepted, the "per axis unit" number (Hz x factor(unit)/factor(s)) and 7 x the rate are refused; and a plain `time=` call
        # whose data are factor(s)/factor(unit) times longer than the axis (the coincidence of the per-unit quotient with the rate in Hz) is refused
        if finding7_cases_enabled():
            au, per = rng.choice([('ms', 1000), ('us', 10**6), ('ms', 1000)])
            adt = rng.choice([10**9, 2 * 10**9] if au == 'ms' else [10**6, 4 * 10**6])
            base_hz = 10**12 // adt
            f = rng.choice([2, 4, 5, 10])
            m = rng.choice([10**5, 10**5 + 1, 125000, 40])
            r_ok = base_hz / float(f)
            ax = (au, rng.choice([0, 2 * 10**12]), adt, m * f)
            su = rng.choice(['default', 'none', au])
            for dl, rate in ((m, ('f', r_ok)), (m, ('F', r_ok)), (m, ('f', r_ok / per)), (m, ('f', r_ok * 7)), (m + 1, ('f', r_ok))):
                c = make_series_from_time_ov_case({'axis': ax, 'm': dl, 'interval': None, 'rate': rate, 't0': t0_for(au), 'unit': su})
                if c:
                    c.clause = 'series/from-time/unit-not-seconds/explicit-rate'
                    add(c)
            n0 = rng.choice([100, 101, 250]) if au == 'ms' else 1
            c = make_series_from_time_case({'axis': (au, 0, adt, n0), 'm': n0 * per, 't0': None, 'unit': rng.choice(['default', 'none']), 'ndim': 1, 'large': True})
            if c:
                c.clause = 'series/from-time/unit-not-seconds/length-mismatch'
                add(c)
        # (c) specifications where a length meets a duration: n samples exactly, duration n * dt; over-determined ones stay refused
        for _ in range(2):
            n = rng.choice(LARGE_N)
            u = rng.choice(['s', 'ms', 's', 'us'])
            dt = rng.choice([d for d in LARGE_DT if d * (n + 2) < LIM // 4])
            I, t0 = ('T', rng.choice(['s', 'ms', 'ps']), dt), t0_for(u)
            base = {'axis': None, 'length': None, 'duration': None, 'rate': None, 'interval': None, 't0': t0, 'unit': u}
            specs = [dict(base, length=n, interval=I),
                     dict(base, length=n, duration=('T', 'ms', n * dt)),                     # interval = duration / n, exactly dt
                     dict(base, duration=('T', 's', n * dt + rng.choice([0, 1, -1, dt // 2, 1 - dt])), interval=I),   # count = multiples of dt before the end
                     dict(base, length=n, rate=('F', 1e12 / dt) if dt != 333333333333 else ('i', 3)),
                     dict(base, length=n, duration=('T', 's', n * dt), interval=I),          # over-determined (consistent or not): refused
                     dict(base, length=n + rng.choice([-1, 1]), duration=('T', 's', n * dt), interval=I),
                     dict(base, length=n, duration=('T', 's', n * dt), rate=('F', 1e12 / dt)),
                     dict(base, axis=(u, 0, dt, n + rng.choice([-1, 0, 1])), length=n),      # an existing axis cut / extended to a length
                     dict(base, axis=(u, 0, dt, n), duration=('T', 's', (n - 1) * dt + 1))]
            rng.shuffle(specs)
            for sp in specs[:6]:
                if predicted_sizes_ok(sp):
                    add(make_uniform_case(sp))
            sspecs = [{'n': n, 'ndim': rng.choice([1, 2]), 't0': t0, 'interval': I, 'rate': None, 'duration': None, 'unit': u},
                      {'n': n, 'ndim': 1, 't0': t0, 'interval': None, 'rate': None, 'duration': ('T', 'ms', n * dt), 'unit': u},
                      {'n': n, 'ndim': 1, 't0': None, 'interval': I, 'rate': None, 'duration': ('T', 's', n * dt), 'unit': 'default'},
                      {'n': n, 'ndim': 1, 't0': t0, 'interval': I, 'rate': ('F', 1e12 / dt), 'duration': None, 'unit': u}]     # over-determined
            rng.shuffle(sspecs)
            for sp in sspecs[:2]:
                add(make_series_case(sp))
    return out


def cases(rng, tier, seed):
    T = ts()
    k = {'quick': 1, 'thorough': 30}[tier]
    out, skipped = [], 0
    # --- corpus: the inputs named in the design / found earlier (run first)
    corpus = [
        {'axis': None, 'length': 100, 'duration': None, 'rate': None, 'interval': ('f', 2.2), 't0': None, 'unit': 'm'},
        {'axis': None, 'length': 5000, 'duration': None, 'rate': None, 'interval': ('f', 1 / 3.0), 't0': None, 'unit': 'us'},
        {'axis': None, 'length': 7, 'duration': ('i', 10), 'rate': None, 'interval': None, 't0': None, 'unit': 'none'},
        {'axis': None, 'length': 3, 'duration': None, 'rate': ('f', 1 / 0.81327), 'interval': None, 't0': None, 'unit': 'none'},
        {'axis': None, 'length': 3, 'duration': None, 'rate': None, 'interval': ('f', 0.81327), 't0': None, 'unit': 'none'},
        {'axis': None, 'length': None, 'duration': ('i', 10), 'rate': None, 'interval': ('i', 3), 't0': None, 'unit': 'none'},
        {'axis': None, 'length': 7, 'duration': ('T', 'ms', 50 * 10**9), 'rate': None, 'interval': None, 't0': None, 'unit': 'none'},
        {'axis': ('ms', 3 * 10**9, 2 * 10**9, 10), 'length': None, 'duration': None, 'rate': None, 'interval': None, 't0': None, 'unit': 'none'},
        {'axis': ('ms', 3 * 10**9, 2 * 10**9, 10), 'length': None, 'duration': None, 'rate': None, 'interval': ('i', 1), 't0': None, 'unit': 'none'},
        {'axis': ('ms', 3 * 10**9, 2 * 10**9, 10), 'length': None, 'duration': None, 'rate': ('i', 4000), 'interval': None, 't0': None, 'unit': 'none'},
        {'axis': ('ms', 3 * 10**9, 2 * 10**9, 10), 'length': 4, 'duration': None, 'rate': None, 'interval': None, 't0': ('i', 1), 'unit': 's'},
        {'axis': ('s', 0, 813270000000, 3), 'length': None, 'duration': None, 'rate': None, 'interval': None, 't0': None, 'unit': 'none'},
    ]
    for sp in corpus:
        c = make_uniform_case(sp)
        if c:
            out.append(c)
    # --- every presence pattern, without and with an existing axis
    for with_axis in (False, True):
        for bits in range(16):
            pat = tuple((bits >> i) & 1 for i in range(4))
            for _ in range(2 * k if k == 1 else 20):
                sp = gen_uniform_spec(rng, tier, pattern=pat, with_axis=with_axis)
                if not predicted_sizes_ok(sp):
                    skipped += 1
                    continue
                c = make_uniform_case(sp)
                if c:
                    out.append(c)
    # --- mostly valid specifications
    for _ in range(1500 * k):
        sp = gen_uniform_spec(rng, tier)
        if not predicted_sizes_ok(sp):
            skipped += 1
            continue
        c = make_uniform_case(sp)
        if c:
            out.append(c)
    # --- extents beyond 2^53 ps with odd intervals (where binary64 cannot hold n*dt): the regime in which a
    # count derived from a float quotient goes wrong even for exact integer inputs
    corpus2 = [(300, 977781009731899), (1785, 760030558045565), (93874, 3374116864345)]
    for j in range(120 * k):
        if j < len(corpus2):
            n, dt = corpus2[j]
        else:
            dt = rng.randrange(10**10, 10**15) | 1
            lo, hi = 2**53 // dt + 1, min(10**5, LIM // 2 // dt)
            if lo >= hi:
                continue
            n = rng.randrange(lo, hi)
        u = rng.choice(UNITS)
        t0 = rng.choice([None, ('T', u, rng.randint(-10**15, 10**15))])
        if rng.random() < 0.5:
            sp = {'axis': None, 'length': n, 'duration': None, 'rate': None, 'interval': ('T', rng.choice(UNITS), dt), 't0': t0, 'unit': u}
            c = make_uniform_case(sp)
        else:
            sp = {'n': n, 'ndim': 1, 't0': t0, 'interval': ('T', rng.choice(UNITS), dt), 'rate': None, 'duration': None, 'unit': u}
            c = make_series_case(sp)
        if c:
            out.append(c)
    # --- axes rebuilt from an existing axis whose interval is beyond binary64's integer range (>= 2^52 ps:
    # hours to weeks, odd picosecond counts), with no spec / unit only / length / duration
    big = [2**53 + 1, 2**52 + 1, 86400 * 10**12 + 1, 11 * 86400 * 10**11 + 7, 604800 * 10**12 // 7 * 3 + 1]
    for j in range(90 * k):
        adt = big[j] if j < len(big) else (rng.randrange(2**52, 2**57) | 1)
        an = rng.randint(1, max(1, min(20, 2**60 // adt)))
        au = rng.choice(['D', 'W', 'h', 'ps', rng.choice(UNITS)])
        at0 = rng.choice([0, 5, rng.randint(-10**17, 10**17)])
        how = ['nothing', 'unit', 'length', 'duration'][j % 4]
        sp = {'axis': (au, int(at0), int(adt), int(an)), 'length': None, 'duration': None, 'rate': None, 'interval': None,
              't0': None if rng.random() < 0.7 else ('T', au, rng.randint(-10**17, 10**17)), 'unit': 'none'}
        if how == 'unit':
            sp['unit'] = rng.choice(UNITS)
        elif how == 'length':
            sp['length'] = rng.randint(1, max(1, min(25, 2**60 // adt)))
        elif how == 'duration':
            sp['duration'] = ('T', rng.choice(UNITS), adt * rng.randint(1, max(1, min(20, 2**60 // adt))) - rng.choice([0, 0, 1, adt // 2]))
        c = make_uniform_case(sp)
        if c:
            out.append(c)
    # --- groups of constructions that SHARE one rate / interval / duration / t0 object (axis, series, other units,
    # other argument patterns, in a shuffled order): each must give what fresh objects give
    for _ in range(60 * k):
        u0 = rng.choice(UNITS)
        iv = gen_interval(rng, u0)
        ps = max(1, int(iv[1] * FACTOR[u0])) if iv[0] == 'f' else iv[1] * FACTOR[u0]
        if ps >= LIM // 64:
            continue
        nmax = max(1, min(3000, LIM // 64 // ps))
        I = ('T', rng.choice(UNITS), int(ps))
        F = ('F', float(1e12 / ps))
        D = ('T', rng.choice(UNITS), max(2, int(ps) * rng.randint(1, nmax) - rng.choice([0, 0, int(ps) // 2])))
        T0 = ('T', rng.choice(UNITS), rng.randint(-10**15, 10**15))
        shared = {}
        group = [('u', {'axis': None, 'length': rng.randint(1, nmax), 'duration': None, 'rate': F, 'interval': None, 't0': T0, 'unit': rng.choice(UNITS)}),
                 ('s', {'n': rng.randint(1, nmax), 'ndim': 1, 't0': T0, 'interval': None, 'rate': F, 'duration': None, 'unit': rng.choice(UNITS)}),
                 ('u', {'axis': None, 'length': None, 'duration': D, 'rate': F, 'interval': None, 't0': None, 'unit': rng.choice(UNITS)}),
                 ('u', {'axis': None, 'length': rng.randint(1, nmax), 'duration': None, 'rate': None, 'interval': I, 't0': T0, 'unit': rng.choice(UNITS + ['none'])}),
                 ('s', {'n': rng.randint(1, nmax), 'ndim': 2, 't0': None, 'interval': I, 'rate': None, 'duration': None, 'unit': rng.choice(UNITS)}),
                 ('u', {'axis': None, 'length': None, 'duration': D, 'rate': None, 'interval': I, 't0': T0, 'unit': 'none'}),
                 ('u', {'axis': None, 'length': rng.randint(1, max(1, min(nmax, D[2] // 2))), 'duration': D, 'rate': None, 'interval': None, 't0': None, 'unit': rng.choice(UNITS)})]
        rng.shuffle(group)
        prefix = []
        for kind, sp in group[:rng.randint(3, 7)]:
            c = make_uniform_case(sp, shared) if kind == 'u' else make_series_case(sp, shared)
            prefix.append([kind, sp])
            if c:
                c.meta['group'] = list(prefix)     # the replay re-runs the constructions that shared the objects
                out.append(c)
    # --- round 2 (class L8): ONE 0-d time object in TWO roles of one call (t0 AND interval, t0 AND duration, interval AND duration),
    # then again in the next constructions of the group; the expectation is the one for independent equal-valued arguments (the model
    # line only knows values); construct_seq steps 5/6 change the argument / the result in place afterwards
    for _ in range(50 * k):
        u0 = rng.choice(UNITS)
        n = rng.randint(1, 400)
        ps = rng.choice([1, 3, 10**3, 10**6 + 1, 2 * 10**9, 10**12, 7 * 10**12, rng.randint(1, 10**13)])
        if ps * n * 2 >= LIM // 64:
            continue
        Z = ('T', rng.choice(UNITS), int(ps))
        ZN = ('T', rng.choice(UNITS), int(ps) * n)          # an extent that is also used as the start
        shared = {}
        group = [('u', {'axis': None, 'length': n, 'duration': None, 'rate': None, 'interval': Z, 't0': Z, 'unit': rng.choice(UNITS + ['none'])}),
                 ('s', {'n': n, 'ndim': rng.choice([1, 2]), 't0': Z, 'interval': Z, 'rate': None, 'duration': None, 'unit': rng.choice(UNITS + ['none'])}),
                 ('u', {'axis': None, 'length': None, 'duration': Z, 'rate': None, 'interval': Z, 't0': Z, 'unit': rng.choice(UNITS + ['none'])}),
                 ('u', {'axis': None, 'length': None, 'duration': ZN, 'rate': None, 'interval': Z, 't0': ZN, 'unit': rng.choice(UNITS)}),
                 ('u', {'axis': None, 'length': n, 'duration': ZN, 'rate': None, 'interval': None, 't0': ZN, 'unit': rng.choice(UNITS)}),
                 ('s', {'n': n, 'ndim': 1, 't0': ZN, 'interval': None, 'rate': None, 'duration': ZN, 'unit': rng.choice(UNITS)})]
        rng.shuffle(group)
        prefix = []
        for kind, sp in group[:rng.randint(2, 4)]:
            c = make_uniform_case(sp, shared) if kind == 'u' else make_series_case(sp, shared)
            prefix.append([kind, sp])
            if c:
                c.meta['group'] = list(prefix)
                c.meta['one_object_two_roles'] = True
                out.append(c)
    # --- series
    for sp in [{'n': 100, 'ndim': 1, 't0': None, 'interval': ('f', 2.2), 'rate': None, 'duration': None, 'unit': 'm'},
               {'n': 10, 'ndim': 1, 't0': None, 'interval': None, 'rate': None, 'duration': ('i', 10), 'unit': 'default'},
               {'n': 3, 'ndim': 2, 't0': ('f', 4.25), 'interval': None, 'rate': ('f', 1 / 0.81327), 'duration': None, 'unit': 'default'}]:
        out.append(make_series_case(sp))
    # explicit time_unit=None: unit from the duration object, else from the interval object (in that order), else seconds;
    # t0 as a time object never decides the unit
    for sp in [{'n': 3, 'ndim': 1, 't0': None, 'interval': ('T', 'ms', 5 * 10**9), 'rate': None, 'duration': None, 'unit': 'none'},
               {'n': 3, 'ndim': 1, 't0': None, 'interval': None, 'rate': None, 'duration': ('T', 'ms', 15 * 10**9), 'unit': 'none'},
               {'n': 3, 'ndim': 2, 't0': ('T', 'h', 15 * 10**8), 'interval': ('T', 'us', 5 * 10**9), 'rate': None, 'duration': ('T', 'ms', 15 * 10**9), 'unit': 'none'},
               {'n': 3, 'ndim': 1, 't0': ('T', 'ms', 15 * 10**11), 'interval': None, 'rate': ('f', 2.0), 'duration': None, 'unit': 'none'},
               {'n': 3, 'ndim': 1, 't0': ('f', 0.5), 'interval': None, 'rate': ('F', 2.0), 'duration': ('T', 'ms', 15 * 10**11), 'unit': 'none'},
               {'n': 4, 'ndim': 1, 't0': ('i', 2), 'interval': ('f', 0.25), 'rate': None, 'duration': None, 'unit': 'none'}]:
        out.append(make_series_case(sp))
    for _ in range(500 * k):
        out.append(make_series_case(gen_series_spec(rng, tier)))
    # --- the constructor of the time-valued arguments themselves: unit names, copy=False, dimensions
    for j in range(60 * k):
        kind = 'inxM'[j % 4] if j < 8 else rng.choice('iinnxxxM')
        unit = ['bad', 'none'][j % 2] if j < 8 else rng.choice(UNITS + ['none', 'none', 'bad'])
        cp = (j // 2) % 2 if j < 8 else int(rng.random() < 0.6)
        f = FACTOR.get(unit, 10**12)
        if kind in 'in':
            v = rng.randint(-(2**55) // f, 2**55 // f) if cp or kind == 'i' else rng.randint(-2**60, 2**60)
            x, tk = (v if kind == 'i' else np.int64(v)), '%s%d' % (kind, v)
        elif kind == 'x':
            v = float(rng.choice([rng.uniform(-1e3, 1e3), round(rng.uniform(-50, 50), rng.randint(0, 5)), 1 / 3.0, 0.81327, 2.2]))
            if abs(v) * f >= 2**55:
                v = 0.5
            x, tk = v, f2x(v)
        else:
            x, tk = np.zeros((2, 2), dtype=np.int64), 'M'

        def mk():
            t = T.TimeArray(x, time_unit={'bad': 'fortnight', 'none': None}.get(unit, unit), copy=bool(cp))
            return 'ok %d %s' % (int(t), t.time_unit)
        out.append(Case('C02 tarray %s %s %d' % (tk, unit, cp), call(mk), 'timearray/new',
                        meta={'kind': 'tarray', 'x': (kind, None if kind == 'M' else (int(x) if kind in 'in' else x)), 'unit': unit, 'copy': cp}))
    for _ in range(150 * k):
        au = rng.choice(UNITS)
        adt = max(1, int(gen_interval(rng, au)[1] * FACTOR[au]))
        an = gen_len(rng, tier, cap=max(1, min(20000, LIM // 8 // adt)))
        at0 = rng.choice([0, rng.randint(-LIM // 8, LIM // 8)])
        m = an if rng.random() < 0.8 else an + rng.choice([1, 2, -1 if an > 1 else 1])
        su = rng.choice(['default', 'default', 'none', au, rng.choice(UNITS)])
        sp = {'axis': (au, int(at0), int(adt), int(an)), 'm': int(m),
              't0': None if rng.random() < 0.6 else gen_t0(rng, {'default': 's', 'none': au}.get(su, su), LIM // 8),
              'unit': su}
        if _ % 6 == 0:    # always present (L3): an explicit FALSY start (0, 0.0, zero time object) on an axis that starts elsewhere
            sp['axis'] = (au, int(at0) if at0 else int(rng.choice([-1, 1]) * rng.randint(1, LIM // 8)), int(adt), int(an))
            sp['t0'] = [('i', 0), ('f', 0.0), ('T', rng.choice(UNITS), 0)][(_ // 6) % 3]
        c = make_series_from_time_case(sp)
        if c:
            out.append(c)
    # --- `time=` together with an overriding interval / rate (every reported attribute must describe the one new axis)
    ov_fixed = [{'axis': ('s', 3 * 10**12, 5 * 10**11, 8), 'interval': ('i', 1), 'rate': None, 't0': None, 'unit': 'none'},
                {'axis': ('s', 3 * 10**12, 5 * 10**11, 8), 'interval': ('T', 'ms', 25 * 10**10), 'rate': None, 't0': ('i', 0), 'unit': 's'},
                {'axis': ('ms', 0, 2 * 10**9, 10), 'interval': None, 'rate': ('i', 4), 't0': None, 'unit': 'none'},
                {'axis': ('ms', 0, 2 * 10**9, 10), 'interval': ('f', 0.25), 'rate': None, 't0': None, 'unit': 'us'}]
    for i_ov in range(len(ov_fixed) + 120 * k):
        if i_ov < len(ov_fixed):
            sp = ov_fixed[i_ov]
        else:
            au = rng.choice(UNITS)
            adt = max(1, int(gen_interval(rng, au)[1] * FACTOR[au]))
            an = gen_len(rng, tier, cap=max(1, min(5000, LIM // 8 // adt)))
            at0 = rng.choice([0, rng.randint(-LIM // 8, LIM // 8)])
            su = rng.choice(['none', 'none', 'default', au, rng.choice(UNITS)])
            unit = {'none': au, 'default': 's'}.get(su, su)
            iv = rate = None
            if rng.random() < 0.6:
                iv = gen_interval(rng, unit)
                if rng.random() < 0.3:
                    iv = as_T(rng, unit, iv)
                    if iv[2] < 1:
                        iv = ('T', iv[1], 1)
            else:
                rate = gen_rate(rng)
                if rng.random() < 0.3:
                    rate = ('F', float(rate[1]))
            dt = dt_ps_estimate(unit, iv, rate)
            if dt is None or dt < 1 or dt * (an + 1) >= LIM // 8:
                continue
            sp = {'axis': (au, int(at0), int(adt), int(an)), 'interval': iv, 'rate': rate,
                  't0': None if rng.random() < 0.6 else gen_t0(rng, unit, LIM // 8), 'unit': su}
        c = make_series_from_time_ov_case(sp)
        if c:
            out.append(c)
    # --- two (and more) live objects built from one another, every in-place operator on either, all re-inspected
    heap_corpus = [
        {'axis': ('s', -10**12, 5 * 10**11, 8), 'prog': [('S', 0, 8, 's'), ('T', 0), ('S', 1, 8, 's'), ('I', 0, ('as', 'i', 3)), ('I', 0, ('mu', 2)), ('T', 1)]},
        {'axis': ('ms', 0, 2 * 10**9, 10), 'prog': [('S', 0, 10, 'none'), ('I', 0, ('sr', 't', 5, -7, 10)), ('T', 0), ('I', 1, ('dv', 2)), ('R', 1, 'none', None), ('I', 2, ('ss', 't', 10**9))]},
        {'axis': ('s', 4250000000000, 333333333333, 5), 'prog': [('R', 0, 'none', None), ('I', 0, ('ar', 'i', 1, 1, 5)), ('R', 1, 'ms', 7), ('I', 1, ('mu', 3)), ('C', 2), ('I', 3, ('as', 't', -17))]},
    ]
    for sp in heap_corpus:
        c = make_heap_case(sp, parts=True)
        if c:
            out += c
    for _ in range(260 * k):
        c = make_heap_case(gen_heap_spec(rng, tier), parts=True)
        if c:
            out += c
    # --- Frequency, to_period, arange contract
    for _ in range(300 * k):
        fv = gen_rate(rng)
        u = rng.choice(UNITS)
        impl = call(lambda: 'ok ' + f2x(float(T.Frequency(fv[1], time_unit=u)))[1:])
        out.append(Case('C02 freq %s %s' % (tok(fv), u), impl, 'frequency/new', meta={'kind': 'freq', 'f': fv, 'unit': u}))
        hz = float(gen_rate(rng)[1])
        impl = call(lambda: 'ok %d' % int(T.Frequency(hz).to_period()))
        out.append(Case('C02 to_period %s' % f2x(hz)[1:], impl, 'frequency/to_period', cmp=cmp_intended,
                        meta={'kind': 'to_period', 'hz': hz}))
        hz2 = float(gen_rate(rng)[1])
        us = [rng.choice(['ps', 'ns', 'us', 'ms', 's', 'm']) for _ in range(rng.randint(2, 5))]
        fobj = T.Frequency(hz2)

        def one(u):
            with np.errstate(all='ignore'):
                v = call(lambda: str(int(fobj.to_period(u) if u != 'ps' or rng.random() < 0.5 else fobj.to_period())))
            return 'err' if v.startswith('err') else v
        out.append(Case('C02 to_period_seq %s %s' % (f2x(hz2)[1:], ','.join(us)), 'ok ' + ','.join(one(u) for u in us),
                        'frequency/to_period_seq', meta={'kind': 'to_period_seq', 'hz': hz2, 'units': us}))
        dt = rng.choice([rng.randint(1, 10**6), rng.randint(1, 10**13), 333333, 132000000000000, 1428571428571])
        n = rng.randint(1, min(10**5, max(1, LIM // dt)))
        dur = n * dt + rng.choice([0, 0, 1, 2, -1, rng.randint(-dt, dt), dt // 2])
        if dur > 0 and dur // dt <= 10**5 + 2:
            ln = len(np.arange(np.int64(0), np.int64(dur), np.int64(dt), dtype=np.int64))
            out.append(Case('C02 arange_len %d %d' % (dur, dt), 'ok %d' % ln, 'numpy/arange_len'))
    # --- round 4 (class L9): a few LARGE lengths per run, where a comparison of lengths decides (own PRNG stream)
    out += large_cases(seed, tier)
    cases.skipped = skipped
    return out


# ------------------------------------------------------------------ oracle (Fractions; never the Lean model)
def num_bounds(v, unit):
    """(lo, hi) Fractions allowed for `TimeArray(v, time_unit=unit)` in ps"""
    if v[0] == 'T':
        return Fr(v[2]), Fr(v[2])
    f = FACTOR[unit]
    if v[0] == 'i':
        return Fr(v[1] * f), Fr(v[1] * f)
    x = Fr(v[1]) * f
    slack = Fr(1, 2) + abs(x) / 2**53
    return x - slack, x + slack


def ceil_div(a, b):
    return -((-a) // b) if isinstance(a, int) else -math.floor(-a / b)


def expected_unit(unit_arg, ax_unit, duration, interval):
    if unit_arg in UNITS:
        return unit_arg
    if ax_unit is not None:
        return ax_unit
    if duration is not None and duration[0] == 'T':
        return duration[1]
    if interval is not None and interval[0] == 'T':
        return interval[1]
    return 's'


_RATES = {}


def rates_of_interval(d):
    """the binary64 rates (Hz) that an axis with interval d ps reports, over all unit paths
    (correctly rounded Fraction arithmetic): fl(fl(1/fl(d/f)) * fl(1e12/f)), and fl(1e12/d)"""
    r = _RATES.get(d)
    if r is None:
        r = {float(Fr(10**12, d))}
        for f in FACTOR.values():
            x = float(Fr(d, f))
            if x > 0:
                r.add(float(Fr(float(1 / Fr(x))) * Fr(float(Fr(10**12, f)))))
        if len(_RATES) > 20000:
            _RATES.clear()
        _RATES[d] = r
    return r


def judge_axis(o, unit, t0_arg, t0_inherit, interval, rate_hz, inherit_dt, length, duration, dur_inherit_ps, n_for_div):
    """judge the observed axis `o` against the specification.  Returns (symptom, text) or None.
    interval: tagged value or None; rate_hz: float or None; inherit_dt: ps of the source axis when the
    sampling is inherited; duration: tagged or None; dur_inherit_ps: duration inherited from a source axis."""
    f = FACTOR[unit]
    if o['unit'] != unit:
        return 'unit', 'unit %s, want %s' % (o['unit'], unit)
    # --- interval
    dt = o['dt']
    if interval is not None:
        lo, hi = num_bounds(interval, unit)
        if not (lo <= dt <= hi):
            return 'interval-wrong', 'stored interval %d ps is not the nearest picosecond to the requested interval [%s, %s]' % (dt, float(lo), float(hi))
    elif inherit_dt is not None and dt != inherit_dt:
        # the sampling is taken over from an existing axis: the interval must be that axis' own, whatever its size
        if dt == inherit_dt - 1 and inherit_dt < 2**50:
            return 'period-truncated', 'axis rebuilt from another one has interval %d ps, the source has %d ps' % (dt, inherit_dt)
        return 'interval-changed', 'axis rebuilt from another one has interval %d ps, the source has %d ps (re-derived from the binary64 rate)' % (dt, inherit_dt)
    elif inherit_dt is not None:
        pass
    elif rate_hz is not None:
        P = Fr(10**12) / Fr(rate_hz)
        slack = Fr(1, 2) + P / 2**50
        v = (1.0 / rate_hz) * 1e12          # the binary64 number of picoseconds the code holds (hardware floats)
        # the same period carried through `/ float(c_f)` and the cast back to picoseconds (hardware floats)
        dt_t, dt_r = round((float(int(v)) / float(f)) * float(f)), round((float(round(v)) / float(f)) * float(f))
        if dt == dt_t != dt_r:
            return 'period-truncated', 'interval %d ps is the truncation of the computed period %r ps; whole picoseconds are the NEAREST ones (%d)' % (dt, v, round(v))
        if abs(dt - P) > slack:
            if dt < P and abs(dt + 1 - P) <= slack:
                return 'period-truncated', 'interval %d ps is 1/rate = %.6f ps truncated, not rounded: a rate and its reciprocal interval give different axes' % (dt, float(P))
            return 'interval-wrong', 'stored interval %d ps is not the nearest picosecond to 1/rate = %.3f ps (rate %r Hz)' % (dt, float(P), rate_hz)
        # a rate that IS the rate of the axis with a particular whole-picosecond interval (below 2^50 ps)
        # must give back that interval ("rebuilding an axis from another one's rate")
        owners = [d for d in {math.floor(P), math.ceil(P)} if 0 < d < 2**50 and rate_hz in rates_of_interval(d)]
        if len(owners) == 1 and dt != owners[0]:
            return ('period-truncated' if dt == owners[0] - 1 else 'interval-not-the-one-with-this-rate'), \
                'rate %r Hz is the rate of the axis with interval %d ps, but the axis built from it has %d ps' % (rate_hz, owners[0], dt)
    else:
        dlo, dhi = num_bounds(duration, unit)
        P = (dlo + dhi) / 2 / n_for_div
        slack = Fr(1, 2) + P / 2**50 + (dhi - dlo) / 2 / n_for_div
        if abs(dt - P) > slack:
            if duration[0] == 'T':
                return 'duration-object-misread', 'interval %d ps for a duration given as a time object of %d ps over %d samples' % (dt, duration[2], n_for_div)
            return 'interval-wrong', 'stored interval %d ps is not the nearest picosecond to duration/length = %.3f ps' % (dt, float(P))
    if dt < 1:
        return 'interval-nonpositive', 'stored interval %d ps' % dt
    # --- start
    if t0_arg is not None:
        lo, hi = num_bounds(t0_arg, unit)
        if not (lo <= o['t0'] <= hi):
            return 't0-wrong', 't0 %d ps, requested [%s, %s]' % (o['t0'], float(lo), float(hi))
    else:
        want = t0_inherit if t0_inherit is not None else 0
        if o['t0'] != want:
            return ('t0-dropped' if t0_inherit is not None and o['t0'] == 0 else 't0-wrong'), \
                't0 %d ps, want %d ps (the start of the axis it was built from)' % (o['t0'], want)
    # --- number of samples
    n = o['n']
    if length is not None:
        if n != length:
            return 'count-not-length', '%d samples for requested length %d' % (n, length)
    else:
        if duration is not None:
            dlo, dhi = num_bounds(duration, unit)
        else:
            dlo = dhi = Fr(dur_inherit_ps)
        nlo, nhi = max(0, math.ceil(dlo / dt)), max(0, math.ceil(dhi / dt))
        if not (nlo <= n <= nhi):
            return 'count-not-multiples-before-duration', '%d samples, but %d..%d multiples of %d ps lie before the duration %.3f ps' % (n, nlo, nhi, dt, float(dhi))
    # --- samples
    if not o['affine']:
        return 'samples-not-affine', 'samples are not t0 + i*interval'
    if n:
        first, second, last = [int(x) for x in o['S'].split(',')]
        if first != o['t0'] or last != o['t0'] + (n - 1) * dt or second != o['t0'] + min(1, n - 1) * dt:
            return 'samples-not-affine', 'first/second/last sample %s do not match t0 + i*interval' % o['S']
    # --- attributes describe the axis
    if o['dur'] != n * dt:
        return 'duration-not-n-intervals', 'reported duration %d ps, the %d intervals cover %d ps' % (o['dur'], n, n * dt)
    r = o['rate']
    if not (r > 0) or abs(dt - Fr(10**12) / Fr(r)) > 1 + Fr(dt) / 2**51:
        return 'rate-does-not-describe-interval', 'rate %r Hz vs interval %d ps' % (r, dt)
    return None


def check_case(c):
    m = c.meta
    if not m:
        return None
    kind = m['kind']

    def fail(sym, what):
        return Failure('%s/%s' % (c.clause, sym), '%s: %s  [op: %s] impl=%s' % (c.clause, what, c.line[:220], c.impl[:160]),
                       {'kind': kind, 'clause': c.clause, 'meta': m, 'key': '%s/%s' % (c.clause, sym)}, case=c)
    if kind == 'heap':
        r = judge_heap(c)
        return fail(*r) if r else None
    if kind == 'heapparts':
        # the property's own account: every axis object has samples of its own, and they lie at t0 + i*interval
        if not c.impl.startswith('ok B:'):
            return fail('not-run', 'the program could not be run: ' + c.impl)
        b, w = c.impl[5:].split(' W:')
        reps = [int(x) for x in b.split(',')]
        if reps != list(range(len(reps))):
            j = next(j for j, x in enumerate(reps) if x != j)
            return fail('shared-sample-buffer', 'axis object %d views the sample buffer of axis object %d (an in-place operator on one moves the other)' % (j, reps[j]))
        if '0' in w.split(','):
            return fail('samples-not-described-by-attributes', 'axis object %d: samples are not t0 + i*interval' % w.split(',').index('0'))
        return None
    if c.impl.startswith('SEQ '):
        return fail('hidden-state/' + c.impl.split()[1], 'the result depends on what was done before with the same objects: ' + c.impl[:300])
    if kind == 'to_period_seq':
        # every call on the one object must give what a fresh object gives: nearest whole number of the unit
        got = c.impl[3:].split(',')
        for u, g in zip(m['units'], got):
            P = Fr(10**12, FACTOR[u]) / Fr(m['hz'])
            if g == 'err' or abs(int(g) - P) > Fr(1, 2) + P / 2**50:
                return fail('hidden-state/call-order', 'to_period(%s) in the sequence %s on one Frequency(%r) gave %s, a fresh object gives about %.3f' % (
                    u, m['units'], m['hz'], g, float(P)))
        return None
    if kind == 'uniform':
        sp = m['spec']
        pat = pattern_of(sp)
        ax = m.get('axis_obs')
        doc = DOC_WITH_AXIS if ax else DOC
        if pat not in doc:
            if c.impl != 'err ValueError':
                return fail('accepts-undocumented' if c.impl.startswith('ok') else 'wrong-error', 'undocumented argument combination %s not refused with ValueError' % (pat,))
            return None
        if sp['unit'] == 'bad':
            if c.impl == 'err ValueError':
                return None
            if c.impl.startswith('err '):
                return fail('raises-' + c.impl.split()[-1], 'invalid unit: %s instead of ValueError' % c.impl)
            return fail('bad-unit-accepted', 'invalid unit not refused')
        if not c.impl.startswith('ok '):
            return fail('raises-' + c.impl.split()[-1], 'documented argument combination refused (%s)' % c.impl)
        o = parse_axis(c.impl[3:])
        unit = expected_unit(sp['unit'], ax['unit'] if ax else None, sp['duration'], sp['interval'])
        rate_hz = float(sp['rate'][1]) if sp['rate'] is not None else None
        inherit_dt = None
        dur_inherit = None
        duration = sp['duration']
        length = sp['length']
        n_div = length
        if ax:
            if sp['interval'] is None and sp['rate'] is None and not (sp['length'] is not None and sp['duration'] is not None):
                rate_hz, inherit_dt = ax['rate'], ax['dt']
            if sp['duration'] is None and sp['length'] is None:
                dur_inherit = ax['dur']
        r = judge_axis(o, unit, sp['t0'], ax['t0'] if ax else None, sp['interval'], rate_hz, inherit_dt, length,
                       duration, dur_inherit, n_div)
        return fail(*r) if r else None
    if kind == 'series_from_time_ov':
        sp = m['spec']
        au, at0, adt, an = sp['axis']
        if sp.get('m', an) != an:
            # data of another length than the axis: accepted iff the explicit rate makes the data fill EXACTLY the duration of the
            # axis (exact rationals: m / r seconds = n * dt picoseconds), refused with ValueError otherwise — at every length
            fills = Fr(sp['m']) * 10**12 / Fr(float(sp['rate'][1])) == an * adt
            if not fills:
                return None if c.impl == 'err ValueError' else fail(
                    'length-mismatch-accepted' if c.impl.startswith('ok') else 'raises-' + c.impl.split()[-1],
                    'data length %d on an axis of %d x %d ps with sampling_rate %r (which does not fill the duration): %s' % (
                        sp['m'], an, adt, sp['rate'][1], c.impl[:60]))
            if not c.impl.startswith('ok '):
                return fail('reconciling-rate-refused', 'data length %d at %r Hz fills the %d x %d ps of the axis exactly, refused: %s' % (
                    sp['m'], sp['rate'][1], an, adt, c.impl))
        kind, m = 'series', dict(m, spec=m['equiv'])
    if kind in ('series', 'series_from_time'):
        sp = m['spec']
        if kind == 'series':
            pat = tuple(int(sp[k] is not None) for k in ('interval', 'rate', 'duration'))
            if pat not in DOC_SERIES:
                return None if c.impl == 'err ValueError' else fail('accepts-undocumented', 'undocumented argument combination %s not refused' % (pat,))
            if sp['unit'] == 'bad':
                return None if c.impl == 'err ValueError' else fail('bad-unit-accepted', 'invalid unit not refused')
            if not c.impl.startswith('ok '):
                return fail('raises-' + c.impl.split()[-1], 'documented argument combination refused (%s)' % c.impl)
            s = parse_series(c.impl[3:])
            unit = expected_unit(sp['unit'] if sp['unit'] != 'default' else 's', None, sp['duration'], sp['interval'])
            o = s['time']
            if s['t0'] != o['t0'] or s['dt'] != o['dt']:
                return fail('series-attrs-vs-axis', 'series t0/interval %s differ from its time axis %s' % ((s['t0'], s['dt']), (o['t0'], o['dt'])))
            r = judge_axis(o, unit, sp['t0'], None, sp['interval'], float(sp['rate'][1]) if sp['rate'] is not None else None, None,
                           sp['n'], sp['duration'], None, sp['n'])
            if r is None and (not (s['rate'] > 0) or abs(o['dt'] - Fr(10**12) / Fr(s['rate'])) > 1 + Fr(o['dt']) / 2**51):
                r = ('rate-does-not-describe-interval', 'series rate %r Hz vs interval %d ps' % (s['rate'], o['dt']))
            return fail(*r) if r else None
        ax = m['axis_obs']
        if sp['m'] != ax['n']:
            # the documented behaviour: data of another length than the axis is an error unless a new rate is given
            coincidence = ax['rate'] == float(sp['m'] * FACTOR[ax['unit']]) / ax['dur'] if ax['dur'] else False
            # (exact integers: such a coincidence needs |m - n| / n below binary64 resolution; never for the lengths generated)
            if coincidence and abs(sp['m'] - ax['n']) * 2**50 < ax['n']:
                return None
            return None if c.impl == 'err ValueError' else fail('length-mismatch-accepted', 'data length %d vs axis length %d accepted' % (sp['m'], ax['n']))
        if not c.impl.startswith('ok '):
            return fail('raises-' + c.impl.split()[-1], 'series from a matching axis refused (%s)' % c.impl)
        s = parse_series(c.impl[3:])
        o = s['time']
        unit = {'default': 's', 'none': ax['unit']}.get(sp['unit'], sp['unit'])
        r = judge_axis(o, unit, sp['t0'], ax['t0'], ('T', ax['unit'], ax['dt']), None, None, sp['m'], None, None, sp['m'])
        if r is None and 'series_dur' in m and m['series_dur'] != sp['m'] * ax['dt']:
            # the series' own duration covers exactly its m intervals (plain `time=` call, equal lengths: the axis' own duration)
            r = ('series-duration-not-n-intervals', 'series.duration = %s ps, its %d intervals of %d ps cover %d ps' % (
                m['series_dur'], sp['m'], ax['dt'], sp['m'] * ax['dt']))
        return fail(*r) if r else None
    if kind == 'to_period':
        P = Fr(10**12) / Fr(m['hz'])
        if not c.impl.startswith('ok '):
            return fail('raises', 'to_period raised')
        p = int(c.impl[3:])
        v = (1.0 / m['hz']) * 1e12
        if p == int(v) != round(v):
            return fail('truncated', 'period %d ps is the truncation of the computed %r ps, nearest is %d' % (p, v, round(v)))
        if abs(p - P) > Fr(1, 2) + P / 2**51:
            return fail('truncated' if p == math.floor(P) else 'wrong', 'period %d ps of %r Hz, 1/f = %.6f ps' % (p, m['hz'], float(P)))
        return None
    if kind == 'tarray':
        xk, xv = m['x']
        refuse = m['unit'] == 'bad' or xk == 'M' or (not m['copy'] and xk != 'n')
        if refuse:
            if c.impl == 'err ValueError':
                return None
            return fail('accepted' if c.impl.startswith('ok') else 'raises-' + c.impl.split()[-1],
                        'TimeArray(%s %r, time_unit=%s, copy=%s) must be refused with ValueError: %s' % (xk, xv, m['unit'], bool(m['copy']), c.impl))
        if not c.impl.startswith('ok '):
            return fail('raises-' + c.impl.split()[-1], 'valid TimeArray arguments refused: %s' % c.impl)
        ps, u = c.impl[3:].split()
        wu = 's' if m['unit'] == 'none' else m['unit']
        if u != wu:
            return fail('unit', 'unit %s, want %s' % (u, wu))
        want = Fr(xv) if not m['copy'] else Fr(xv) * FACTOR[wu]
        slack = 0 if xk in 'in' else Fr(1, 2) + abs(want) / 2**52
        if abs(int(ps) - want) > slack:
            return fail('value', '%s ps for %r %s (copy=%s)' % (ps, xv, wu, bool(m['copy'])))
        return None
    if kind == 'freq':
        want = Fr(m['f'][1]) * Fr(10**12, FACTOR[m['unit']])
        got = Fr(x2f('x' + c.impl[3:])) if c.impl.startswith('ok ') else None
        if got is None or abs(got - want) > abs(want) / 2**51:
            return fail('value', 'Frequency(%r, %s) = %s Hz' % (m['f'][1], m['unit'], c.impl))
        return None
    return None


def twin_checks(rng, tier, cases):
    """same sampling written two ways (interval x / rate 1/x; rebuilt from an axis' own rate) must
    give the identical axis.  Runs the implementation only."""
    T = ts()
    fails, n = [], 0
    pool = [c for c in cases if c.meta and c.meta.get('kind') == 'uniform' and c.meta['spec']['axis'] is None
            and pattern_of(c.meta['spec']) == (1, 0, 1, 0) and c.meta['spec']['interval'][0] != 'T'
            and c.impl.startswith('ok ') and c.meta['spec']['unit'] != 'bad']
    rng.shuffle(pool)
    for c in pool[:{'quick': 250, 'thorough': 4000}[tier]]:
        sp = c.meta['spec']
        a = parse_axis(c.impl[3:])
        unit = a['unit']
        x = float(sp['interval'][1])
        hz = (1.0 / x) * (1e12 / FACTOR[unit])
        kw = {'length': sp['length'], 'sampling_rate': hz, 'time_unit': unit}
        if sp['t0'] is not None:
            kw['t0'] = real(sp['t0'])
        n += 1
        with np.errstate(all='ignore'):
            r = call(lambda: axis_obs(T.UniformTime(**kw)))
            r2 = call(lambda: axis_obs(T.UniformTime(length=sp['length'], sampling_rate=T.Frequency(a['rate']),
                                                      t0=real(('T', unit, a['t0'])), time_unit=unit)))
        for how, b in (('interval-vs-rate', r), ('rebuilt-from-rate', r2)):
            rp = {'kind': 'twin', 'how': how, 'spec': sp}
            if isinstance(b, str):
                fails.append(Failure('same-sampling/%s/raises' % how, 'twin of %s raised %s' % (c.line, b), rp))
                continue
            whole = (Fr(x) * FACTOR[unit]).denominator == 1 and a['dt'] < 2**50
            same = (b['t0'], b['dt'], b['n']) == (a['t0'], a['dt'], a['n'])
            tol = 1 + Fr(a['dt']) / 2**50      # beyond 2^50 ps one picosecond is below binary64 resolution of the rate
            if (whole and not same) or abs(b['dt'] - a['dt']) > tol or b['n'] != a['n'] or b['t0'] != a['t0']:
                sym = 'period-truncated' if b['dt'] == a['dt'] - 1 else 'differs'
                if abs(b['dt'] - a['dt']) <= tol and b['t0'] == a['t0'] and (a['n'] != sp['length'] or b['n'] != sp['length']):
                    sym = 'count-not-length'
                rp = dict(rp, key='same-sampling/%s/%s' % (how, sym))
                fails.append(Failure('same-sampling/%s/%s' % (how, sym),
                                     'interval %r %s gives (t0,dt,n)=%s but the reciprocal rate %r Hz gives %s' % (
                                         x, unit, (a['t0'], a['dt'], a['n']), hz if how == 'interval-vs-rate' else a['rate'], (b['t0'], b['dt'], b['n'])), rp))
    return fails, n


def oracle(rng, tier, seed, focus, cases=None):
    fails, n, cur_agree, cur_total = [], 0, 0, 0
    for c in (cases or []):
        if c.meta:
            n += 1
            f = check_case(c)
            if f:
                fails.append(f)
            if c.model and ' | ' in c.model:
                cur_total += 1
                cur_agree += int(c.impl == current(c.model))
    tf, tn = twin_checks(rng, tier, cases or [])
    fails += tf
    return fails, {'judged': n, 'failed': len(fails), 'twins': tn, 'focus': len(focus),
                   'impl_equals_current_variant': '%d/%d' % (cur_agree, cur_total),
                   'skipped_oversize': getattr(globals().get('cases'), 'skipped', 0)}


def _fix(v):
    """JSON round trip: lists -> tuples for tagged values"""
    if isinstance(v, list):
        return tuple(_fix(x) for x in v)
    if isinstance(v, dict):
        return {k: _fix(x) for k, x in v.items()}
    return v


def replay(d):
    m = _fix(d.get('meta'))
    kind = d['kind']
    if kind == 'twin':
        import common
        sp = _fix(d['spec'])
        c = make_uniform_case(sp)
        fs, _ = twin_checks(common.make_rng(PID, 0, 'replay'), 'quick', [c])
        fs = [f for f in fs if f.replay['how'] == d['how'] and f.key == d.get('key', f.key)]
        return fs[0] if fs else None
    if m and m.get('group'):
        shared, c = {}, None
        for gk, gsp in m['group']:
            c = make_uniform_case(gsp, shared) if gk == 'u' else make_series_case(gsp, shared)
    elif kind == 'uniform':
        c = make_uniform_case(m['spec'])
    elif kind == 'series':
        c = make_series_case(m['spec'])
    elif kind == 'series_from_time':
        c = make_series_from_time_case(m['spec'])
    elif kind == 'series_from_time_ov':
        c = make_series_from_time_ov_case(m['spec'])
    elif kind == 'heap':
        c = make_heap_case(m['spec'])
    elif kind == 'heapparts':
        c = make_heap_case(m['spec'], parts=True)
        c = c[1] if c else None
    elif kind == 'tarray':
        xk, xv = m['x']
        x = {'i': lambda: int(xv), 'n': lambda: np.int64(xv), 'x': lambda: float(xv), 'M': lambda: np.zeros((2, 2), dtype=np.int64)}[xk]()
        impl = call(lambda: (lambda t: 'ok %d %s' % (int(t), t.time_unit))(
            ts().TimeArray(x, time_unit={'bad': 'fortnight', 'none': None}.get(m['unit'], m['unit']), copy=bool(m['copy']))))
        c = Case('C02 tarray', impl, d['clause'], meta=m)
    elif kind == 'to_period':
        impl = call(lambda: 'ok %d' % int(ts().Frequency(m['hz']).to_period()))
        c = Case('C02 to_period', impl, d['clause'], meta=m)
    elif kind == 'to_period_seq':
        fobj = ts().Frequency(m['hz'])
        impl = 'ok ' + ','.join(call(lambda u=u: str(int(fobj.to_period(u)))) for u in m['units'])
        c = Case('C02 to_period_seq', impl, d['clause'], meta=m)
    elif kind == 'freq':
        impl = call(lambda: 'ok ' + f2x(float(ts().Frequency(m['f'][1], time_unit=m['unit'])))[1:])
        c = Case('C02 freq', impl, d['clause'], meta=m)
    else:
        return None
    if c and d.get('clause') and kind in ('series_from_time', 'series_from_time_ov'):
        c.clause = d['clause']      # (the large / unit-not-seconds streams re-label the clause of the ordinary case makers)
    f = check_case(c) if c else None
    # the replay is about the recorded symptom; another (recorded) finding on the same input is not it
    return f if (f and f.key == d.get('key', f.key)) else None
