"""C18, session-3 extension (helper of harness/c18.py): input families, process histories, optional parameters.

L1  dtype / layout families: every filter entry point (the four FilterAnalyzer methods, filtfilt(b, a), filtfilt(b, a, in_ts),
    nitime.algorithms.filter.boxcar_filter) on int16/int32/int64/uint8/float32/F-ordered/strided/read-only/big-endian and
    1-d / 2-d / 3-d data.  Expectation = the same entry on the variant converted to a C-contiguous float64 array (exact).
L2/L6  sandwich: read one analyzer's outputs, check that what was handed out keeps its value and aliases nothing, run
    other analyzers with other option values on the same series, scribble on everything handed out (histories.scribble),
    then fresh objects on equal input must give the first answer again (and the model's).
L3  optional parameters with non-default values (boxcar_iterations, fir_win incl. tuple windows, gpass, gstop, iir_ftype,
    filt_order, in_ts, lb=0/0.0/-0.0, ub=None/Nyquist).
L4  amplitudes 1e-300 .. 1e300 on the scale-covariant clauses (mean relative to the data's magnitude, linearity).
"""
import json
import os
import fnmatch
import random
import numpy as np
import common
import histories
from common import Case, Failure, f2x, flist, parse_flist, close_vec

METHODS = ['fir', 'iir', 'filtered_fourier', 'filtered_boxcar']
ENTRIES = METHODS + ['filtfilt', 'filtfilt_in_ts', 'boxcar_filter']
KINDS = ['int16', 'int32', 'int64', 'uint8', 'float32', 'F', 'strided', 'readonly', 'bigendian', 'f64']
FIR_WINS = ['hann', 'blackman', 'bartlett', 'nuttall', ['kaiser', 4.0], ['gaussian', 3.0], ['tukey', 0.5], 'hamming']
IIR_OPTS = [('ellip', 0.5, 40), ('ellip', 2, 30), ('cheby1', 1, 40), ('cheby1', 0.5, 20), ('cheby2', 1, 40), ('cheby2', 3, 30),
            ('butter', 1, 20), ('butter', 3, 20), ('ellip', 1, 60)]


def nt():
    import nitime.timeseries as ts
    from nitime.analysis import FilterAnalyzer
    return ts, FilterAnalyzer


# ------------------------------------------------------------------ helpers
def dec_opts(opts):
    o = dict(opts or {})
    if isinstance(o.get('fir_win'), list):
        o['fir_win'] = tuple(o['fir_win'])
    return o


def arr_of(o):
    return np.asarray(o if isinstance(o, np.ndarray) else o.data)


def lanes(a):
    a = np.asarray(a)
    return a.reshape(-1, a.shape[-1])


def tok_ub(ub):
    return 'none' if ub is None else f2x(ub)


def cmp_vec(rtol=1e-9):
    def cmp(impl, model):
        a, m = impl.split(), model.split()
        if a[0] != 'ok' or m[0] != 'ok':
            return impl == model
        return close_vec(parse_flist(a[1]), parse_flist(m[1]), rtol=rtol)
    return cmp


def cmp_nd(rtol=1e-9):
    def cmp(impl, model):
        a, m = impl.split(), model.split()
        if a[0] != 'ok' or m[0] != 'ok' or len(a) != 3 or len(m) != 3:
            return impl == model
        return a[1] == m[1] and close_vec(parse_flist(a[2]), parse_flist(m[2]), rtol=rtol)
    return cmp


def dtok(v, ref):
    """series data on the protocol: integer recordings as the integers they are (`i:` + decimals; the MODEL embeds them
    into binary64), everything else as exact binary64 hex"""
    v = np.asarray(v)
    if v.dtype.kind in 'iu':
        return 'i:' + ','.join(str(int(t)) for t in v.ravel())
    return flist(np.asarray(ref, dtype='d').ravel())


def dims_tok(shape):
    return 'x'.join(str(int(s)) for s in shape)


# ------------------------------------------------------------------ L1 / L3 / L4: one family member
def fam_cfg(xr, entry, kind, ndim, tier):
    n = xr.choice([40, 41, 48, 57, 64])
    shape = {1: (n,), 2: (xr.choice([1, 2, 3]), n), 3: (2, xr.choice([1, 2, 3]), n)}[ndim]
    fs = xr.choice([1.0, 2.0, 10.0, 250.0, 0.5])
    band = xr.choice(['lowpass', 'highpass', 'bandpass'])
    nyq = fs / 2
    a, b = xr.uniform(0.15, 0.4), xr.uniform(0.5, 0.8)
    lb = 0 if band == 'lowpass' else a * nyq
    ub = None if band == 'highpass' else b * nyq
    lbform = xr.choice(['int0', 'float0', 'negzero', 'default']) if band == 'lowpass' else 'value'
    ubform = xr.choice(['none', 'nyquist', 'default']) if band == 'highpass' else 'value'
    opts = {}
    if entry == 'fir':
        opts['filt_order'] = xr.choice([2, 4, 8, 10, 12])
        if xr.random() < 0.6:
            opts['fir_win'] = xr.choice(FIR_WINS)
    elif entry == 'iir':
        if xr.random() < 0.6:
            ft, gp, gs = xr.choice(IIR_OPTS)
            opts.update(iir_ftype=ft, gpass=gp, gstop=gs)
        if xr.random() < 0.5:
            opts['filt_order'] = xr.choice([3, 5, 8])           # not used by iir: must make no difference
    elif entry == 'filtered_boxcar':
        if xr.random() < 0.6:
            opts['boxcar_iterations'] = xr.choice([1, 3, 5])
    k = xr.randint(2, 5)
    bb = [xr.randint(-8, 8) / 8. for _ in range(k)]                 # dyadic: the same numbers in float32 / as scaled integers
    if not any(bb):
        bb[0] = 0.5
    aa = [1.0] if xr.random() < 0.5 else [1.0, xr.randint(-4, 4) / 8.]
    amp = 1.0
    if kind == 'f64' and xr.random() < 0.5:
        amp = 10.0 ** xr.choice([-300, -200, -100, -18, 18, 100, 200, 300])
    return {'kind': 'fam', 'entry': entry, 'dkind': kind, 'shape': list(shape), 'sd': xr.randint(0, 10**6), 'fs': fs, 'band': band,
            'lb': float(lb), 'ub': None if ub is None else float(ub), 'lbform': lbform, 'ubform': ubform, 'unit': xr.choice(['s', 'ms', 'us']),
            't0': xr.choice([0.0, 3.5, 120.0]), 'opts': opts, 'b': bb, 'a': aa, 'amp': amp,
            'coef': xr.choice(['ndarray', 'list', 'tuple', 'float32', 'strided', 'int8x']),
            'iters': xr.choice([1, 2, 3]) if entry == 'boxcar_filter' else None}


def fam_build(m):
    """(variant array, C-contiguous float64 copy of it — exact for every kind)"""
    nr = np.random.RandomState(m['sd'])
    shape = tuple(m['shape'])
    x = (nr.randn(*shape) * nr.uniform(0.5, 5) + nr.uniform(-20, 20, shape[:-1] + (1,))) * m.get('amp', 1.0)
    if m['dkind'] == 'f64':
        v = x
    else:
        fam = histories.dtype_family(x, None, kinds=(m['dkind'],))
        if not fam:
            return None
        v = fam[0][1]
    return v, np.array(v, dtype='d', order='C')


def band_kw(m):
    """the lb / ub arguments in the requested spelling (explicit 0, 0.0, -0.0, omitted; None, the Nyquist frequency, omitted)"""
    kw = {}
    lf = m.get('lbform', 'value')
    if lf == 'int0':
        kw['lb'] = 0
    elif lf == 'float0':
        kw['lb'] = 0.0
    elif lf == 'negzero':
        kw['lb'] = -0.0
    elif lf == 'value':
        kw['lb'] = m['lb']
    uf = m.get('ubform', 'value')
    if uf == 'none':
        kw['ub'] = None
    elif uf == 'nyquist':
        kw['ub'] = m['fs'] / 2.
    elif uf == 'value':
        kw['ub'] = m['ub']
    return kw


def fam_run(m, d):
    """the entry point on data d -> (series that must give the axis | None, result)"""
    ts, FA = nt()
    e, fs = m['entry'], m['fs']
    if e == 'boxcar_filter':
        import nitime.algorithms as tsa
        kw = {}
        if m.get('lbform', 'value') != 'default':
            kw['lb'] = m['lb'] / fs
        if m.get('ubform', 'value') != 'default':
            kw['ub'] = 0.5 if m['ub'] is None else m['ub'] / fs
        if m.get('iters') is not None:
            kw['n_iterations'] = m['iters']
        return None, tsa.boxcar_filter(d, **kw)
    T = ts.TimeSeries(d, sampling_rate=fs, t0=m['t0'], time_unit=m['unit'])
    kw = band_kw(m)
    kw.update(dec_opts(m.get('opts')))
    if e in METHODS:
        return T, getattr(FA(T, **kw), e)
    b, a = coef_form(m)
    if e == 'filtfilt':
        return T, FA(T, **kw).filtfilt(b, a)
    other = ts.TimeSeries(np.arange(7.), sampling_rate=3 * fs + 1, t0=77., time_unit='us' if m['unit'] != 'us' else 's')
    return T, FA(other, **kw).filtfilt(b, a, in_ts=T)


def coef_form(m):
    """the filter coefficients b, a in the requested spelling (all hold the same numbers; `int8x`: both scaled by 8 and
    given as integer arrays — scipy normalises by a[0])"""
    b, a = np.array(m['b'], dtype='d'), np.array(m['a'], dtype='d')
    f = m.get('coef', 'ndarray')
    if f == 'list':
        return list(m['b']), list(m['a'])
    if f == 'tuple':
        return tuple(m['b']), tuple(m['a'])
    if f == 'float32':
        return b.astype('f'), a.astype('f')
    if f == 'strided':
        bb, aa = np.zeros(2 * len(b)), np.zeros(2 * len(a))
        bb[::2], aa[::2] = b, a
        return bb[::2], aa[::2]
    if f == 'int8x':
        return (b * 8).astype('int64'), (a * 8).astype('int64')
    return b, a


def single(m):
    return m['dkind'] == 'float32' or (m['entry'].startswith('filtfilt') and m.get('coef') == 'float32')


def fam_key(m, sym):
    return 'family/%s/%s/%dd/%s' % (m['entry'], m['dkind'], len(m['shape']), sym)


_JCACHE = {}


def judge_fam(m, case=None, cache=True):
    """property clauses for one family member, on the real code only -> (failures, run) ; run = (v, ref, T1, d1) or None"""
    ck = json.dumps(m, sort_keys=True)
    if cache and ck in _JCACHE:
        fl, run = _JCACHE[ck]
        return [Failure(f.key, f.what, f.replay, case=case) for f in fl], run
    fails = []

    def fail(sym, what):
        fails.append(Failure(fam_key(m, sym), '%s on %s data of shape %s (band %s, Fs=%g, opts=%s, amplitude %g): %s' % (
            m['entry'], m['dkind'], tuple(m['shape']), m['band'], m['fs'], m.get('opts'), m.get('amp', 1.0), what), dict(m), case=case))
    built = fam_build(m)
    if built is None:
        return [], None
    v, ref = built
    keep = np.array(v)
    r0 = common.call(lambda: fam_run(m, ref.copy()))
    r1 = common.call(lambda: fam_run(m, v))
    run = None
    if isinstance(r0, str):
        # the float64 C-contiguous reference itself is refused (boxcar on 3-d data): outside the quantifier; only the
        # refusal must be the same
        if r1 != r0:
            fail('refusal-differs', 'float64 reference: %s, variant: %s' % (r0, r1 if isinstance(r1, str) else 'returns'))
        run = (v, ref, None, r0, None)
    elif isinstance(r1, str):
        fail('raises/' + r1.split()[-1], r1)
    else:
        (T0, o0), (T1, o1) = r0, r1
        d0, d1 = np.asarray(arr_of(o0), dtype='d'), arr_of(o1)
        sc = max(float(np.abs(ref).max()), 1e-300 * 0 + np.finfo('d').tiny)
        # single precision: float32 data, or float32 coefficients (scipy computes in result_type(b, a, x): with integer or
        # float32 data that is float32 — the precision the caller asked for, not a defect)
        tol = 1e-5 if single(m) else 1e-9
        if not np.array_equal(np.asarray(v), keep):
            fail('input-modified', 'the input array changed')
        if np.shares_memory(d1, v):
            fail('aliases-input', 'the result shares memory with the input data')
        if d1.shape != ref.shape:
            fail('shape', 'output shape %s, input %s' % (d1.shape, ref.shape))
        else:
            if T1 is not None:
                if o1.sampling_interval != T1.sampling_interval or not np.all(np.asarray(o1.t0) == np.asarray(T1.t0)) or o1.time_unit != T1.time_unit:
                    fail('axis', 'interval/t0/unit %r/%r/%r -> %r/%r/%r' % (T1.sampling_interval, T1.t0, T1.time_unit, o1.sampling_interval, o1.t0, o1.time_unit))
                elif len(o1.time) != len(T1.time) or not np.all(np.asarray(o1.time) == np.asarray(T1.time)):
                    fail('axis', 'time axis differs')
            if d1.dtype.kind in 'iub':
                fail('int-output', 'the result is stored as %s: filtered values are truncated (max deviation from the float64 result %.3g, channel means off by %.3g)' % (
                    d1.dtype, np.abs(d1.astype('d') - d0).max(), np.abs(lanes(d1.astype('d')).mean(1) - lanes(ref).mean(1)).max()))
                run = (v, ref, T1, np.asarray(d1, dtype='d'), None if T1 is None else axis_flags(o1, T1))
            else:
                d1 = np.asarray(d1, dtype='d')
                dv = np.abs(d1 - d0).max()
                dm = np.abs(lanes(d1).mean(1) - lanes(ref).mean(1)).max()
                if not (dm <= tol * sc):
                    fail('mean', 'channel mean changed by %.3g (scale %.3g)' % (dm, sc))
                if not (dv <= tol * max(sc, float(np.abs(d0).max()))):
                    fail('value', 'differs from the result on the float64 copy of the same numbers by %.3g (scale %.3g)' % (dv, sc))
                run = (v, ref, T1, d1, None if T1 is None else axis_flags(o1, T1))
    if cache:
        _JCACHE[ck] = (fails, run)
    return fails, run


def fam_cases(m):
    """model lines for one family member (the model follows the intended behaviour: integer input = exact embedding into
    float64, then the float path; a member the oracle fails still gets its lines whenever it returned an array)"""
    fl, run = judge_fam(m)
    if run is None:
        return []
    v, ref, T1, d1, flags = run
    out = []
    e = m['entry']
    rt = 1e-5 if single(m) else 1e-9
    meta = m
    clause = 'family/%s/%s/%dd' % (e, m['dkind'], len(m['shape']))
    if isinstance(d1, str):
        if e == 'boxcar_filter':
            out.append(Case(boxnd_line(m, ref, v), d1, clause + '/refused', meta=meta))
        return out
    L0, L1, V0 = lanes(ref), lanes(d1), lanes(v)
    pick = list(range(len(L0)))[:2]
    fsr = m['fs'] if T1 is None else float(T1.sampling_rate)
    bk = band_kw(m)
    lbv, ubv = float(bk.get('lb', 0)), bk.get('ub', None)
    if e == 'filtered_fourier':
        for c in pick:
            out.append(Case('C18 fourier %s %s %s %s' % (f2x(fsr), f2x(lbv), tok_ub(ubv), dtok(V0[c], L0[c])), 'ok ' + flist(L1[c]), clause, cmp=cmp_vec(rt), meta=meta))
    elif e == 'filtered_boxcar':
        it = dec_opts(m.get('opts')).get('boxcar_iterations', 2)
        ubf = 1.0 if ubv is None else ubv / fsr
        out.append(Case('C18 boxcarnd %s %d %s %s %s' % (dims_tok(ref.shape), it, f2x(lbv / fsr), f2x(ubf), dtok(v, ref)),
                        'ok %s %s' % (dims_tok(d1.shape), flist(d1.ravel())), clause, cmp=cmp_nd(rt), meta=meta))
    elif e == 'boxcar_filter':
        out.append(Case(boxnd_line(m, ref, v), 'ok %s %s' % (dims_tok(d1.shape), flist(d1.ravel())), clause, cmp=cmp_nd(rt), meta=meta))
    elif e in ('filtfilt', 'filtfilt_in_ts'):
        from scipy import signal
        for c in pick[:1]:
            raw = signal.filtfilt(np.array(m['b']), np.array(m['a']), L0[c])
            out.append(Case('C18 restoredc %s %s' % (dtok(V0[c], L0[c]), flist(raw)), 'ok ' + flist(L1[c]), clause, cmp=cmp_vec(rt), meta=meta))
    if flags is not None and m['t0'] != 0:
        # axis of the result vs the series that must provide it (in_ts for filtfilt(in_ts=...))
        out.append(Case('C18 axis %s' % ('filtfilt' if e.startswith('filtfilt') else e), 'ok %d %d %d' % flags, clause + '/axis', meta=meta))
    return out


def boxnd_line(m, ref, v=None):
    fs = m['fs']
    lbf = 0.0 if m.get('lbform', 'value') == 'default' else m['lb'] / fs
    ubf = 0.5 if (m.get('ubform', 'value') == 'default' or m['ub'] is None) else m['ub'] / fs
    it = 2 if m.get('iters') is None else m['iters']
    return 'C18 boxcarnd %s %d %s %s %s' % (dims_tok(ref.shape), it, f2x(lbf), f2x(ubf), dtok(ref if v is None else v, ref))


def family_members(seed, tier):
    xr = random.Random('C18-family-%d' % seed)
    out = []
    reps = 6 if tier == 'thorough' else 2
    for _ in range(reps):
        for e in ENTRIES:
            for k in KINDS:
                for nd in (1, 2, 3):
                    if k == 'F' and nd == 1:
                        continue
                    out.append(fam_cfg(xr, e, k, nd, tier))
    return out


def axis_flags(o, T):
    return (int(o.sampling_interval == T.sampling_interval), int(np.all(np.asarray(o.t0) == np.asarray(T.t0))), int(o.time_unit == T.time_unit))


# ------------------------------------------------------------------ refused option values (model: error tokens)
def refusal_cases(seed):
    """explicit falsy / degenerate option values the code refuses: boxcar_iterations=0 (nothing is convolved),
    3-d data for the boxcar; the model refuses them the same way"""
    import nitime.algorithms as tsa
    xr = random.Random('C18-refuse-%d' % seed)
    out = []
    for shape, it in (((9,), 0), ((2, 9), 0), ((2, 2, 9), 2), ((1, 1, 8), 1), ((3, 10), 1), ((10,), 3)):
        x = np.array([xr.randint(-9, 9) for _ in range(int(np.prod(shape)))], dtype='d').reshape(shape)
        lbf, ubf = xr.choice([(0.0, 0.25), (0.125, 0.5), (0.1, 0.3)])
        r = common.call(lambda: tsa.boxcar_filter(x.copy(), lb=lbf, ub=ubf, n_iterations=it))
        impl = r if isinstance(r, str) else 'ok %s %s' % (dims_tok(np.shape(r)), flist(np.ravel(r)))
        out.append(Case('C18 boxcarnd %s %d %s %s %s' % (dims_tok(shape), it, f2x(lbf), f2x(ubf), flist(x.ravel())), impl,
                        'boxcar/nd/' + ('refused' if isinstance(r, str) else 'runs'), cmp=cmp_nd(), meta={'kind': 'boxnd'}))
    return out


# ------------------------------------------------------------------ L2 / L6: sandwich histories
def sandwich(sd, want_cases=False):
    """-> (Failure | None, [Case])"""
    ts, FA = nt()
    import nitime.algorithms as tsa
    from scipy import signal
    rng = random.Random(sd)
    nr = np.random.RandomState(sd)
    rep = {'kind': 'sandwich', 'sd': sd}
    n = rng.choice([48, 49, 64, 75])
    nch = rng.choice([1, 2, 3])
    flat = nch == 1 and rng.random() < 0.5
    fs = rng.choice([1.0, 10.0, 250.0])
    band = rng.choice(['lowpass', 'highpass', 'bandpass'])
    lb = 0 if band == 'lowpass' else 0.25 * fs / 2
    ub = None if band == 'highpass' else 0.6 * fs / 2
    unit = rng.choice(['s', 'ms', 'us'])
    kw = dict(lb=lb, ub=ub, filt_order=rng.choice([4, 8]))
    if rng.random() < 0.5:
        kw.update(fir_win=dec_opts({'fir_win': rng.choice(FIR_WINS)})['fir_win'], boxcar_iterations=rng.choice([1, 2, 3]))
        ft, gp, gs = rng.choice(IIR_OPTS)
        kw.update(iir_ftype=ft, gpass=gp, gstop=gs)
    D = nr.randn(nch, n) * 3 + nr.uniform(-5, 5, (nch, 1))
    if flat:
        D = D[0]
    b = nr.uniform(-1, 1, rng.randint(2, 5))
    a = np.array([1.0, rng.uniform(-0.5, 0.5)])
    lbf, ubf = lb / fs, (0.5 if ub is None else ub / fs)

    def series(d):
        return ts.TimeSeries(d, sampling_rate=fs, t0=2.5, time_unit=unit)

    def other_series():
        return ts.TimeSeries(nr.randn(n + 5), sampling_rate=2 * fs, t0=9.0, time_unit='ms')

    def snap(o):
        return np.array(arr_of(o), dtype='d', copy=True)

    def bad(sym, what):
        return Failure('sandwich/' + sym, 'history sd=%d (n=%d nch=%d Fs=%g %s unit=%s options=%s): %s' % (sd, n, nch, fs, band, unit, {k: v for k, v in kw.items() if k not in ('lb', 'ub')}, what), rep), []

    def same(x, y):
        x, y = np.asarray(x, dtype='d'), np.asarray(y, dtype='d')
        return x.shape == y.shape and bool(np.all(np.abs(x - y) <= 1e-12 * max(1.0, np.abs(y).max())))

    def thunks(T, fa, arr):
        return {'fir': lambda: fa.fir, 'iir': lambda: fa.iir, 'filtered_fourier': lambda: fa.filtered_fourier,
                'filtered_boxcar': lambda: fa.filtered_boxcar, 'filtfilt': lambda: fa.filtfilt(b, a),
                'filtfilt_in_ts': lambda: FA(other_series(), **kw).filtfilt(b, a, in_ts=T),
                'boxcar_filter': lambda: tsa.boxcar_filter(arr, lb=lbf, ub=ubf)}
    order = ENTRIES[:]
    rng.shuffle(order)
    arr = D.copy()
    T = series(D.copy())
    fa = FA(T, **kw)
    S = histories.Sandwich(snap)
    th = thunks(T, fa, arr)
    for e in order:
        S.add(e, th[e])
        for tag, _, r, sn in S.items:                       # L6: every result handed out so far still holds its value
            if not same(arr_of(r), sn):
                return bad('%s/handed-out-result-changed' % tag, 'the %s result changed when %s was read afterwards' % (tag, e))
    if not same(T.data, D) or not same(arr, D):
        return bad('input-modified', 'the input data changed while the outputs were read')
    objs = [(tag, arr_of(r)) for tag, _, r, _ in S.items]
    for i, (t1, x1) in enumerate(objs):
        if np.shares_memory(x1, T.data) or np.shares_memory(x1, arr):
            return bad('%s/aliases-input' % t1, 'the %s result shares memory with the input data' % t1)
        for t2, x2 in objs[i + 1:]:
            if np.shares_memory(x1, x2):
                return bad('aliases/%s' % '+'.join(sorted([t1, t2])), 'the %s and %s results share memory' % (t1, t2))
    # ResetMixin.reset() drops the stored one-time attributes: re-reading recomputes them, from an input that is untouched
    if rng.random() < 0.5:
        fa.reset()
        for e in METHODS:
            r = common.call(th[e])
            if isinstance(r, str):
                return bad('%s/raises-after-reset' % e, r)
            sn = [it[3] for it in S.items if it[0] == e][0]
            if not same(arr_of(r), sn):
                return bad('%s/differs-after-reset' % e, 'after reset() the %s output differs from the first one' % e)
            S.items.append([e, th[e], r, snap(r)])
    # no band at all (lb=0, ub=None: everything is kept): still a fresh series with the input's mean, shape and axis
    Tall = series(D.copy())
    for e in ('fir', 'filtered_fourier', 'filtered_boxcar'):
        r = common.call(lambda: getattr(FA(Tall, filt_order=kw['filt_order']), e))
        if isinstance(r, str):
            return bad('%s/all-pass/raises' % e, r)
        x = arr_of(r)
        if np.shares_memory(x, Tall.data):
            return bad('%s/all-pass/aliases-input' % e, 'with no band edge the %s result shares memory with the input data' % e)
        if x.shape != D.shape or np.abs(lanes(x).mean(1) - lanes(D).mean(1)).max() > 1e-9 * np.abs(D).max() or axis_flags(r, Tall) != (1, 1, 1):
            return bad('%s/all-pass/mean-shape-axis' % e, 'with no band edge the %s result has another shape, mean or axis than the input' % e)
        if e == 'filtered_fourier' and np.abs(x - D).max() > 1e-9 * np.abs(D).max():
            return bad('%s/all-pass/not-identity' % e, 'every component is in band, yet the output differs from the input by %.3g' % np.abs(x - D).max())
        S.items.append([e + '/all-pass', None, r, snap(r)])

    class SubAnalyzer(FA):                                   # a derived class sharing whatever the base class keeps per class
        pass
    # perturbation: other analyzers with other option values on the SAME series, other coefficients, other data
    kw2 = dict(lb=0.1 * fs / 2, ub=0.45 * fs / 2, filt_order=6, fir_win='blackman', iir_ftype='cheby1', gpass=2, gstop=30, boxcar_iterations=4)
    fb = FA(T, **kw2)
    T3 = series(D.copy() * 2 + 1)
    variants = [lambda: fb.fir, lambda: fb.iir, lambda: fb.filtered_fourier, lambda: fb.filtered_boxcar,
                lambda: fb.filtfilt(b[::-1].copy(), np.array([1.0])), lambda: FA(T, lb=lb).filtered_fourier,
                lambda: FA(T3, **kw).fir, lambda: FA(T3, **kw).iir, lambda: FA(T3, **kw).filtered_boxcar, lambda: FA(T3, **kw).filtered_fourier,
                lambda: tsa.boxcar_filter(arr, lb=0.1, ub=0.2, n_iterations=3), lambda: fa.filtfilt(b, a, in_ts=T3),
                lambda: SubAnalyzer(T, **kw2).fir, lambda: SubAnalyzer(T3, **kw).iir, lambda: SubAnalyzer(T, **kw2).filtered_fourier,
                lambda: SubAnalyzer(T3, **kw2).filtered_boxcar, lambda: SubAnalyzer(T3).filtfilt(b, a, in_ts=T)]
    S.perturb(variants, scribble_results=False)
    for tag, _, r, sn in S.items:
        if not same(arr_of(r), sn):
            return bad('%s/handed-out-result-changed' % tag, 'the %s result changed after other analyzers / options were used on the same series' % tag)
    if not same(T.data, D) or not same(arr, D):
        return bad('input-modified', 'the input data changed while other analyzers were used')
    S.perturb(variants, scribble_results=True)              # now overwrite everything that was handed out, and the inputs
    histories.scribble(T)
    histories.scribble(arr)
    histories.scribble(T3)
    cases = []
    arr2 = D.copy()
    T2 = series(D.copy())
    th2 = thunks(T2, FA(T2, **kw), arr2)
    for tag, _, _, sn in S.items[:len(ENTRIES)]:
        r2 = common.call(th2[tag])
        if isinstance(r2, str):
            return bad('%s/raises-after-perturbation' % tag, r2)
        if not same(arr_of(r2), sn):
            return bad('%s/differs-after-perturbation' % tag, 'a fresh %s on equal input differs from the first result by %.3g' % (tag, np.abs(snap(r2) - sn).max()
                                                                                                                   if snap(r2).shape == sn.shape else float('nan')))
        if want_cases:
            L0, L1 = lanes(D), lanes(snap(r2))
            fsr = float(T2.sampling_rate)
            cl = 'sandwich/' + tag
            if tag == 'filtered_fourier':
                cases.append(Case('C18 fourier %s %s %s %s' % (f2x(fsr), f2x(float(lb)), tok_ub(None if ub is None else float(ub)), flist(L0[0])),
                                  'ok ' + flist(L1[0]), cl, cmp=cmp_vec(), meta=rep))
            elif tag == 'filtered_boxcar':
                cases.append(Case('C18 boxcarnd %s %d %s %s %s' % (dims_tok(D.shape), kw.get('boxcar_iterations', 2), f2x(lb / fsr), f2x(1.0 if ub is None else ub / fsr), flist(D.ravel())),
                                  'ok %s %s' % (dims_tok(snap(r2).shape), flist(snap(r2).ravel())), cl, cmp=cmp_nd(), meta=rep))
            elif tag == 'boxcar_filter':
                cases.append(Case('C18 boxcarnd %s 2 %s %s %s' % (dims_tok(D.shape), f2x(lbf), f2x(ubf), flist(D.ravel())),
                                  'ok %s %s' % (dims_tok(snap(r2).shape), flist(snap(r2).ravel())), cl, cmp=cmp_nd(), meta=rep))
            elif tag in ('filtfilt', 'filtfilt_in_ts'):
                raw = signal.filtfilt(b, a, L0[0])
                cases.append(Case('C18 restoredc %s %s' % (flist(L0[0]), flist(raw)), 'ok ' + flist(L1[0]), cl, cmp=cmp_vec(), meta=rep))
            if tag in METHODS + ['filtfilt', 'filtfilt_in_ts']:
                Tax = T2
                cases.append(Case('C18 axis %s' % ('filtfilt' if tag.startswith('filtfilt') else tag), 'ok %d %d %d' % axis_flags(r2, Tax), 'sandwich/axis/' + tag, meta=rep))
    return None, cases


# ------------------------------------------------------------------ L3: option equivalences that the property implies
def option_equiv(sd):
    """ub=None means the Nyquist frequency; lb=0, 0.0, -0.0 and the default are the same band; filt_order is not used by
    iir / the boxcar / the Fourier filter: equal bands must give equal outputs (each of them is THE filter for that band)"""
    ts, FA = nt()
    rng = random.Random(sd)
    nr = np.random.RandomState(sd)
    rep = {'kind': 'optequiv', 'sd': sd}
    n = rng.choice([48, 49, 64])
    fs = rng.choice([1.0, 10.0, 250.0, 0.5])
    D = nr.randn(rng.choice([1, 2]), n) * 3 + 2
    for m in METHODS:
        base = dict(filt_order=8)

        def out(**kw):
            return np.array(getattr(FA(ts.TimeSeries(D.copy(), sampling_rate=fs), **dict(base, **kw)), m).data, dtype='d')
        lbv = 0.3 * fs / 2
        ubv = 0.6 * fs / 2
        sets = [('ub-none-vs-nyquist', [dict(lb=lbv, ub=None), dict(lb=lbv, ub=fs / 2.), dict(lb=lbv)]),
                ('lb-zero-spellings', [dict(lb=0, ub=ubv), dict(lb=0.0, ub=ubv), dict(lb=-0.0, ub=ubv), dict(ub=ubv)])]
        for name, kws in sets:
            rs = [common.call(lambda: out(**k)) for k in kws]
            for k, r in zip(kws, rs):
                if isinstance(r, str):
                    return Failure('options/%s/%s/raises' % (m, name), '%s with %s raised %s (n=%d Fs=%g)' % (m, k, r, n, fs), rep)
            for k, r in zip(kws[1:], rs[1:]):
                if r.shape != rs[0].shape or np.abs(r - rs[0]).max() > 1e-12 * max(1.0, np.abs(rs[0]).max()):
                    return Failure('options/%s/%s' % (m, name), '%s: %s and %s describe the same band but give different outputs (n=%d Fs=%g)' % (m, kws[0], k, n, fs), rep)
    return None


# ------------------------------------------------------------------ L3: where every optional parameter arrives (observed from outside)
def observe_optflow():
    """run fir / iir / filtered_boxcar with sentinel option values and watch, from outside, at which argument of
    scipy.signal.firwin / iirdesign / nitime.algorithms.boxcar_filter each one arrives"""
    import scipy.signal as sps
    import nitime.algorithms as tsa
    ts, FA = nt()
    sent = {'fir_win': ('kaiser', 3.25), 'gpass': 0.75, 'gstop': 33.25, 'iir_ftype': 'cheby1', 'boxcar_iterations': 3}
    seen = {}

    def spy(name, orig):
        def f(*a, **k):
            for pn, val in sent.items():
                for i, v in list(enumerate(a)) + list(k.items()):
                    if type(v) is type(val) and v == val:
                        seen[pn] = '%s.%s' % (name, i)
            return orig(*a, **k)
        return f
    orig = (sps.firwin, sps.iirdesign, tsa.boxcar_filter)
    sps.firwin, sps.iirdesign, tsa.boxcar_filter = spy('signal.firwin', orig[0]), spy('signal.iirdesign', orig[1]), spy('tsa.boxcar_filter', orig[2])
    try:
        T = ts.TimeSeries(np.random.RandomState(3).randn(2, 90) + 1, sampling_rate=1.)
        fa = FA(T, lb=0.1, ub=0.3, filt_order=8, **sent)
        for m in ('fir', 'iir', 'filtered_boxcar'):
            r = common.call(lambda: getattr(fa, m))
            if isinstance(r, str):
                return r
    finally:
        sps.firwin, sps.iirdesign, tsa.boxcar_filter = orig
    return 'ok ' + ' '.join('%s>%s' % (pn, seen.get(pn, '?')) for pn in sent)


# ------------------------------------------------------------------ L2: order of calls, judged against a FRESH PROCESS
def order_batch(seed):
    """configurations that differ from their neighbour in ONE option value only (same data, band, order): a module- or
    class-level memo whose key forgets a parameter returns the neighbour's design / result for one of the two orders"""
    xr = random.Random('C18-order-%d' % seed)
    out = []
    for g in range(3):
        n = xr.choice([90, 91, 120])
        fs = xr.choice([1.0, 10.0])
        band = xr.choice(['lowpass', 'highpass', 'bandpass'])
        lb = 0 if band == 'lowpass' else 0.25 * fs / 2
        ub = None if band == 'highpass' else 0.6 * fs / 2
        sd = xr.randint(0, 10**6)
        base = dict(lb=lb, ub=ub, filt_order=xr.choice([6, 8]))
        w1, w2 = xr.sample(FIR_WINS, 2)
        i1, i2 = xr.sample(IIR_OPTS, 2)
        for m, opts in (('fir', {'fir_win': w1}), ('fir', {'fir_win': w2}), ('fir', {'fir_win': w1, 'filt_order': 10}),
                        ('iir', dict(iir_ftype=i1[0], gpass=i1[1], gstop=i1[2])), ('iir', dict(iir_ftype=i2[0], gpass=i2[1], gstop=i2[2])),
                        ('iir', dict(iir_ftype=i1[0], gpass=i1[1], gstop=i2[2] + 5)),
                        ('filtered_boxcar', {'boxcar_iterations': 1}), ('filtered_boxcar', {'boxcar_iterations': 3}),
                        ('filtered_fourier', {}), ('filtered_fourier', {'ub': None if ub is not None else 0.7 * fs / 2}),
                        ('filtered_boxcar', {'lb': 0.35 * fs / 2})):
            out.append({'m': m, 'n': n, 'fs': fs, 'sd': sd, 'kw': dict(base, **opts)})
        for m in METHODS:                                      # same length and band edges in Hz, twice the sampling rate
            out.append({'m': m, 'n': n, 'fs': 2 * fs, 'sd': sd, 'kw': dict(base)})
    return out


def order_run(batch, reverse):
    ts, FA = nt()
    res = {}
    idx = list(range(len(batch)))
    if reverse:
        idx.reverse()
    for i in idx:
        c = batch[i]
        d = np.random.RandomState(c['sd']).randn(2, c['n']) * 3 + 1.5
        r = common.call(lambda: getattr(FA(ts.TimeSeries(d, sampling_rate=c['fs']), **dec_opts(c['kw'])), c['m']).data)
        res[i] = r if isinstance(r, str) else flist(np.asarray(r, dtype='d').ravel())
    return [res[i] for i in range(len(batch))]


def order_history(seed):
    """this process (which has run the whole check before) in order 0..K-1  vs  a fresh interpreter in order K-1..0"""
    import subprocess
    import sys
    batch = order_batch(seed)
    here = order_run(batch, False)
    code = ('import sys, json; sys.path.insert(0, %r); import common; sys.path.insert(0, common.REPO); import c18_ext as X; '
            'print("RESULT" + json.dumps(X.order_run(X.order_batch(%d), True)))' % (os.path.dirname(os.path.abspath(__file__)), seed))
    p = subprocess.run([sys.executable, '-W', 'ignore', '-c', code], capture_output=True, text=True, timeout=300)
    line = [l for l in p.stdout.splitlines() if l.startswith('RESULT')]
    if not line:
        return Failure('order/fresh-process/raises', 'the fresh process failed: ' + (p.stderr or p.stdout)[-300:], {'kind': 'order', 'seed': seed})
    there = json.loads(line[0][6:])
    for i, (a, b) in enumerate(zip(here, there)):
        ok = a == b
        if not ok and not a.startswith('err') and not b.startswith('err'):
            x, y = np.array(parse_flist(a)), np.array(parse_flist(b))
            ok = x.shape == y.shape and bool(np.all(np.abs(x - y) <= 1e-12 * max(1.0, np.abs(y).max())))
        if not ok:
            c = batch[i]
            return Failure('order/%s/differs-from-fresh-process' % c['m'],
                           '%s with %s (n=%d Fs=%g) gives another result after the other calls of this process than as one of the first calls of a fresh process (reverse order)' % (
                               c['m'], c['kw'], c['n'], c['fs']), {'kind': 'order', 'seed': seed})
    return None
