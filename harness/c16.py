"""C16 — operations never corrupt their operands, copies or inputs (also when they fail).

Correspondence (vs the Lean object-store model `Nitime.C16`): time operators with every operand
kind (result AND operand afterwards), TimeArray element assignment, the operand of
UniformTime += / -= (accepted, non-uniform, one element), TimeSeries arithmetic / copy / in-place
on a copy, and periodogram_csd's shape handling at every exit (success, failing middle step,
non-contiguous input), and utils.crosscov (values and inputs afterwards) on integer-valued signals incl.
exactly-zero-mean ones.  The driver answers `<repaired model> ## <source-as-it-stands model>`;
the implementation has to follow the repaired one.
Oracle (never the model): byte snapshots (data, shape, strides, dtype) of every argument around
every call — the cases above, every public function of nitime.algorithms, every analyzer output,
calls made to fail (bad NFFT, mismatched shapes, non-uniform increments, non-contiguous input) —
and identity / content checks on copies followed by in-place operations.
Session 3 (helpers in c16_ext.py): every plain array argument re-stored in 13 other representations (integer / float32 / complex64 / bool / big-endian /
Fortran / strided / extra leading axes); per family a process history (all entries; results handed out stay what they were; no memory shared between a
result and an argument or another result; other sizes and other values; the caller overwrites every result; all entries again on equal fresh buffers =>
equal results; analyzers likewise, plus another recording in between); every optional parameter with non-default and falsy values; ALMOST uniform operands.
"""
import operator, re
import numpy as np
from common import Case, Failure, err_kind, np_rng, f2x, parse_flist
import c01

PID = 'C16'
LEAN_TARGETS = ['Nitime.Props.C16']
RULE = ('operators x operand kinds {pyint, list, int64/int32/float64 array, time object} x units; setitem keys/operands; += / -= operands '
        '(uniform, non-uniform, 1 element, wrong length); series arithmetic; periodogram_csd shapes 1-4 d x contiguity x failure; '
        'crosscov on integer-valued signals (generic / antisymmetric = exactly zero mean / pre-centred / zero / constant) x all_lags x debias x normalize; '
        'entry-point sweep over nitime.algorithms + the array routines of nitime.utils + every analyzer (constructor and every output), each call over '
        '19 input families (generic, exactly-zero-mean, centred, zeros, constant, unit variance, unit norm, sorted, integer-valued, int64, float32, complex, '
        'NaN, masked, Fortran, non-contiguous, one channel, short; and EVERY plain array argument of every entry re-stored as int16/int32/int64/uint8/bool/float32/complex64/'
        'big-endian/Fortran/strided) with injected failures, once on writable and once on read-only buffers; process history per family: all entries, L6 re-check of every '
        'result handed out, other-size pass, caller overwrites every result, third pass on equal fresh buffers => equal result; results may not share memory with arguments / '
        'other results; every optional parameter left at its default set to non-default and falsy values; += / -= operands that are ALMOST ramps (one sample off by 1..7 in a step of 1e5..1e9); '
        'round 2 (c16_r2.py): `seriescopy` lines = copy()/+,-,* on series whose metadata is a generated container graph (dict/list/ndarray nodes, immutable values, un-deep-copyable '
        'handles lock/generator/file/__deepcopy__-raiser at the top level and nested) x operand shapes (equal, one element, refused) x .time read/unread; oracle with twin recipes: '
        'metadata recipes x {copy, +,-,*,/ scalar/array/series, bad shape, /0, None, str, copy.copy, copy.deepcopy} x {float64,int64} x .time read/unread, series sharing ONE metadata dict / ONE axis; '
        'every registry entry made to fail part-way (last channel NaN / zeros, second array one sample short, None for a needed value, negative numeric keywords, unknown method / NFFT<0 / Fs=None in the method dict, invalid unit); '
        'every entry with two equal-shaped plain arrays with the second the same object / view / transposed-and-back / reversed view / overlapping slice / interleaved rows; analyzers with refused configurations x '
        '{generic, zero last channel, NaN last channel} (inputs unchanged, attributes left by failed reads, re-reads = fresh analyzer, next ordinary call on the same series), seeds that are views of targets, events that are a view of the data; '
        'distinct = distinct protocol line / entry point x family')
ASSUMPTIONS = ['the algorithm entry points other than remove_bias/crosscov are judged by snapshots and by the static alias table only (no value model in Lean)',
               'functions documented as working in place are excluded: normalize_coherence(copy=False), normal_coherence_to_unit(out=), unwrap_phases, fill_diagonal, tridi_inverse_iteration(x0=) — named in Props.C16.inPlaceByContract',
               'a result must not share memory with an argument or with the result of another call, except where the routine hands back (a view of) its argument by design: zero_pad at full length, ar_generator(v=), the in-place-by-contract routines, multi_intersect of one array, indexing / slicing / during / at of time objects and series, TimeSeries(data) and Events(t, key=array) wrapping the arrays they are given, a series\' stored .time — c16_ext.RESULT_MAY_BE_ARGUMENT, mirrored by Props.C16.mayReturnArgument on the generated table',
               'a second call with equal arguments must give the equal result up to 1e-9 of the largest magnitude (the global numpy generator is put into the same state before both calls)',
               'metadata graphs of the `seriescopy` lines are trees (no object shared between two slots, no cycles): python\'s deepcopy memo (sharing inside the copy) is not modelled; the oracle recipes are ordinary nested python values',
               'copy.copy(series) is python\'s shallow copy (shares by contract): only "the call itself changes nothing" is judged for it; an iterative routine that does not terminate on a spoiled input is cut off after 5 s (its arguments are still compared)',
               'optional parameters are varied one at a time over a name-keyed value table (c16_ext.NAME_VALUES) plus type-derived non-default / falsy values; parameters that ARE the in-place switch (copy, out, x0) are not varied']
TRUSTED_EXTRA = ['numpy view/copy semantics (ndarray.reshape, astype, copy, asarray, squeeze, conj …) by their documented behaviour, as classified in harness/translate_c16.py (fresh / same object / view)',
                 'harness/translate_c16.py: intraprocedural may-alias analysis with per-file function summaries (its table is echoed into the evidence); unknown calls are treated as returning any of their arguments',
                 'scipy fftconvolve = full linear convolution (the crosscov model computes it naively on rationals; compared numerically on every run)',
                 'the C01 model for operator result values (checked by the C01 run)',
                 'copy.deepcopy by its documented semantics on dict / list / ndarray graphs: every container reached is rebuilt, immutable values are shared, an object that cannot be pickled / whose __deepcopy__ raises makes it raise (Model/C16Copy.deepCopy; compared with the real copy() on every run)',
                 'harness/translate_c16.py gen_c16copypath: which handlers re-raise on every path, which names reach `metadata=` (its table is echoed into the evidence)']

UNITS = c01.UNITS
FACTOR = c01.FACTOR


def ts():
    import nitime.timeseries as t
    return t


# ------------------------------------------------------------------ snapshots
def snap(x, depth=0):
    """a value that changes iff the object (or anything reachable that the library could write to) changes"""
    t = ts()
    if isinstance(x, t.TimeSeriesBase):
        d = {'data': snap(x.data), 'unit': x.time_unit, 'meta': snap(getattr(x, 'metadata', None))}
        for a in ('t0', 'sampling_interval', 'sampling_rate', 'duration'):
            if a in x.__dict__:
                d[a] = snap(x.__dict__[a])
        if 'time' in x.__dict__:
            d['time'] = snap(x.__dict__['time'])
        return ('TS', tuple(sorted(d.items())))
    if isinstance(x, np.ndarray):
        extra = ()
        if isinstance(x, t.UniformTime):
            extra = tuple((a, snap(np.asarray(getattr(x, a, None)))) for a in ('t0', 'sampling_interval', 'duration')) + \
                    (('rate', repr(float(getattr(x, 'sampling_rate', 0)))), ('unit', x.time_unit),
                     ('factor', repr(getattr(x, '_conversion_factor', None))))
        elif isinstance(x, t.TimeArray):
            extra = (('unit', x.time_unit), ('factor', repr(getattr(x, '_conversion_factor', None))))
        strides = tuple(st if n > 1 else 0 for st, n in zip(x.strides, x.shape))
        return ('A', str(x.dtype), x.shape, strides, np.asarray(x).tobytes() if x.dtype != object else repr(x.tolist()), extra)
    if isinstance(x, t.Epochs):
        return ('Ep', snap(x.data))
    if isinstance(x, t.Events):
        return ('Ev', snap(x.time), snap(getattr(x, 'data', None)))
    if isinstance(x, dict):
        return ('D', tuple((repr(k), snap(v, depth + 1)) for k, v in sorted(x.items(), key=lambda kv: repr(kv[0]))))
    if isinstance(x, (list, tuple)):
        return ('L', type(x).__name__, tuple(snap(v, depth + 1) for v in x))
    return ('V', repr(x))


def differs(a, b):
    """which aspect of an array snapshot changed"""
    if a == b:
        return None
    if a[0] == 'TS' and b[0] == 'TS':
        # the lazily created time axis of a series (a cache filled by the first read of `.time`) is not a change of the series
        d0, d1 = dict(a[1]), dict(b[1])
        if 'time' not in d0:
            d1.pop('time', None)
        if d0 == d1:
            return None
    if a[0] == 'A' and b[0] == 'A':
        if a[2] != b[2]:
            return 'shape-changed'
        if a[3] != b[3]:
            return 'strides-changed'
        if a[1] != b[1]:
            return 'dtype-changed'
        if a[4] != b[4]:
            return 'values-changed'
        return 'attributes-changed'
    return 'changed'


# ------------------------------------------------------------------ correspondence cases
KINDS = ['time', 'pyint', 'list', 'int64', 'int32', 'float64']


def cmp_fixed(impl, model):
    return impl == model.split(' ## ')[0]


def cmp_uniform_float(impl, model):
    """a float64 operand that passes the conversion and uniformity check (model: `ok d`) is then refused by numpy's
    in-place add into the int64 axis (TypeError: same-kind casting); a refusal by the check itself must be the same"""
    m = model.split(' ## ')[0]
    if m.startswith('ok '):
        return impl == 'err TypeError operand=' + m.split(' operand=', 1)[1]
    return impl == m


def operand_tok(kind, vals, meta=None):
    if kind == 'pyint':
        return 'i:%d' % vals[0]
    if kind == 'list':
        return 'l:' + ','.join(map(str, vals))
    if kind == 'int64':
        return 'a:' + ','.join(map(str, vals))
    if kind == 'int32':
        return 'a32:' + ','.join(map(str, vals))
    if kind == 'float64':
        return 'f:' + ','.join(f2x(float(v)) for v in vals)
    return c01.tok_T(*meta)


def operand_obj(kind, vals, meta=None):
    if kind == 'pyint':
        return int(vals[0])
    if kind == 'list':
        return list(vals)
    if kind == 'int64':
        return np.array(vals, dtype=np.int64)
    if kind == 'int32':
        return np.array(vals, dtype=np.int32)
    if kind == 'float64':
        return np.array(vals, dtype=np.float64)
    return c01.mk_T(*meta)


def operand_after(kind, obj, vals):
    if kind == 'int64':
        return ','.join(str(int(v)) for v in obj.reshape(-1)) if obj.dtype == np.int64 else 'dtype:' + str(obj.dtype)
    if kind == 'int32':
        return ','.join(str(int(v)) for v in obj.reshape(-1)) if obj.dtype == np.int32 else 'dtype:' + str(obj.dtype)
    if kind == 'float64':
        return ','.join(f2x(float(v)) for v in obj.reshape(-1)) if obj.dtype == np.float64 else 'dtype:' + str(obj.dtype)
    if kind == 'list':
        return 'same' if obj == list(vals) else 'changed'
    if kind == 'pyint':
        return 'same' if obj == vals[0] else 'changed'
    return 'same'


def small_ints(rng, n, unit):
    top = min(10**6, (2**61) // FACTOR[unit] // 8)
    return [rng.randint(-top, top) if rng.random() < 0.7 else rng.choice([0, 1, -1, 2]) for _ in range(n)]


def small_floats(rng, n, unit):
    """float64 operand values: |x * factor| stays far inside int64 and the normal binary64 range; value-dependent
    short cuts (zeros, whole numbers, halves that round to even) are drawn on purpose"""
    top = min(10.0**6, (2**61) / FACTOR[unit] / 8)
    mode = rng.random()
    out = []
    for _ in range(n):
        if mode < 0.15:
            out.append(0.0)
        elif mode < 0.35:
            out.append(float(rng.randint(-int(top), int(top))) if top >= 1 else 0.0)
        elif mode < 0.5:
            out.append((rng.randint(-1000, 1000) + 0.5) / FACTOR[unit])      # a product near k + 1/2: the rounding direction matters
        else:
            out.append(round(rng.uniform(-top, top), rng.choice([1, 3, 6, 12])))
    return out


def kind_vals(rng, kind, n, unit):
    if kind == 'float64':
        return small_floats(rng, n, unit)
    if kind == 'int32':
        top = min(10**6, (2**61) // FACTOR[unit] // 8, 2**31 - 1)
        return [rng.randint(-top, top) if rng.random() < 0.7 else rng.choice([0, 1, -1, 2]) for _ in range(n)]
    return small_ints(rng, n, unit)


def gen_binop(rng, op, kind):
    ua = rng.choice(UNITS)
    n = rng.randint(1, 4)
    ps = [rng.randint(-10**15, 10**15) for _ in range(n)]
    meta = None
    if kind == 'time':
        ub = rng.choice(UNITS)
        meta = (ub, False, [rng.randint(-10**15, 10**15) for _ in range(rng.choice([1, n]))])
        vals = meta[2]
    elif kind == 'pyint':
        vals = small_ints(rng, 1, ua)
    else:
        vals = kind_vals(rng, kind, rng.choice([1, n, n]), ua)
    fn = c01.OPS_AR.get(op) or c01.OPS_CMP[op]
    canon = c01.canon_T if op in c01.OPS_AR else c01.canon_B
    obj = operand_obj(kind, vals, meta)
    before = snap(obj)
    try:
        res = 'ok ' + canon(fn(c01.mk_T(ua, False, ps), obj))
    except Exception:  # noqa
        res = 'err'
    impl = '%s operand=%s' % (res, operand_after(kind, obj, vals))
    line = 'C16 binop %s %s %s' % (op, c01.tok_T(ua, False, ps), operand_tok(kind, vals, meta))
    return Case(line, impl, 'binop/%s/%s' % (op, kind), cmp=cmp_fixed,
                meta={'what': 'binop', 'op': op, 'kind': kind, 'self': [ua, False, ps], 'vals': vals, 'tmeta': meta,
                      'changed': differs(before, snap(obj))})


def gen_setitem(rng, kind):
    unit = rng.choice(UNITS if kind != 'list' else ['ps', 'ns', 'us'])   # a list operand is *repeated* factor times by today's code
    n = rng.randint(1, 5)
    ps = [rng.randint(-10**12, 10**12) for _ in range(n)]
    a = rng.randint(0, n)
    b = rng.randint(a, n)
    if rng.random() < 0.5 and a < n:
        b = a + 1
    m = b - a
    meta = None
    if kind == 'time':
        k = rng.choice([m, 1, m + 1]) or 1
        meta = (rng.choice(UNITS), k == 1 and rng.random() < 0.5, [rng.randint(-10**12, 10**12) for _ in range(k)])
        vals = meta[2]
    elif kind == 'pyint':
        vals = small_ints(rng, 1, unit)
    else:
        vals = kind_vals(rng, kind, rng.choice([m, m, 1, m + 1]) or 1, unit)
    obj = operand_obj(kind, vals, meta)
    before = snap(obj)
    t = c01.mk_T(unit, False, ps)
    try:
        t[a:b] = obj
        res = 'ok ' + (','.join(str(int(v)) for v in np.asarray(t)) if n else '-')
    except Exception:  # noqa
        res = 'err'
    impl = '%s operand=%s' % (res, operand_after(kind, obj, vals))
    line = 'C16 setitem %s %d %d %s' % (c01.tok_T(unit, False, ps), a, b, operand_tok(kind, vals, meta))
    return Case(line, impl, 'setitem/' + kind, cmp=cmp_fixed,
                meta={'what': 'setitem', 'kind': kind, 'self': [unit, False, ps], 'a': a, 'b': b, 'vals': vals, 'tmeta': meta,
                      'changed': differs(before, snap(obj))})


def gen_uniform(rng, kind, shape):
    unit = rng.choice(['ps', 'ns', 'us', 'ms', 's'])
    n = rng.randint(3, 6)
    if shape == 'almost':
        # ALMOST a ramp: a step of 10^5 … 10^9 with one sample off by a few units (relative irregularity 1e-9 … 1e-4):
        # exactly non-uniform, so the operation must be refused and the axis stay as it was
        unit = rng.choice(['ps', 'ns', 'us'])
        st = rng.choice([10**5, 10**6, 10**7, 123456789, 10**9, -10**6])
        a0 = rng.randint(-5, 5)
        vals = [a0 + i * st for i in range(n)]
        vals[rng.randrange(1, n)] += rng.choice([1, -1, 2, 3, 7])
    elif shape == 'uniform':
        a0, st = rng.randint(-5, 5), rng.choice([1, 2, -1, 3])
        vals = [a0 + i * st for i in range(n)]
    elif shape == 'nonuniform':
        vals = list(range(n))
        vals[rng.randrange(1, n)] += rng.choice([1, 2, -1]) if n > 2 else 1
        if len({y - x for x, y in zip(vals, vals[1:])}) == 1:
            vals[-1] += 1
    else:   # one element
        vals = [rng.randint(-5, 5)]
    meta = None
    if kind == 'time':
        meta = ('ps', False, [v * FACTOR[unit] for v in vals])
    if kind == 'pyint':
        vals = vals[:1]
    if kind == 'float64':
        # whole numbers as floats, or decimal ramps whose binary64 products are (or are not) equally spaced
        if rng.random() < 0.5 or shape == 'almost':
            vals = [float(v) for v in vals]
        else:
            stf = rng.choice([0.1, 0.25, 0.3, 1.1, -0.7])
            vals = [v * stf for v in vals] if shape != 'uniform' else [vals[0] * 0.5 + i * stf for i in range(len(vals))]
    obj = operand_obj(kind, vals, meta)
    before = snap(obj)
    u = ts().UniformTime(t0=0, sampling_interval=10, length=n, time_unit=unit)
    dt0 = int(u.sampling_interval)
    axis_before = snap(u)
    try:
        if rng.random() < 0.5:
            u += obj
            d = int(u.sampling_interval) - dt0
        else:
            u -= obj
            d = dt0 - int(u.sampling_interval)
        res = 'ok %d' % d
    except Exception as e:  # noqa
        res = 'err ' + err_kind(e)
    impl = '%s operand=%s' % (res, operand_after(kind, obj, vals))
    line = 'C16 uniform %s %s' % (unit, operand_tok(kind, vals, meta))
    return Case(line, impl, 'uniform/%s/%s' % (shape, kind), cmp=cmp_uniform_float if kind == 'float64' else cmp_fixed,
                meta={'what': 'uniform', 'kind': kind, 'shape': shape, 'unit': unit, 'n': n, 'vals': vals, 'tmeta': meta,
                      'changed': differs(before, snap(obj)), 'axis_changed': snap(u) != axis_before, 'accepted': res.startswith('ok')})


def gen_series(rng):
    n = rng.randint(1, 6)
    d = [rng.randint(-100, 100) for _ in range(n)]
    o = [rng.randint(-100, 100) for _ in range(n)]
    T = ts().TimeSeries
    s = T(np.array(d, dtype=np.int64), sampling_interval=1, t0=0)
    other = np.array(o, dtype=np.int64)
    fmt = lambda a: ','.join(str(int(v)) for v in np.asarray(a).reshape(-1))
    try:
        out = s + other
        sum1 = fmt(out.data)
        out += other
        sum2 = fmt(out.data)
        c = s.copy()
        c *= other
        impl = 'ok sum=%s sum2=%s copyprod=%s orig=%s other=%s' % (sum1, sum2, fmt(c.data), fmt(s.data), fmt(other))
    except Exception as e:  # noqa
        impl = 'err ' + err_kind(e)
    return Case('C16 series %s %s' % (','.join(map(str, d)), ','.join(map(str, o))), impl, 'series/arith-copy-inplace', cmp=cmp_fixed,
                meta={'what': 'series', 'data': d, 'other': o})


def mk_csd_input(rs, shape, contig):
    if contig:
        return rs.randn(*shape)
    if len(shape) == 1:
        return rs.randn(shape[0] * 2)[::2]
    big = rs.randn(*(list(shape[:-2]) + [shape[-2] * 2 + 1, shape[-1]]))
    return big[..., :shape[-2] * 2:2, :]   # same shape, not contiguous; with leading dims >= 2 it cannot be flattened without a copy


def run_csd(shape, contig, fail, seed):
    import nitime.algorithms as alg
    rs = np.random.RandomState(seed)
    s = mk_csd_input(rs, shape, contig)
    before = snap(s)
    kw = {}
    if fail == 'nfft':
        kw['NFFT'] = -3
    elif fail == 'sk':
        kw['Sk'] = [[1.0, 2.0]]     # not an array: the routine reads Sk.shape
    try:
        alg.periodogram_csd(s, **kw)
        oc = 'ok'
    except Exception:  # noqa
        oc = 'err'
    return oc, s, before


def gen_csd(rng, shape=None, contig=None, fail=None):
    nd = rng.randint(1, 4)
    contig = rng.random() < 0.6 if contig is None else contig
    lo = 1 if contig else 2
    shape = shape or [rng.randint(lo, 3) for _ in range(nd - 1)] + [rng.choice([4, 5, 8])]
    fail = fail or rng.choice(['none', 'none', 'nfft', 'sk'])
    seed = rng.randrange(10**6)
    oc, s, before = run_csd(shape, contig, fail, seed)
    impl = '%s shape=%s' % (oc, ','.join(map(str, s.shape)))
    line = 'C16 csd %s %d %s' % (','.join(map(str, shape)), 1 if contig else 0, 'none' if fail == 'none' else 'compute')
    return Case(line, impl, 'csd/%dd/%s/%s' % (len(shape), 'contiguous' if contig else 'non-contiguous', fail), cmp=cmp_fixed,
                meta={'what': 'csd', 'shape': shape, 'contig': contig, 'fail': fail, 'seed': seed, 'changed': differs(before, snap(s)), 'outcome': oc})


def crosscov_inputs(rng, n, fam):
    if fam == 'zero-mean':
        h = [rng.randint(-9, 9) for _ in range(n // 2)]
        return h + ([0] if n % 2 else []) + [-v for v in reversed(h)]
    if fam == 'zeros':
        return [0] * n
    if fam == 'constant':
        return [rng.randint(-9, 9)] * n
    if fam == 'centred':
        v = [rng.randint(-9, 9) for _ in range(n)]
        return [n * a - sum(v) for a in v]          # integer data minus its mean, scaled by n: the mean is exactly 0
    return [rng.randint(-9, 9) for _ in range(n)]


def run_crosscov(xs, ys, al, db, nm):
    import nitime.utils as ut
    import warnings
    x, y = np.array(xs, dtype=float), np.array(ys, dtype=float)
    b = (snap(x), snap(y))
    with warnings.catch_warnings():
        warnings.simplefilter('ignore')
        try:
            r = ut.crosscov(x, y, all_lags=bool(al), debias=bool(db), normalize=bool(nm))
            res = 'ok ' + (','.join(f2x(float(v)) for v in np.asarray(r).reshape(-1)) or '-')
        except Exception:  # noqa
            res = 'err'
    changed = [nm_ for nm_, b0, a in (('x', b[0], x), ('y', b[1], y)) if snap(a) != b0]
    return res, changed


def cmp_crosscov(impl, model):
    m = model.split(' ## ')[0]
    (ri, ii), (rm, im) = impl.rsplit(' inputs=', 1), m.rsplit(' inputs=', 1)
    if ii != im or ri.split(' ')[0] != rm.split(' ')[0]:
        return False
    if ri == 'err':
        return True
    a, b = parse_flist(ri[3:]), parse_flist(rm[3:])
    if len(a) != len(b):
        return False
    scale = max([1.0] + [abs(v) for v in a + b])
    return all(abs(p - q) <= 1e-9 * scale for p, q in zip(a, b))


def gen_crosscov(rng):
    n = rng.randint(1, 8)
    fx, fy = (rng.choice(['generic', 'generic', 'zero-mean', 'zero-mean', 'centred', 'zeros', 'constant']) for _ in range(2))
    xs = crosscov_inputs(rng, n, fx)
    ys = crosscov_inputs(rng, n if rng.random() < 0.93 else n + 1, fy)
    al, db, nm = (int(rng.random() < p) for p in (0.5, 0.75, 0.75))
    res, changed = run_crosscov(xs, ys, al, db, nm)
    impl = '%s inputs=%s' % (res, 'changed' if changed else 'same')
    line = 'C16 crosscov %s %s %d %d %d' % (','.join(map(str, xs)), ','.join(map(str, ys)), al, db, nm)
    return Case(line, impl, 'crosscov/%s/%s' % (fx, 'debias' if db else 'raw'), cmp=cmp_crosscov,
                meta={'what': 'crosscov', 'xs': xs, 'ys': ys, 'flags': [al, db, nm], 'changed': changed, 'fam': fx})


def cases(rng, tier, seed):
    k = {'quick': 3, 'thorough': 30}[tier]
    out = []
    for _ in range(3 * k):
        for op in list(c01.OPS_AR) + list(c01.OPS_CMP):
            for kind in KINDS:
                if kind == 'time' and op in ('radd', 'rsub'):
                    continue
                out.append(gen_binop(rng, op, kind))
    for _ in range(40 * k):
        for kind in KINDS:
            out.append(gen_setitem(rng, kind))
    for _ in range(15 * k):
        for kind in ('list', 'int64', 'time', 'int32', 'float64'):
            for shape in ('uniform', 'nonuniform', 'one', 'almost'):
                if shape == 'almost' and kind == 'int32':
                    continue
                out.append(gen_uniform(rng, kind, shape))
        out.append(gen_uniform(rng, 'pyint', 'one'))
    for _ in range(60 * k):
        out.append(gen_series(rng))
    for sh, cg, fl in [([2, 3, 8], True, 'nfft'), ([8], True, 'nfft'), ([2, 3, 8], False, 'none'), ([2, 8], True, 'sk'), ([2, 2, 2, 4], True, 'sk')]:
        out.append(gen_csd(rng, sh, cg, fl))
    for _ in range(120 * k):
        out.append(gen_csd(rng))
    for _ in range(100 * k):
        out.append(gen_crosscov(rng))
    import c16_r2
    out += c16_r2.cases(rng, tier)       # round 2: copy / arithmetic on series with generated metadata graphs (incl. un-deep-copyable ones)
    return out


# ------------------------------------------------------------------ oracle: snapshots around every entry point
def judge_case(c):
    m = c.meta
    w = m['what']
    if w in ('binop', 'setitem', 'uniform'):
        if m['changed']:
            site = {'binop': 'binop/%s' % m.get('op'), 'setitem': 'setitem', 'uniform': 'uniform-iop/%s' % m.get('shape')}[w]
            return Failure('%s/%s/operand-%s' % (site, m['kind'], m['changed']),
                           '%s: the caller\'s %s operand was modified (%s)  [%s] impl=%s' % (c.clause, m['kind'], m['changed'], c.line[:200], c.impl[:160]),
                           {'what': w, 'meta': m, 'line': c.line}, case=c)
        if w == 'uniform' and exactly_nonuniform(m) and (m.get('accepted') or m.get('axis_changed')):
            # independent of the model: exact integer differences of the operand
            sym = 'non-uniform-operand-accepted' if m.get('accepted') else 'refused-but-axis-changed'
            return Failure('uniform-iop/%s/%s/%s' % (m.get('shape'), m['kind'], sym),
                           '%s: the operand %s (unit %s) is NOT equally spaced (differences %s) but UniformTime += / -= %s  [%s]'
                           % (c.clause, m['vals'], m['unit'], sorted({q - p for p, q in zip(m['vals'], m['vals'][1:])}),
                              'accepted it: the samples are no longer t0 + i*interval' if m.get('accepted') else 'refused it and left the axis changed', c.line[:160]),
                           {'what': w, 'meta': m, 'line': c.line}, case=c)
        if w == 'setitem' and m['kind'] == 'list' and c.impl.startswith('err') and expected_setitem_ok(m):
            return Failure('setitem/list/raises', '%s: assigning a python list of the right length raises (the list is repeated factor times instead of being scaled)  [%s]' % (c.clause, c.line[:200]),
                           {'what': w, 'meta': m, 'line': c.line}, case=c)
        return None
    if w == 'crosscov':
        if m['changed']:
            return Failure('crosscov/%s/input-values-changed' % ('debias' if m['flags'][1] else 'raw'),
                           'nitime.utils.crosscov(x, y, all_lags=%d, debias=%d, normalize=%d) changed its argument(s) %s in place; x=%s y=%s (x family: %s)'
                           % (m['flags'][0], m['flags'][1], m['flags'][2], m['changed'], m['xs'], m['ys'], m['fam']),
                           {'what': w, 'meta': m, 'line': c.line}, case=c)
        return None
    if w == 'series':
        want_o = ','.join(map(str, m['other']))
        want_d = ','.join(map(str, m['data']))
        if 'orig=%s other=%s' % (want_d, want_o) not in c.impl:
            return Failure('series/arith-copy/operand-changed', 'TimeSeries arithmetic / in-place on a copy changed an operand: ' + c.impl[:300],
                           {'what': w, 'meta': m, 'line': c.line}, case=c)
        return None
    if w == 'csd':
        tag = '%dd/%s/%s' % (len(m['shape']), 'contiguous' if m['contig'] else 'non-contiguous', m['fail'])
        if m['changed']:
            return Failure('csd/%s/input-%s' % (tag, m['changed']),
                           'periodogram_csd left its input modified (%s): shape %s -> %s' % (m['changed'], m['shape'], c.impl),
                           {'what': w, 'meta': m, 'line': c.line}, case=c)
        if m['fail'] == 'none' and m['outcome'] != 'ok':
            return Failure('csd/%s/refused' % tag, 'periodogram_csd refuses a valid %s input of shape %s' % ('contiguous' if m['contig'] else 'non-contiguous', m['shape']),
                           {'what': w, 'meta': m, 'line': c.line}, case=c)
        return None
    return None


def exactly_nonuniform(m):
    """operand of += / -= with >= 3 whole-number samples whose exact differences are not all equal"""
    v = m['vals']
    if m['kind'] == 'pyint' or len(v) < 3 or any(float(x) != int(x) for x in v):
        return False
    v = [int(x) for x in v]
    return len({q - p for p, q in zip(v, v[1:])}) > 1


def expected_setitem_ok(m):
    return len(m['vals']) in (m['b'] - m['a'], 1) and m['b'] - m['a'] >= 0


def rejudge(d):
    """re-run one recorded correspondence case"""
    import common
    m = d['meta']
    w = d['what']
    rng = common.make_rng(PID, 0, 'replay')
    if w == 'crosscov':
        res, changed = run_crosscov(m['xs'], m['ys'], *m['flags'])
        return judge_case(Case(d['line'], res, 'crosscov', meta=dict(m, changed=changed)))
    if w == 'csd':
        oc, s, before = run_csd(m['shape'], m['contig'], m['fail'], m['seed'])
        m2 = dict(m, changed=differs(before, snap(s)), outcome=oc)
        c = Case(d['line'], '%s shape=%s' % (oc, ','.join(map(str, s.shape))), 'csd', meta=m2)
        return judge_case(c)
    if w == 'series':
        T = ts().TimeSeries
        s = T(np.array(m['data'], dtype=np.int64), sampling_interval=1, t0=0)
        other = np.array(m['other'], dtype=np.int64)
        out = s + other
        out += other
        c2 = s.copy()
        c2 *= other
        fmt = lambda a: ','.join(str(int(v)) for v in np.asarray(a).reshape(-1))
        c = Case(d['line'], 'ok orig=%s other=%s' % (fmt(s.data), fmt(other)), 'series', meta=m)
        return judge_case(c)
    kind, vals, tmeta = m['kind'], m['vals'], m.get('tmeta')
    obj = operand_obj(kind, vals, tuple(tmeta) if tmeta else None)
    before = snap(obj)
    res = 'ok'
    try:
        if w == 'binop':
            fn = c01.OPS_AR.get(m['op']) or c01.OPS_CMP[m['op']]
            fn(c01.mk_T(*m['self']), obj)
        elif w == 'setitem':
            t = c01.mk_T(*m['self'])
            t[m['a']:m['b']] = obj
        else:
            u = ts().UniformTime(t0=0, sampling_interval=10, length=m['n'], time_unit=m['unit'])
            ub = snap(u)
            m = dict(m, accepted=False, axis_changed=False)
            try:
                u += obj
                m['accepted'] = True
            finally:
                m['axis_changed'] = snap(u) != ub
    except Exception:  # noqa
        res = 'err'
    m2 = dict(m, changed=differs(before, snap(obj)))
    return judge_case(Case(d['line'], res, w, meta=m2))



# ------------------------------------------------------------------ input families (value-dependent fast paths)
# Every array handed to an entry point is drawn from one of these families.  A routine that takes a
# short cut when "there is nothing to do" (already centred, all zero, constant, already normalised,
# already sorted, already of the wanted dtype / layout, one channel only) does so on exactly these
# inputs, and a short cut that hands back (or keeps working on) the caller's buffer only shows there.
FAMILIES = ['generic', 'zero-mean', 'centred', 'zeros', 'constant', 'unit-var', 'unit-norm', 'sorted',
            'int-valued', 'int-dtype', 'float32', 'complex', 'complex-zero-mean', 'nan', 'masked', 'fortran',
            'noncontig', 'one-channel', 'short'] + ['L1-' + k_ for k_ in ('int16', 'int32', 'int64', 'uint8', 'bool', 'float32', 'complex64', 'bigendian',
                                                                        'fortran', 'strided', 'lead1', 'lead2', 'lead2-int')]
QUICK_FAMILIES = FAMILIES


def dyadic(rs, shape):
    """multiples of 1/8 below 128: sums, means and differences of these are exact in binary64 in any order"""
    return rs.randint(-1000, 1001, size=shape) / 8.0


def fam_array(rs, shape, fam):
    """float64 array (complex128 / float32 / int64 / masked for those families) of `shape`, structured along the LAST axis"""
    shape = tuple(int(n) for n in shape)
    n = shape[-1] if shape else 1
    g = rs.randn(*shape)
    if fam in ('generic', 'one-channel', 'short'):
        return g
    if fam in ('zero-mean', 'complex-zero-mean'):
        def zm():
            b = dyadic(rs, shape)
            z = b - b[..., ::-1]                 # antisymmetric: the mean along the last axis is EXACTLY 0.0
            if z.ndim >= 2 and z.shape[0] >= 2:
                z[-1] = -z[:-1].sum(axis=0)      # … and along the first axis too
            return z
        return zm() if fam == 'zero-mean' else zm() + 1j * zm()
    if fam == 'centred':
        return g - g.mean(axis=-1, keepdims=True) if g.ndim else g
    if fam == 'zeros':
        return np.zeros(shape)
    if fam == 'constant':
        return np.full(shape, 2.5)
    if fam == 'unit-var':
        # square waves of period 2, 4, 8: mean exactly 0 and variance exactly 1 when the period divides n
        rows = int(np.prod(shape[:-1])) if len(shape) > 1 else 1
        out = np.empty((rows, n))
        for r in range(rows):
            per = 2 ** (1 + r % 3)
            out[r] = np.where((np.arange(n) // (per // 2)) % 2 == 0, 1.0, -1.0) * (-1.0) ** (r // 3)
        return out.reshape(shape)
    if fam == 'unit-norm':
        rows = int(np.prod(shape[:-1])) if len(shape) > 1 else 1
        out = np.zeros((rows, n))
        for r in range(rows):
            for j, v in enumerate((0.5, -0.5, 0.5, -0.5)):     # euclidean norm exactly 1, mean exactly 0
                out[r, (r + j * max(n // 4, 1)) % n] += v
        return out.reshape(shape)
    if fam == 'sorted':
        return np.sort(g, axis=-1)
    if fam == 'int-valued':
        return np.round(g * 4)
    if fam == 'int-dtype':
        return np.round(g * 4).astype(np.int64)
    if fam == 'float32':
        return g.astype(np.float32)
    if fam == 'complex':
        return g + 1j * rs.randn(*shape)
    if fam == 'nan':
        g = g.copy()
        g[..., 1 % n] = np.nan
        return g
    if fam == 'masked':
        return np.ma.masked_array(g, mask=np.zeros(shape, dtype=bool))
    if fam == 'fortran':
        return np.asfortranarray(g)
    if fam == 'noncontig':
        big = rs.randn(*(shape[:-1] + (2 * n,)))
        return big[..., ::2]
    raise ValueError(fam)


def entry_points(rs, variant=0, fam='generic'):
    """(name, callable, args, kwargs) for every public function of nitime.algorithms (and the array
    routines of nitime.utils), small valid inputs drawn from the input family `fam`"""
    import nitime.algorithms as alg
    import nitime.utils as ut
    N = 64 if variant == 0 else 48
    if fam == 'short':
        N = 16
    C = 1 if fam == 'one-channel' else 3
    A = lambda *shape: fam_array(rs, shape, fam)

    def derived(f, fallback):
        # helper inputs computed by the library from family data; a family the helper refuses falls back to ordinary data
        try:
            return f()
        except Exception:  # noqa
            return fallback()
    x = A(N)
    X = A(C, N)
    X2 = A(2, N)
    if variant == 2:
        X = np.asfortranarray(X)
        X2 = A(N, 2).T        # non-contiguous
    ij = [(0, 1), (0, 2), (1, 2)] if C >= 3 else [(0, 0)]
    xi = rs.randint(0, 3, size=N)
    yi = rs.randint(0, 3, size=N)
    if fam in ('zeros', 'constant'):
        xi, yi = np.zeros(N, dtype=int), np.ones(N, dtype=int)
    elif fam == 'sorted':
        xi, yi = np.sort(xi), np.sort(yi)
    Sw = np.abs(rs.randn(2, 2, 9)) + 3 * np.eye(2)[:, :, None] + 0j
    Hw = rs.randn(2, 2, 9) + 1j * rs.randn(2, 2, 9)
    cov = np.array([[1.0, 0.2], [0.2, 1.5]])
    a_coef = 0.2 * rs.randn(2, 2, 2)
    R = np.array([np.eye(2) * 2.0, 0.3 * np.eye(2) + 0.05, 0.1 * np.eye(2)])
    if fam in ('unit-var', 'unit-norm', 'int-valued', 'constant'):
        Sw = np.ones((2, 2, 9)) * 0.5 + np.eye(2)[:, :, None] * 0.5 + 0j      # unit diagonal: coherence already normalised
        cov = np.eye(2)
        R = np.array([np.eye(2), 0.25 * np.eye(2), 0.125 * np.eye(2)])
    if fam == 'zeros':
        a_coef = np.zeros((2, 2, 2))
    f1, f2, f3 = (np.abs(rs.randn(9)) + 1 for _ in range(3))
    fxy = rs.randn(9) + 1j * rs.randn(9)
    if fam in ('unit-var', 'unit-norm', 'constant'):
        f1, f2, f3 = np.ones(9), np.ones(9), np.ones(9)
    if fam == 'zeros':
        fxy = np.zeros(9, dtype=complex)
    tapers, _ = alg.dpss_windows(N, 4, 3)
    events = np.zeros(N)
    events[[5, 10, 14] if N < 48 else [5, 20, 40]] = 1
    m64 = {'this_method': 'welch', 'NFFT': 64, 'Fs': 2 * np.pi}
    big = A(C, 256)
    cache = derived(lambda: alg.cache_fft(A(C, 256), ij, method=dict(m64)), lambda: alg.cache_fft(rs.randn(C, 256), ij, method=dict(m64)))
    E = []
    add = lambda name, f, *a, **k: E.append((name, f, a, k))
    add('AR_est_YW', alg.AR_est_YW, x, 3)
    add('AR_est_LD', alg.AR_est_LD, x, 3)
    add('AR_psd', alg.AR_psd, np.array([0.5, -0.2]), 1.0, 32)
    add('MAR_est_LWR', alg.MAR_est_LWR, X2, 2)
    add('lwr_recursion', alg.lwr_recursion, R)
    add('boxcar_filter/1d', alg.boxcar_filter, x, 0.05, 0.3)
    add('boxcar_filter/2d', alg.boxcar_filter, X, 0.05, 0.3)
    add('boxcar_filter/2d-lowpass', alg.boxcar_filter, X, 0, 0.2)
    add('cache_fft', alg.cache_fft, A(C, 256), ij, method=dict(m64))
    add('cache_to_psd', alg.cache_to_psd, cache[1], ij)
    add('cache_to_phase', alg.cache_to_phase, cache[1], ij)
    add('cache_to_relative_phase', alg.cache_to_relative_phase, cache[1], ij)
    add('cache_to_coherency', alg.cache_to_coherency, cache[1], ij)
    for nm in ('coherence', 'coherency', 'coherency_phase_spectrum'):
        add(nm, getattr(alg, nm), big, csd_method=dict(m64))
    for nm in ('coherence_bavg', 'coherency_bavg', 'coherency_phase_delay'):
        add(nm, getattr(alg, nm), big, lb=0.1, ub=1.0, csd_method=dict(m64))
    add('coherence_partial', alg.coherence_partial, big, big[0], csd_method=dict(m64))
    add('coherence_regularized', alg.coherence_regularized, big, 0.01, 0.1, csd_method=dict(m64))
    add('coherency_regularized', alg.coherency_regularized, big, 0.01, 0.1, csd_method=dict(m64))
    add('coherence_spec', alg.coherence_spec, fxy, f1, f2)
    add('coherency_spec', alg.coherency_spec, fxy, f1, f2)
    add('coherence_partial_spec', alg.coherence_partial_spec, fxy, f1, f2, fxy * 0.5, fxy * 0.3, f3)
    add('coherence_from_spectral', alg.coherence_from_spectral, Sw)
    add('interdependence_xy', alg.interdependence_xy, Sw)
    add('spectral_matrix_xy', alg.spectral_matrix_xy, Hw, cov)
    add('transfer_function_xy', alg.transfer_function_xy, a_coef, 16)
    add('granger_causality_xy', alg.granger_causality_xy, a_coef, cov, 16)
    add('correlation_spectrum', alg.correlation_spectrum, x, A(N))
    add('seed_corrcoef', alg.seed_corrcoef, x, X)
    add('dpss_windows', alg.dpss_windows, N, 4, 3)
    add('tapered_spectra', alg.tapered_spectra, X, tapers)
    add('tapered_spectra/NW', alg.tapered_spectra, X, (4, 3))
    add('mtm_cross_spectrum', alg.mtm_cross_spectrum, A(3, 33) + 0j, A(3, 33) + 0j, np.ones((3, 33)), sides='onesided')
    add('mtm_cross_spectrum/auto', alg.mtm_cross_spectrum, A(3, 33) + 0j, A(3, 33) + 0j, (np.ones((3, 33)), np.ones((3, 33))), sides='twosided')
    add('multi_taper_psd', alg.multi_taper_psd, X, NW=4)
    add('multi_taper_psd/adaptive', alg.multi_taper_psd, X, NW=4, adaptive=True, jackknife=False)
    add('multi_taper_psd/jackknife', alg.multi_taper_psd, X, NW=4, adaptive=False, jackknife=True)
    add('multi_taper_csd', alg.multi_taper_csd, X, NW=4)
    add('multi_taper_csd/adaptive', alg.multi_taper_csd, X, NW=4, adaptive=True)
    add('periodogram', alg.periodogram, X)
    add('periodogram/3d', alg.periodogram, A(2, 3, N))
    add('periodogram_csd', alg.periodogram_csd, X)
    add('periodogram_csd/3d', alg.periodogram_csd, A(2, 2, N))
    add('periodogram_csd/1d', alg.periodogram_csd, x)
    # long records (2^14 and one above it): buffer-reuse / in-place fast paths are tempted exactly where copies get expensive
    # (wave 10, C16-20); the argument must come back unchanged there too
    add('periodogram_csd/long', alg.periodogram_csd, A(2, 16384))
    add('periodogram_csd/long-odd', alg.periodogram_csd, A(2, 16385))
    add('periodogram/long', alg.periodogram, A(2, 16384))
    add('tapered_spectra/NW-long', alg.tapered_spectra, A(2, 16384), (4, 3))
    # optional precomputed arguments (transforms, autocorrelations, tapered spectra) are inputs like any other:
    SkX = derived(lambda: np.fft.fft(np.asarray(X)), lambda: np.fft.fft(rs.randn(C, N)))
    add('periodogram/Sk', alg.periodogram, X, Sk=SkX.copy())
    add('periodogram/Sk-twosided', alg.periodogram, X + 0j, Sk=SkX.copy(), sides='twosided')
    add('periodogram_csd/Sk', alg.periodogram_csd, X, Sk=SkX.copy())
    add('periodogram_csd/Sk-twosided', alg.periodogram_csd, X, Sk=SkX.copy(), sides='twosided')
    add('periodogram_csd/Sk-unnormalized', alg.periodogram_csd, X, Sk=SkX.copy(), normalize=False)
    rxx = derived(lambda: ut.autocorr(x)[:5], lambda: ut.autocorr(rs.randn(N))[:5])
    add('AR_est_YW/rxx', alg.AR_est_YW, x, 3, rxx=rxx.copy())
    add('AR_est_LD/rxx', alg.AR_est_LD, x, 3, rxx=rxx.copy())
    add('MAR_est_LWR/rxx', alg.MAR_est_LWR, X2, 2, rxx=derived(lambda: ut.autocov_vector(np.ascontiguousarray(X2), nlags=3),
                                                                lambda: ut.autocov_vector(rs.randn(2, N), nlags=3)))
    tsp = derived(lambda: alg.tapered_spectra(np.ascontiguousarray(X), tapers), lambda: alg.tapered_spectra(rs.randn(C, N), tapers))
    add('adaptive_weights', ut.adaptive_weights, tsp[0].copy(), np.array([0.99, 0.98, 0.95]), sides='onesided')
    add('jackknifed_sdf_variance', ut.jackknifed_sdf_variance, tsp[0].copy(), np.array([0.99, 0.98, 0.95]), sides='onesided', adaptive=False)
    add('jackknifed_sdf_variance/adaptive', ut.jackknifed_sdf_variance, tsp[0].copy(), np.array([0.99, 0.98, 0.95]), sides='onesided', adaptive=True)
    add('jackknifed_coh_variance', ut.jackknifed_coh_variance, tsp[0].copy(), tsp[-1].copy(), np.array([0.99, 0.98, 0.95]), adaptive=False)
    Xc = np.ascontiguousarray(X)
    for fn in ('zscore', 'percent_change', 'autocov', 'autocorr'):
        add('utils.' + fn, getattr(ut, fn), Xc + 5.0)
        add('utils.%s/as-is' % fn, getattr(ut, fn), A(C, N))
    for fn in ('autocov', 'autocorr'):
        add('utils.%s/all-lags' % fn, getattr(ut, fn), A(C, N), all_lags=True)
    add('utils.zscore/axis0', ut.zscore, A(C, N), axis=0)
    add('utils.percent_change/axis0', ut.percent_change, A(C, N), ax=0)
    add('utils.remove_bias', ut.remove_bias, A(C, N), -1)
    add('utils.remove_bias/axis0', ut.remove_bias, A(C, N), 0)
    add('utils.crosscov', ut.crosscov, x, A(N))
    add('utils.crosscov/2d', ut.crosscov, A(C, N), A(C, N))
    add('utils.crosscov/all-lags', ut.crosscov, A(N), A(N), all_lags=True)
    add('utils.crosscov/no-debias', ut.crosscov, A(N), A(N), debias=False)
    add('utils.crosscov/no-normalize', ut.crosscov, A(N), A(N), normalize=False)
    add('utils.crosscov/axis0', ut.crosscov, A(N, 2), A(N, 2), axis=0)
    add('utils.crosscorr', ut.crosscorr, A(N), A(N))
    add('utils.crosscorr/2d', ut.crosscorr, A(C, N), A(C, N), all_lags=True)
    add('utils.autocov_vector', ut.autocov_vector, A(2, N), nlags=3)
    add('utils.crosscov_vector', ut.crosscov_vector, A(2, N), A(2, N), nlags=3)
    add('utils.fftconvolve', ut.fftconvolve, A(N), A(9), axis=0)
    add('utils.fftconvolve/same', ut.fftconvolve, A(N), A(9), mode='same', axis=0)
    add('utils.fftconvolve/axis', ut.fftconvolve, A(C, N), A(C, 9), axis=-1)
    add('utils.zero_pad', ut.zero_pad, Xc, 96)
    add('utils.zero_pad/same-length', ut.zero_pad, A(C, N), N)
    add('utils.unwrap_phases/copy-expected', lambda a: ut.unwrap_phases(a.copy()), rs.uniform(-3, 3, size=20) if fam == 'generic' else np.asarray(A(20)))
    add('utils.dB', ut.dB, np.abs(np.asarray(A(N))) + 1)
    add('utils.circularize', ut.circularize, A(N))
    add('utils.normalize_coherence', ut.normalize_coherence, np.clip(np.abs(np.asarray(A(9)).real.astype(float)), 0, 0.9), 6)
    add('utils.normal_coherence_to_unit', ut.normal_coherence_to_unit, np.asarray(A(9)).real.astype(float), 6)
    add('utils.threshold_arr', ut.threshold_arr, A(4, 4), 0.1)
    add('utils.thresholded_arr', ut.thresholded_arr, A(4, 4), 0.1)
    add('utils.thresholded_arr/two', ut.thresholded_arr, A(4, 4), -0.5, 0.5)
    add('utils.rescale_arr', ut.rescale_arr, A(N), 0, 1)
    add('utils.minmax_norm', ut.minmax_norm, A(N))
    add('utils.minmax_norm/folding', ut.minmax_norm, A(N), mode='folding', folding_edges=(-0.5, 0.5))
    add('utils.get_bounds', ut.get_bounds, np.sort(np.abs(np.asarray(A(N)).real)), 0.1, 1.0)
    add('utils.intersect_coords', ut.intersect_coords, rs.randint(0, 3, size=(3, 8)), rs.randint(0, 3, size=(3, 8)))
    add('utils.generate_mar', ut.generate_mar, a_coef, cov, 32)
    add('utils.akaike_information_criterion', ut.akaike_information_criterion, cov, 2, 2, 100)
    add('utils.bayesian_information_criterion', ut.bayesian_information_criterion, cov, 2, 2, 100)
    add('utils.ar_generator/v', ut.ar_generator, N, 1.0, np.array([0.5, -0.2]), 0, A(N))
    add('utils.tridi_inverse_iteration', ut.tridi_inverse_iteration, np.arange(1., 9.), np.full(7, 0.5), 1.3)
    add('utils.ar_generator/v-sigma-transients', ut.ar_generator, N, 0.5, np.array([0.5, -0.2]), 5, A(N + 5))
    add('utils.ar_generator/defaults', ut.ar_generator, N, drop_transients=3)
    add('utils.dB/amplitude', ut.dB, np.abs(np.asarray(A(N))) + 1, power=False)
    add('utils.multi_intersect', ut.multi_intersect, [rs.randint(0, 9, size=12), rs.randint(0, 9, size=(3, 4)), rs.randint(0, 9, size=7)])
    add('utils.multi_intersect/one', ut.multi_intersect, [A(4, 4)])
    add('utils.fill_diagonal/copy-expected', lambda a_, val: ut.fill_diagonal(a_.copy(), val), np.asarray(A(4, 4)), 2.0)
    add('utils.expected_jk_variance', ut.expected_jk_variance, 5)
    add('utils.hanning_window_spectrum', ut.hanning_window_spectrum, 32, 2.0)
    add('utils.square_window_spectrum', ut.square_window_spectrum, 32, 2.0)
    add('utils.circle_to_hz', ut.circle_to_hz, np.abs(np.asarray(A(9)).real), 2.0)
    add('utils.diag_indices', ut.diag_indices, 4, ndim=3)
    add('utils.diag_indices_from', ut.diag_indices_from, A(4, 4))
    add('utils.mask_indices', ut.mask_indices, 4, np.triu, 1)
    add('utils.tril_indices_from', ut.tril_indices_from, A(4, 4), -1)
    add('utils.triu_indices_from', ut.triu_indices_from, A(4, 4), 1)
    add('utils.tril_indices', ut.tril_indices, 5, 1)
    add('utils.triu_indices', ut.triu_indices, 5, -1)
    add('utils.structured_rand_arr', ut.structured_rand_arr, 4, fill_diag=0.5, utfac=-1.0)
    add('utils.symm_rand_arr', ut.symm_rand_arr, 4, fill_diag=1.0)
    add('utils.antisymm_rand_arr', ut.antisymm_rand_arr, 4)
    add('utils.detect_lines', ut.detect_lines, x, (4, 3), p=0.5, low_bias=False)
    add('utils.fir_design_matrix', ut.fir_design_matrix, np.array([0, 1, 0, 0, 2, 0, 0, 0] * (N // 8)), 3)
    add('get_spectra', alg.get_spectra, big, method=dict(m64))
    add('get_spectra/mt', alg.get_spectra, X, method={'this_method': 'multi_taper_csd', 'Fs': 2 * np.pi})
    add('get_spectra/periodogram', alg.get_spectra, X, method={'this_method': 'periodogram_csd', 'Fs': 2 * np.pi})
    add('get_spectra_bi', alg.get_spectra_bi, big[0], big[-1], method=dict(m64))
    add('freq_response', alg.freq_response, np.array([1.0, 0.5]), np.array([1.0, -0.2]), 16)
    add('entropy', alg.entropy, xi, yi)
    add('conditional_entropy', alg.conditional_entropy, xi, yi)
    add('mutual_information', alg.mutual_information, xi, yi)
    add('entropy_cc', alg.entropy_cc, xi, yi)
    add('transfer_entropy', alg.transfer_entropy, xi, yi)
    add('fir', alg.fir, A(2, N), rs.randn(N, 6))
    add('freq_domain_xcorr', alg.freq_domain_xcorr, x, events, 3, 5)
    add('freq_domain_xcorr_zscored', alg.freq_domain_xcorr_zscored, x, events, 3, 5)
    add('wmorlet', alg.wmorlet, 10, 2, 100)
    add('wfmorlet_fft', alg.wfmorlet_fft, 10, 2, 100, nt=64)
    add('wlogmorlet', alg.wlogmorlet, 10, 0.2, 100)
    add('wlogmorlet_fft', alg.wlogmorlet_fft, 10, 0.2, 100, nt=64)
    add('triu_indices', alg.triu_indices, 4, 1)
    add('tril_indices', alg.tril_indices, 4, -1)
    # calls made to fail
    add('FAIL/periodogram_csd/bad-NFFT-3d', alg.periodogram_csd, A(2, 2, N), NFFT=-1)
    add('FAIL/periodogram_csd/bad-NFFT-1d', alg.periodogram_csd, A(N), NFFT=0)
    add('FAIL/periodogram/bad-N', alg.periodogram, X, N=-2)
    add('FAIL/multi_taper_psd/bad-NFFT', alg.multi_taper_psd, X, NW=4, NFFT=-8)
    add('FAIL/multi_taper_csd/bad-NW', alg.multi_taper_csd, X, NW=0.1)
    add('FAIL/tapered_spectra/mismatched', alg.tapered_spectra, X, tapers[:, :N - 5])
    add('FAIL/seed_corrcoef/mismatched', alg.seed_corrcoef, x, A(3, N - 1))
    add('FAIL/coherence_spec/mismatched', alg.coherence_spec, fxy, f1[:-1], f2)
    add('FAIL/fir/mismatched', alg.fir, A(2, N), rs.randn(N - 3, 6))
    add('FAIL/AR_est_YW/order-too-big', alg.AR_est_YW, x[:4], 9)
    add('FAIL/MAR_est_LWR/1d', alg.MAR_est_LWR, x, 2)
    add('FAIL/correlation_spectrum/mismatched', alg.correlation_spectrum, x, A(N - 7))
    add('FAIL/crosscov/mismatched', ut.crosscov, A(N), A(N - 1))
    add('FAIL/crosscov_vector/mismatched', ut.crosscov_vector, A(2, N), A(3, N - 1))
    add('FAIL/periodogram_csd/non-contiguous-3d', alg.periodogram_csd, np.asarray(A(2, 4, N))[:, ::2, :])
    # a supplied n-d transform and a call that fails AFTER the routine has looked at it (Fs=None): Sk keeps its shape and bytes
    s3_ = np.asarray(A(2, 2, N))
    add('FAIL/periodogram_csd/Sk-3d-bad-Fs', alg.periodogram_csd, s3_, Sk=np.fft.fft(s3_), Fs=None)
    add('FAIL/periodogram/Sk-3d-bad-Fs', alg.periodogram, s3_ + 0j, Sk=np.fft.fft(s3_), Fs=None)
    time_entry_points(rs, add, A, C, N)
    return E


def time_entry_points(rs, add, A, C, N):
    """queries, reductions, constructors and copies of the time classes (nitime.timeseries): the time object the method is
    called on is argument 0 like any other; in-place operators (the object changes by contract) are wrapped so that only
    the OPERAND is an argument"""
    t = ts()
    TA = lambda: t.TimeArray(np.arange(0, 4 * N, 4), time_unit='ms')
    UT = lambda: t.UniformTime(t0=1, sampling_interval=2, length=N, time_unit='ms')
    SR = lambda: t.TimeSeries(A(C, N), sampling_interval=0.5, t0=1.0, time_unit='s')
    q1 = lambda: t.TimeArray(8, time_unit='ms')
    qn = lambda: t.TimeArray([8, 21, 40], time_unit='ms')
    ep = lambda: t.Epochs(0.004, 0.03, time_unit='s')
    eps = lambda: t.Epochs([0.004, 0.05], [0.03, 0.08], time_unit='s')
    have = lambda cls, nm: getattr(cls, nm, None) is not None
    add('ts.TimeArray.ctor', t.TimeArray, A(N), time_unit='ms')
    add('ts.TimeArray.ctor/int64', t.TimeArray, np.arange(N), time_unit='us')
    add('ts.TimeArray.ctor/list', t.TimeArray, [1, 2, 3], time_unit='ms')
    add('ts.TimeArray.ctor/time', t.TimeArray, TA())
    add('ts.TimeArray.at', t.TimeArray.at, TA(), q1())
    add('ts.TimeArray.index_at', t.TimeArray.index_at, TA(), q1())
    add('ts.TimeArray.index_at/many', t.TimeArray.index_at, TA(), qn())
    add('ts.TimeArray.index_at/tol-before', t.TimeArray.index_at, TA(), qn(), tol=1, mode='before')
    add('ts.TimeArray.index_at/after', t.TimeArray.index_at, TA(), qn(), mode='after')
    add('ts.TimeArray.during', t.TimeArray.during, TA(), ep())
    add('ts.TimeArray.slice_during', t.TimeArray.slice_during, TA(), ep())
    add('ts.TimeArray.convert_unit', lambda ta: ta.copy().convert_unit('s'), TA())
    for red in ('min', 'max', 'mean', 'sum', 'ptp', 'std', 'var', 'prod'):
        if have(t.TimeArray, red):
            add('ts.TimeArray.' + red, getattr(t.TimeArray, red), t.TimeArray(np.arange(1, 7), time_unit='ms'))
    for opn in ('__truediv__', '__floordiv__', '__neg__', '__abs__'):
        if have(t.TimeArray, opn):
            add('ts.TimeArray.' + opn, getattr(operator, opn), TA(), *(() if opn in ('__neg__', '__abs__') else (np.full(N, 2),)))
    add('ts.TimeArray.getitem', operator.getitem, TA(), slice(2, 9))
    add('ts.UniformTime.ctor/duration-rate', t.UniformTime, duration=10, sampling_rate=4.0, time_unit='s')
    add('ts.UniformTime.ctor/time', t.UniformTime, UT())
    add('ts.UniformTime.at', t.UniformTime.at, UT(), q1())
    add('ts.UniformTime.index_at', t.UniformTime.index_at, UT(), qn())
    add('ts.UniformTime.index_at/boolean', t.UniformTime.index_at, UT(), qn(), boolean=True)
    add('ts.UniformTime.during', t.UniformTime.during, UT(), ep())
    add('ts.UniformTime.slice_during', t.UniformTime.slice_during, UT(), ep())
    for red in ('min', 'max'):
        add('ts.UniformTime.' + red, getattr(t.UniformTime, red), UT())
    for opn in ('__mul__', '__truediv__', '__neg__'):
        if have(t.UniformTime, opn):
            add('ts.UniformTime.' + opn, getattr(operator, opn), UT(), *(() if opn == '__neg__' else (2,)))
    add('ts.UniformTime.__rmul__', lambda k_, u: k_ * u, 3, UT())
    add('ts.UniformTime.getitem', operator.getitem, UT(), slice(2, 9))
    add('ts.UniformTime.__itruediv__/operand', lambda o: operator.itruediv(UT(), o), np.full(N, 2))
    add('ts.UniformTime.__imul__/operand', lambda o: operator.imul(UT(), o), np.array(3))
    add('ts.UniformTime.__setitem__/operand', lambda o: UT().__setitem__(slice(0, 3), o), np.array([1, 3, 5]))
    add('ts.TimeSeries.ctor', t.TimeSeries, A(C, N), sampling_interval=0.5)
    add('ts.TimeSeries.ctor/rate-t0-unit', t.TimeSeries, A(C, N), sampling_rate=2.0, t0=t.TimeArray(3, time_unit='s'), time_unit='ms')
    add('ts.TimeSeries.ctor/time', t.TimeSeries, A(C, N), time=UT())
    add('ts.TimeSeries.ctor/duration', t.TimeSeries, A(C, N), duration=N * 0.5, sampling_interval=0.5)
    add('ts.TimeSeries.ctor/list', t.TimeSeries, [[1.0, 2.0, 3.0], [4.0, 5.0, 6.0]], sampling_interval=1)
    add('ts.TimeSeries.copy', t.TimeSeries.copy, SR())
    add('ts.TimeSeries.at', t.TimeSeries.at, SR(), t.TimeArray(2.0, time_unit='s'))
    add('ts.TimeSeries.during', t.TimeSeries.during, SR(), t.Epochs(2.0, 6.0, time_unit='s'))
    add('ts.TimeSeries.during/many', t.TimeSeries.during, SR(), t.Epochs([2.0, 8.0], [6.0, 12.0], time_unit='s'))
    add('ts.TimeSeries.getitem', operator.getitem, SR(), 0)
    add('ts.TimeSeries.len', len, SR())
    add('ts.TimeSeries.time', lambda s_: s_.time, SR())
    for opn in ('iadd', 'isub', 'imul', 'itruediv'):
        add('ts.TimeSeries.__%s__/operand' % opn, lambda o, opn=opn: getattr(operator, opn)(SR(), o), A(N))
        add('ts.TimeSeries.__%s__/series-operand' % opn, lambda o, opn=opn: getattr(operator, opn)(SR(), o), SR())
    for opn in ('add', 'sub', 'mul', 'truediv'):
        add('ts.TimeSeries.__%s__' % opn, getattr(operator, opn), SR(), A(N))
        add('ts.TimeSeries.__%s__/series' % opn, getattr(operator, opn), SR(), SR())
    add('ts.concatenate_time_series', t.concatenate_time_series, [SR(), SR()])
    add('ts.Epochs.ctor', t.Epochs, np.array([0.5, 2.0]), np.array([1.0, 3.5]), time_unit='s')
    add('ts.Epochs.ctor/duration-offset', t.Epochs, np.array([0.5, 2.0]), duration=1.0, offset=-0.25, time_unit='s')
    add('ts.Epochs.getitem', operator.getitem, eps(), 1)
    add('ts.Epochs.len', len, eps())
    add('ts.Events.ctor', t.Events, np.array([0.5, 2.0, 3.5]), i=np.array([1, 2, 1]), time_unit='s')
    add('ts.Events.ctor/indices-labels', t.Events, [0.5, 2.0, 3.5], labels=['j'], indices=[np.array([4, 5, 6])], time_unit='ms')
    add('ts.Events.ctor/time', t.Events, t.TimeArray([1, 2, 3], time_unit='s'), v=A(3))
    add('ts.Events.getitem', operator.getitem, t.Events(np.array([0.5, 2.0, 3.5]), i=np.array([1, 2, 1]), time_unit='s'), 1)
    add('ts.Events.len', len, t.Events(np.array([0.5, 2.0, 3.5]), time_unit='s'))


def analyzers(rs):
    """(name, build(series) -> (callable, args, kwargs), attributes) over every analyzer class.  Every
    constructor argument (series, method dicts, index lists, event objects) is owned by the harness,
    so that it can be snapshotted before construction and compared after it and after every read."""
    import nitime.analysis as an
    t = ts()
    L = []
    add = lambda name, f, attrs: L.append((name, f, attrs))
    seed1 = lambda s: t.TimeSeries(s.data[0].copy(), sampling_interval=s.sampling_interval)
    welch = lambda **k: dict({'this_method': 'welch', 'NFFT': 32}, **k)
    add('SpectralAnalyzer', lambda s: (an.SpectralAnalyzer, (s,), {'method': {'NFFT': 32}}), ['psd', 'cpsd', 'periodogram', 'spectrum_fourier', 'spectrum_multi_taper'])
    add('SpectralAnalyzer-default', lambda s: (an.SpectralAnalyzer, (s,), {}), ['psd', 'cpsd', 'spectrum_fourier'])
    add('CoherenceAnalyzer-default', lambda s: (an.CoherenceAnalyzer, (s,), {}), ['coherence', 'frequencies', 'delay'])
    add('SparseCoherenceAnalyzer-default', lambda s: (an.SparseCoherenceAnalyzer, (s,), {'ij': [(0, 1), (1, 0), (1, 2), (1, 2)]}), ['coherence', 'frequencies'])
    add('SeedCoherenceAnalyzer-default', lambda s: (an.SeedCoherenceAnalyzer, (seed1(s), s), {}), ['coherence', 'frequencies'])
    add('SpectralAnalyzer-welch-dict', lambda s: (an.SpectralAnalyzer, (s,), {'method': welch()}), ['psd', 'cpsd'])
    add('SpectralAnalyzer-mt-dict', lambda s: (an.SpectralAnalyzer, (s,), {'method': {'this_method': 'multi_taper_csd'}}), ['psd', 'cpsd', 'spectrum_multi_taper'])
    add('FilterAnalyzer', lambda s: (an.FilterAnalyzer, (s,), {'lb': 0.1, 'ub': 0.3, 'filt_order': 16}), ['filtered_boxcar', 'filtered_fourier', 'fir', 'iir'])
    add('CoherenceAnalyzer', lambda s: (an.CoherenceAnalyzer, (s,), {'method': welch(n_overlap=16)}), ['coherence', 'coherency', 'phase', 'delay', 'coherence_partial', 'spectrum'])
    add('CoherenceAnalyzer-minimal-dict', lambda s: (an.CoherenceAnalyzer, (s,), {'method': {'this_method': 'welch', 'NFFT': 64}}), ['coherence', 'frequencies'])
    add('MTCoherenceAnalyzer', lambda s: (an.MTCoherenceAnalyzer, (s,), {}), ['coherence', 'confidence_interval'])
    add('SparseCoherenceAnalyzer', lambda s: (an.SparseCoherenceAnalyzer, (s,), {'ij': [(0, 1), (1, 2)], 'method': welch()}), ['coherence', 'coherency', 'phases', 'spectrum', 'relative_phases', 'delay'])
    add('SeedCoherenceAnalyzer', lambda s: (an.SeedCoherenceAnalyzer, (seed1(s), s), {'method': welch()}), ['coherence', 'coherency', 'relative_phases', 'delay'])
    add('CorrelationAnalyzer', lambda s: (an.CorrelationAnalyzer, (s,), {}), ['corrcoef', 'xcorr', 'xcorr_norm'])
    add('SeedCorrelationAnalyzer', lambda s: (an.SeedCorrelationAnalyzer, (seed1(s), s), {}), ['corrcoef'])
    add('NormalizationAnalyzer', lambda s: (an.NormalizationAnalyzer, (s,), {}), ['percent_change', 'z_score'])
    add('HilbertAnalyzer', lambda s: (an.HilbertAnalyzer, (s,), {}), ['analytic', 'amplitude', 'phase', 'real', 'imag'])
    add('MorletWaveletAnalyzer', lambda s: (an.MorletWaveletAnalyzer, (seed1(s),), {'freqs': 0.2, 'sd_rel': 0.2}), ['analytic', 'amplitude', 'phase', 'real', 'imag'])
    add('MorletWaveletAnalyzer-sd-range', lambda s: (an.MorletWaveletAnalyzer, (seed1(s),), {'freqs': None, 'sd': 0.05, 'f_min': 0.1, 'f_max': 0.4, 'nfreqs': 3, 'log_spacing': True, 'log_morlet': True}), ['analytic', 'amplitude'])
    add('MorletWaveletAnalyzer-freq-array', lambda s: (an.MorletWaveletAnalyzer, (seed1(s),), {'freqs': np.array([0.1, 0.2]), 'sd_rel': 0.2}), ['analytic', 'amplitude'])
    add('SNRAnalyzer', lambda s: (an.SNRAnalyzer, (s,), {}), ['mt_noise_psd', 'mt_signal_psd', 'mt_coherence', 'mt_information', 'correlation'])
    add('GrangerAnalyzer', lambda s: (an.GrangerAnalyzer, (s,), {'order': 2}), ['causality_xy', 'causality_yx', 'simultaneous_causality', 'frequencies'])
    add('GrangerAnalyzer-ij', lambda s: (an.GrangerAnalyzer, (s,), {'order': 2, 'ij': [(0, 1), (1, 2)]}), ['causality_xy', 'causality_yx'])

    def ev_series(s):
        e = np.zeros(s.data.shape[-1], dtype=int)
        e[[5, 30, 60, 90]] = 1
        e[[15, 45, 75]] = 2
        return t.TimeSeries(e, sampling_interval=s.sampling_interval, t0=s.t0)
    add('EventRelatedAnalyzer', lambda s: (an.EventRelatedAnalyzer, (s, ev_series(s), 6), {}), ['FIR', 'xcorr_eta', 'et_data', 'eta', 'ets'])
    add('EventRelatedAnalyzer-zscore-offset', lambda s: (an.EventRelatedAnalyzer, (s, ev_series(s), 6), {'zscore': True, 'correct_baseline': True, 'offset': -2}), ['eta', 'ets'])
    add('EventRelatedAnalyzer-events', lambda s: (an.EventRelatedAnalyzer, (s, t.Events(t.TimeArray([3.0, 12.0, 20.0, 31.0], time_unit='s'), i=[1, 2, 1, 2]), 6), {}), ['eta', 'ets', 'et_data'])
    return L


READONLY_MSG = ('read-only', 'readonly', 'WRITEABLE')


def freeze(x, depth=0):
    """mark every ndarray reachable from an argument read-only"""
    if isinstance(x, np.ndarray):
        base = x
        while isinstance(base, np.ndarray):
            try:
                base.flags.writeable = False
            except ValueError:
                pass
            base = base.base
    elif isinstance(x, dict) and depth < 3:
        for v in x.values():
            freeze(v, depth + 1)
    elif isinstance(x, (list, tuple)) and depth < 3:
        for v in x:
            freeze(v, depth + 1)
    elif isinstance(getattr(x, 'data', None), np.ndarray) and depth < 3:
        freeze(x.data, depth + 1)


def arrays_in(x, depth=0):
    if isinstance(x, np.ndarray):
        yield x
    elif isinstance(x, dict) and depth < 3:
        for v in x.values():
            for a in arrays_in(v, depth + 1):
                yield a
    elif isinstance(x, (list, tuple)) and depth < 3:
        for v in x:
            for a in arrays_in(v, depth + 1):
                yield a
    elif hasattr(x, 'data') and isinstance(getattr(x, 'data', None), np.ndarray) and depth < 3:
        yield x.data


def dict_delta(b0, b1):
    """'+added~changed-removed' (sorted key names) between two snapshots of a dict argument"""
    if not (b0[0] == 'D' and b1[0] == 'D'):
        return 'replaced'
    d0, d1 = dict(b0[1]), dict(b1[1])
    nm = lambda k: k.strip("'\"")
    return ''.join(['+' + nm(k) for k in sorted(d1) if k not in d0] + ['~' + nm(k) for k in sorted(d1) if k in d0 and d0[k] != d1[k]] +
                   ['-' + nm(k) for k in sorted(d0) if k not in d1])


def arg_label(lab):
    return 'method-dict' if lab in ('method', 'csd_method') else lab


OPTION_FAMILIES = ('generic', 'zero-mean', 'L1-int32')


def call_entry(name, f, a, k):
    """one call of an entry point with the global numpy generator in a fixed state -> (result, kind of exception or None)"""
    import zlib
    np.random.seed(zlib.crc32(name.encode()) & 0x7fffffff)
    try:
        return f(*a, **k), None
    except Exception as e:  # noqa
        return None, err_kind(e)


def sweep(tier, seed, only=None):
    """snapshots around every entry point, over every input family; returns (failures, stats)

    per call: (1) every argument (arrays, series, dicts, lists) is snapshotted before and compared after,
    whether the call returns or raises; (2) when it returns, no array of the result may share memory with an
    argument (unless the routine hands back its argument by design) or with the result of another call; (3) the same
    call is repeated on identical inputs whose buffers are marked read-only: a call that returned before and is now
    refused by numpy because it writes to its argument shows the write even where the values written happen to equal
    the old ones; (4) PROCESS HISTORY: after all entry points of the table have been called, every result handed out
    earlier must still hold what it held; then the table is run again with other sizes / values, the caller overwrites
    everything it was handed (the arguments must not change by that), and the table is run a third time on fresh
    buffers equal to the first ones: equal arguments => equal result; (5) every optional parameter an entry leaves at
    its default is set to non-default and falsy values (arguments unchanged, returned or raised)."""
    import warnings
    import c16_ext as X
    fails, ncalls, nraised, names, nro, nalias = [], 0, 0, set(), 0, 0
    nsecond, nopt, nana2 = 0, 0, 0
    variants = [0] if tier == 'quick' else [0, 1, 2]
    fams = QUICK_FAMILIES if tier == 'quick' else FAMILIES
    famcount = {}
    with warnings.catch_warnings():
        warnings.simplefilter('ignore')
        reps = 1 if tier == 'quick' or only else 3          # thorough: three independent draws of every family
        for v, rep_i in [(v, r) for v in variants for r in range(reps)]:
            if only and only.get('variant') is not None and v != only['variant']:
                continue
            for fam in fams:
                if only and only.get('fam') not in (None, fam):
                    continue
                stream = 'sweep/%d/%s' % (v, fam) + ('' if rep_i == 0 else '/%d' % rep_i)
                base_fam = 'generic' if fam.startswith('L1-') else fam

                def build(stream_, v_=v, fam=fam, base_fam=base_fam):
                    E_ = entry_points(np_rng(PID, seed, stream_), v_, base_fam)
                    return X.retype_entries(E_, fam[3:]) if fam.startswith('L1-') else E_
                try:
                    E = build(stream)
                    E_ro = build(stream)     # identical inputs, separate buffers
                    E3 = build(stream)
                except Exception as e:  # noqa
                    fails.append(Failure('entry/setup/%s/%s' % (fam, err_kind(e)), 'cannot build the entry-point table for family %s: %r' % (fam, e), {'what': 'sweep'}))
                    continue
                hist = X.History(fam, {'what': 'sweep', 'variant': v, 'fam': fam, 'seed': seed})

                def one_call(name, f, a, k, f2=None, a2=None, k2=None, keyname=None, record=True):
                    """(1)-(3) for one call; returns True when an argument was modified"""
                    nonlocal ncalls, nraised, nro
                    keyname = keyname or name
                    rep = {'what': 'sweep', 'name': name.split('?')[0], 'variant': v, 'fam': fam, 'seed': seed}
                    labels = ['arg%d' % i for i in range(len(a))] + [arg_label(key) for key in sorted(k)]
                    argv = list(a) + [k[key] for key in sorted(k)]
                    before = [snap(x) for x in argv]
                    res, raised = call_entry(name, f, a, k)
                    nraised += 1 if raised else 0
                    ncalls += 1
                    names.add(keyname)
                    famcount[fam] = famcount.get(fam, 0) + 1
                    after = [snap(x) for x in argv]
                    hit = False
                    for lab, b0, b1 in zip(labels, before, after):
                        dd = differs(b0, b1)
                        if dd:
                            hit = True
                            sym = 'argument-mutated/' + dict_delta(b0, b1) if lab == 'method-dict' else dd
                            fails.append(Failure('entry/%s/%s%s%s' % (keyname, lab, '/' if lab == 'method-dict' else '-', sym),
                                                 'nitime %s %s its argument `%s` modified (%s); input family: %s' % (name, 'raised (%s) and left' % raised if raised else 'returned with', lab, dd, fam), rep))
                    if raised and 'non-contiguous' in name:
                        fails.append(Failure('entry/%s/refused' % name, 'periodogram_csd refuses a non-contiguous input', rep))
                    if hit:
                        return True
                    if record:
                        hist.record(name, labels, argv, after, res, raised)
                    # (3) the same call on read-only buffers
                    if not raised and f2 is not None:
                        argv2 = list(a2) + [k2[key] for key in sorted(k2)]
                        for x in argv2:
                            freeze(x)
                        _, e2 = call_entry(name, f2, a2, k2)
                        if e2 is not None:
                            try:
                                np.random.seed(0)
                                f2(*a2, **k2)
                                msg = ''
                            except Exception as e:  # noqa
                                msg = str(e) if isinstance(e, (ValueError, TypeError)) else ''
                            if any(m in msg for m in READONLY_MSG) and 'buffer source array' not in msg:
                                fails.append(Failure('entry/%s/writes-to-read-only-argument' % keyname,
                                                     'nitime %s returns normally on writable inputs but is refused on the same inputs marked read-only (%s): it writes to an argument; input family: %s' % (name, msg[:80], fam), rep))
                        nro += 1
                    return False

                for (name, f, a, k), (_, f2, a2, k2) in zip(E, E_ro):
                    if only and only.get('name') not in (None, name):
                        continue
                    one_call(name, f, a, k, f2, a2, k2)
                # (4) process history
                hist.judge_handed_out(fails, 'by-a-later-call')
                n0 = len(fails)
                hist.judge_aliases(fails)
                nalias += len(hist.items)
                if not only or only.get('name') is None:
                    # other sizes, then the SAME sizes with other values (a memo keyed by shape / by id answers stale)
                    for stream_p, v_p in ((stream + '/perturb', 1 if v == 0 else 0), (stream + '/perturb-same-shapes', v)):
                        try:
                            for name, f, a, k in build(stream_p, v_p):
                                r_, _ = call_entry(name, f, a, k)
                                if not name.startswith(X.RESULT_MAY_BE_ARGUMENT):
                                    X.histories.scribble(r_)
                        except Exception:  # noqa
                            pass
                hist.scribble(fails)
                nsecond += hist.judge_second_pass(fails, [e for e in E3 if not only or only.get('name') in (None, e[0])], call_entry)
                # (5) optional parameters
                if fam in OPTION_FAMILIES or tier != 'quick':
                    for tag, f, a, k in X.option_variants([e for e in E3 if not only or only.get('name') in (None, e[0])]):
                        base, par = tag.split('?')[0], tag.split('?')[1].split('=')[0]
                        one_call(tag, f, a, k, keyname='%s/opt:%s' % (base, par), record=False)
                        nopt += 1
                # analyzers
                T = ts().TimeSeries
                pending = []
                instances = {}

                def ana_data(name_):
                    d = np.asarray(fam_array(np_rng(PID, seed, stream + '/' + name_), (3, 128), base_fam if base_fam not in ('one-channel', 'masked') else 'generic'))
                    if fam.startswith('L1-'):
                        y = X.retype_array(d, fam[3:])
                        d = d if y is None else y
                    return d

                def ana_series(name_, other=False):
                    if other:       # another recording: other values, length, sampling rate, start and unit
                        d_ = np.asarray(fam_array(np_rng(PID, seed, stream + '/other/' + name_), (3, 160), 'generic'))
                        return T(d_, sampling_interval=250.0, t0=0.0, time_unit='ms')
                    s_ = T(ana_data(name_).copy(), sampling_interval=0.5, t0=2.0, time_unit='s')
                    s_.metadata['k'] = [1, 2]
                    _ = s_.time
                    return s_

                def run_analyzer(name, build_, attrs, kw_override=None, where0=None, keep=False, other=False):
                    nonlocal ncalls, nraised
                    where0 = where0 or name
                    try:
                        s_in = ana_series(name, other)
                    except Exception:  # noqa
                        return None
                    rep = {'what': 'sweep', 'name': name, 'variant': v, 'fam': fam, 'seed': seed}
                    try:
                        cls, a, k = build_(s_in)
                    except Exception:  # noqa
                        return None
                    if kw_override is not None:
                        k = dict(k, **kw_override)
                    labels = ['arg%d' % i for i in range(len(a))] + [arg_label(key) for key in sorted(k)]
                    argv = list(a) + [k[key] for key in sorted(k)]
                    state = {'before': [snap(x) for x in argv]}

                    def compare(where):
                        after = [snap(x) for x in argv]
                        for lab, x, b0, b1 in zip(labels, argv, state['before'], after):
                            if b0 == b1:
                                continue
                            if x is s_in:
                                what = 'data' if dict(b1[1])['data'] != dict(b0[1])['data'] else 'attributes'
                                fails.append(Failure('analyzer/%s/input-%s-changed' % (where, what),
                                                     '%s modified the input time series (%s); input family: %s' % (where, what, fam), rep))
                            elif lab == 'method-dict':
                                fails.append(Failure('entry/%s/method-dict/argument-mutated/%s' % (where, dict_delta(b0, b1)),
                                                     '%s changed the `method` dict passed by the caller: %s -> %r' % (where, '{%s}' % ', '.join('%s: %s' % (k_, v_[-1]) for k_, v_ in b0[1]) if b0[0] == 'D' else b0, x), rep))
                            else:
                                fails.append(Failure('entry/%s/%s-argument-mutated' % (where, lab), '%s changed its argument `%s` (%s)' % (where, lab, differs(b0, b1)), rep))
                        state['before'] = after
                    np.random.seed(1)
                    try:
                        A_ = cls(*a, **k)
                    except Exception:  # noqa
                        nraised += 1
                        compare(where0)
                        return None
                    ncalls += 1
                    compare(where0)
                    outs = []
                    for at in attrs:
                        try:
                            val = getattr(A_, at)
                            outs.append([at, val, X.canon(val)])
                        except Exception as e:  # noqa
                            nraised += 1
                            outs.append([at, None, ('raised', err_kind(e))])
                        ncalls += 1
                        names.add(where0 + '.' + at)
                        compare(where0 + '.' + at)
                    if keep:
                        # outputs must be new objects: no memory shared with the input series
                        for at, val, _ in outs:
                            for r in X.result_arrays(val):
                                if any(X.overlaps(r, xa) for x in argv for xa in X.arg_arrays([x])):
                                    fails.append(Failure('analyzer/%s.%s/output-shares-memory-with-input' % (where0, at),
                                                         'the output %s of %s shares memory with a constructor argument; input family: %s' % (at, where0, fam), rep))
                                    break
                        # L6: what was handed out by an earlier read still holds what it held
                        for at, val, c0 in outs:
                            if c0[0] != 'raised' and not X.same(c0, X.canon(val)):
                                fails.append(Failure('analyzer/%s.%s/earlier-output-changed-by-later-read' % (where0, at),
                                                     'the output %s of %s handed out earlier was changed by a later read; input family: %s' % (at, where0, fam), rep))
                        for at, val, _ in outs:
                            X.histories.scribble(val)
                        compare(where0 + '.output-overwritten')
                    instances[where0] = (A_, argv)
                    return outs

                for name, build_, attrs in analyzers(None):
                    if only and only.get('name') not in (None, name):
                        continue
                    outs = run_analyzer(name, build_, attrs, keep=True)
                    if outs is not None:
                        pending.append((name, build_, attrs, outs))
                    if (fam in OPTION_FAMILIES or tier != 'quick') and outs is not None:
                        try:
                            cls0, a0, k0 = build_(ana_series(name))
                        except Exception:  # noqa
                            continue
                        for tag, k2 in X.analyzer_option_variants(cls0, a0, k0):
                            par = tag.split('=')[0]
                            run_analyzer(name, build_, attrs, kw_override={par: k2[par]}, where0='%s[opt:%s]' % (name, par))
                            nopt += 1
                # perturbation: the same analyzer classes on ANOTHER recording (other rate / length / unit): class-level or module-level
                # defaults that remember the first input would now describe this one
                for name, build_, attrs, outs in pending:
                    o_ = run_analyzer(name, build_, attrs, where0=name + '[other-recording]', other=True)
                    for at, val, _ in (o_ or []):
                        X.histories.scribble(val)
                    # two analyzers built from separate arguments share no mutable attribute object
                    if name in instances and name + '[other-recording]' in instances:
                        (A1, argv1), (A2, argv2) = instances[name], instances[name + '[other-recording]']
                        mine = {id(x) for x in list(argv1) + list(argv2)}
                        for at_ in sorted(set(vars(A1)) & set(vars(A2))):
                            o1, o2 = vars(A1)[at_], vars(A2)[at_]
                            if o1 is o2 and id(o1) not in mine and (isinstance(o1, (dict, list, set, np.ndarray)) or type(o1).__module__.startswith('nitime')):
                                fails.append(Failure('analyzer/%s/instances-share-attribute-object/%s' % (name, at_),
                                                     'two %s objects built from separate arguments hold the SAME %s object in `.%s` (state shared between analyzers: what one fills in, the other sees)' % (name, type(o1).__name__, at_),
                                                     {'what': 'sweep', 'name': name, 'variant': v, 'fam': fam, 'seed': seed}))
                # second pass: a NEW analyzer on an equal series, after every other analyzer ran and every output was overwritten
                for name, build_, attrs, outs in pending:
                    outs2 = run_analyzer(name, build_, attrs)
                    nana2 += 1
                    if outs2 is None:
                        continue
                    rep = {'what': 'sweep', 'name': name, 'variant': v, 'fam': fam, 'seed': seed}
                    for (at, _, c0), (_, _, c1) in zip(outs, outs2):
                        if not X.same(c0, c1):
                            fails.append(Failure('analyzer/%s.%s/second-analyzer-differs' % (name, at),
                                                 'a new %s on an equal series (after other analyzers ran and the caller overwrote the earlier outputs) gives another %s; input family: %s' % (name, at, fam), rep))
    return fails, {'entry_calls': ncalls, 'entry_points': len(names), 'raised': nraised, 'families': len(famcount),
                   'read_only_repeats': nro, 'results_checked_for_shared_memory': nalias, 'second_pass_calls': nsecond,
                   'option_variant_calls': nopt, 'second_analyzers': nana2}


def copies(tier, seed):
    """copies followed by in-place operations; attribute objects of views / copies"""
    fails = []
    t = ts()
    u = t.UniformTime(t0=1, length=4, sampling_interval=2, time_unit='ms')
    for nm, mk in (('copy', lambda: u.copy()), ('view', lambda: u[:]), ('slice', lambda: u[1:3])):
        c = mk()
        shared = [a for a in ('t0', 'sampling_interval', 'duration') if getattr(c, a) is getattr(u, a)]
        if shared:
            fails.append(Failure('axis-%s/shared-attrs' % nm, 'a %s of a UniformTime shares the mutable attribute objects %s with the original' % (nm, shared), {'what': 'copies'}))
        before = snap(u)
        si = c.sampling_interval
        si += 5              # a user (or the library) updating the attribute object in place
        if nm == 'copy':
            c += np.arange(4)
            c *= 3
            if snap(u) != before:
                fails.append(Failure('axis-copy/original-changed', 'operating on a copy of a UniformTime changed the original', {'what': 'copies'}))
        elif snap(np.asarray(u.sampling_interval)) != snap(np.asarray(t.TimeArray(2, time_unit='ms'))):
            fails.append(Failure('axis-%s/original-changed' % nm, 'updating the interval object of a %s changed the original\'s interval' % nm, {'what': 'copies'}))
    # operands that ARE (or alias) the axis' own attribute objects: `shift = u.t0; u -= shift` must leave `shift` alone
    for unit in ('s', 'ms', 'ps'):
        for opn, op in (('isub', operator.isub), ('iadd', operator.iadd)):
            for attr in ('t0', 'sampling_interval', 'duration'):
                a = t.UniformTime(t0=3, length=5, sampling_interval=2, time_unit=unit)
                operand = getattr(a, attr)
                b0 = snap(np.asarray(operand))
                try:
                    a = op(a, operand)
                except Exception:  # noqa
                    pass
                if snap(np.asarray(operand)) != b0:
                    fails.append(Failure('axis-%s/own-attribute-operand-changed' % opn,
                                         'UniformTime %s with its own %s object as operand changed that operand' % (opn, attr), {'what': 'copies'}))
        a = t.UniformTime(t0=3, length=5, sampling_interval=2, time_unit=unit)
        first, ramp = a[0], t.TimeArray(np.asarray(a).copy(), time_unit='ps')
        bf, br = snap(np.asarray(first)), snap(np.asarray(ramp))
        a += ramp
        a -= first
        a *= 2
        sl = a[1:4:2]
        sl += first
        if snap(np.asarray(first)) != bf or snap(np.asarray(ramp)) != br:
            fails.append(Failure('axis-inplace/derived-operand-changed', 'in-place operations changed an operand derived from the axis', {'what': 'copies'}))
    ta = t.TimeArray([1, 2, 3], time_unit='ms')
    tb = t.TimeArray(ta)
    tb += 1
    if [int(v) for v in ta] != [10**9, 2 * 10**9, 3 * 10**9]:
        fails.append(Failure('timearray-ctor-copy/original-changed', 'TimeArray(t) shares its buffer with t', {'what': 'copies'}))
    s = t.TimeSeries(np.arange(12.).reshape(3, 4), sampling_interval=0.5, t0=1.0)
    s.metadata['name'] = 'x'
    _ = s.time
    before = snap(s)
    c = s.copy()
    c += 1.5
    c *= 2
    c.data[0, 0] = -7
    c.time += np.arange(4)
    c.metadata['name'] = 'y'
    if snap(s) != before:
        fails.append(Failure('series-copy/original-changed', 'in-place operations on TimeSeries.copy() reached the original: %s' % ('data' if not np.array_equal(s.data, np.arange(12.).reshape(3, 4)) else 'time/metadata'), {'what': 'copies'}))
    for nm, f in (('add', operator.add), ('sub', operator.sub), ('mul', operator.mul), ('truediv', operator.truediv)):
        o = np.arange(1., 5.)
        b2 = snap(o)
        r = f(s, o)
        r.data[0, 0] = 99
        if snap(s) != before or snap(o) != b2:
            fails.append(Failure('series-%s/operand-changed' % nm, 'TimeSeries %s changed an operand' % nm, {'what': 'copies'}))
    return fails


def mutate_axis(c):
    """every in-place change a holder of the axis `c` can make (exceptions are irrelevant here)"""
    t = ts()
    acts = [lambda: operator.iadd(c, 5), lambda: operator.iadd(c, np.arange(len(c))), lambda: operator.imul(c, 2),
            lambda: operator.isub(c, t.TimeArray(1, time_unit='s'))]
    for a in ('t0', 'sampling_interval', 'duration'):
        acts.append(lambda a=a: operator.iadd(getattr(c, a), 7))
    for f in acts:
        try:
            f()
        except Exception:  # noqa
            pass


def axis_copy_forms(tier, seed):
    """every way to obtain a copy of an axis: identity of attribute objects, then all in-place
    changes on the copy; the original must stay bit for bit (samples, attributes, unit)"""
    import copy as cp, pickle
    t = ts()
    fails = []
    forms = [('copy', lambda u: u.copy()), ('copy.copy', lambda u: cp.copy(u)), ('copy.deepcopy', lambda u: cp.deepcopy(u)),
             ('fancy-index', lambda u: u[list(range(len(u)))]), ('plus-zero', lambda u: u + 0),
             ('np.array-subok', lambda u: np.array(u, subok=True)), ('pickle', lambda u: pickle.loads(pickle.dumps(u))),
             ('ctor', lambda u: t.UniformTime(u)), ('bool-index', lambda u: u[np.ones(len(u), dtype=bool)])]
    for unit in ('s', 'ms'):
        for nm, mk in forms:
            u = t.UniformTime(t0=3, length=4, sampling_interval=2, time_unit=unit)
            try:
                c = mk(u)
            except Exception:  # noqa
                continue
            if not isinstance(c, np.ndarray):
                continue
            shared = [a for a in ('t0', 'sampling_interval', 'duration') if getattr(c, a, None) is not None and getattr(c, a, None) is getattr(u, a)]
            if np.shares_memory(np.asarray(c), np.asarray(u)):
                shared.append('samples')
            if shared:
                fails.append(Failure('axis-%s/shared-%s' % (nm, '+'.join(shared)), 'the copy of a UniformTime made by %s shares %s with the original' % (nm, shared), {'what': 'copies'}))
            before = snap(u)
            mutate_axis(c)
            if snap(u) != before:
                fails.append(Failure('axis-%s/original-changed' % nm, 'in-place operations on the copy of a UniformTime made by %s changed the original' % nm, {'what': 'copies'}))
    return fails


def series_share_nothing(tier, seed):
    """results of TimeSeries copy / arithmetic share no mutable object with their operands, in both
    lazily-initialised states (`.time` read before or not): every mutable part of the RESULT is
    changed in place, the operands are snapshotted"""
    t = ts()
    fails = []
    producers = [('copy', lambda x, a: x.copy())]
    for nm, f in (('add', operator.add), ('sub', operator.sub), ('mul', operator.mul), ('truediv', operator.truediv)):
        producers.append((nm + '-array', lambda x, a, f=f: f(x, a)))
        producers.append((nm + '-scalar', lambda x, a, f=f: f(x, 2.0)))
        producers.append((nm + '-series', lambda x, a, f=f: f(x, t.TimeSeries(a.copy(), sampling_interval=0.5, t0=1.0))))
        # operands on which "nothing to do" short cuts would trigger: the neutral element as scalar / array / series
        neutral = 0.0 if nm in ('add', 'sub') else 1.0
        producers.append((nm + '-neutral-scalar', lambda x, a, f=f, e=neutral: f(x, e)))
        producers.append((nm + '-neutral-int', lambda x, a, f=f, e=neutral: f(x, int(e))))
        producers.append((nm + '-neutral-array', lambda x, a, f=f, e=neutral: f(x, np.full(4, e))))
        producers.append((nm + '-neutral-full-array', lambda x, a, f=f, e=neutral: f(x, np.full((3, 4), e))))
        producers.append((nm + '-neutral-series', lambda x, a, f=f, e=neutral: f(x, t.TimeSeries(np.full((3, 4), e), sampling_interval=0.5, t0=1.0))))
    for lazy in (False, True):
        for nm, mk in producers:
            def fresh():
                x = t.TimeSeries(np.arange(1., 13.).reshape(3, 4), sampling_interval=0.5, t0=1.0, time_unit='s')
                x.metadata['name'] = 'x'
                x.metadata['tags'] = [1, 2]
                return x
            x = fresh()
            a = np.arange(1., 5.)
            if lazy:
                _ = x.time
            want_time = snap(fresh().time)
            bx, ba = snap(x), snap(a)
            try:
                r = mk(x, a)
            except Exception:  # noqa
                continue
            parts = []
            if r.data is x.data or np.shares_memory(r.data, x.data):
                parts.append('data')
            if 'time' in r.__dict__ and 'time' in x.__dict__ and r.__dict__['time'] is x.__dict__['time']:
                parts.append('time')
            for at in ('t0', 'sampling_interval', 'duration'):
                if isinstance(getattr(r, at, None), np.ndarray) and getattr(r, at) is getattr(x, at, None):
                    parts.append(at)
            if r.metadata is x.metadata:
                parts.append('metadata')
            # change every mutable part of the result in place
            acts = [lambda: r.data.__setitem__((0, 0), -7.0), lambda: r.data.__imul__(3), lambda: operator.iadd(r, 1.5),
                    lambda: operator.iadd(r.time, 5), lambda: operator.imul(r.time, 2), lambda: operator.iadd(r.time.t0, 3),
                    lambda: operator.iadd(r.t0, 11), lambda: operator.iadd(r.sampling_interval, 13),
                    lambda: r.metadata.__setitem__('name', 'y'), lambda: r.metadata['tags'].append(3)]
            for f in acts:
                try:
                    f()
                except Exception:  # noqa
                    pass
            changed = []
            ax_ = snap(x)
            if ax_ != bx:
                d0, d1 = dict(bx[1]), dict(ax_[1])
                if 'time' not in d0:
                    d1.pop('time', None)     # the lazily created axis (a cache filled by copy()); its content is checked below
                changed += ['operand.' + k for k in sorted(set(d0) | set(d1)) if d0.get(k) != d1.get(k)]
            if snap(a) != ba:
                changed.append('array-operand')
            if snap(x.time) != want_time:
                changed.append('operand.time')
            try:
                if float(x.at(t.TimeArray(1.5))[0]) != 2.0:
                    changed.append('operand.at')
            except Exception:  # noqa
                changed.append('operand.at-raises')
            state = 'time-read' if lazy else 'time-unread'
            if changed:
                fails.append(Failure('series-%s/%s/result-mutation-reaches-%s' % (nm, state, '+'.join(changed)),
                                     'changing the result of TimeSeries %s in place (with the operand\'s .time %s before) changed %s; shared objects: %s'
                                     % (nm, 'read' if lazy else 'not read', changed, parts or 'none by identity'), {'what': 'copies'}))
            elif parts:
                fails.append(Failure('series-%s/%s/shares-%s' % (nm, state, '+'.join(parts)),
                                     'the result of TimeSeries %s shares %s with its operand' % (nm, parts), {'what': 'copies'}))
    return fails


def unmodelled_operands(tier, seed):
    """operand kinds the Lean model does not cover (int32 / float64 arrays, float lists, numpy
    scalars): snapshots around every operator, element assignment and += / -= """
    fails, n = [], 0
    t = ts()
    rs = np_rng(PID, seed, 'operands')
    reps = 2 if tier == 'quick' else 12
    mk = {
        'int32': lambda m: rs.randint(-50, 50, size=m).astype(np.int32),
        'float64': lambda m: np.round(rs.uniform(-50, 50, size=m), 3),
        'floatlist': lambda m: [float(v) for v in np.round(rs.uniform(-50, 50, size=m), 2)],
        'int64-0d': lambda m: np.array(int(rs.randint(-50, 50))),
        'float64-noncontig': lambda m: np.round(rs.uniform(-50, 50, size=2 * m), 3)[::2],
        # values / dtypes on which a conversion has nothing to do
        'int64-zeros': lambda m: np.zeros(m, dtype=np.int64),
        'float64-zeros': lambda m: np.zeros(m),
        'float64-intvalued': lambda m: np.round(rs.uniform(-50, 50, size=m)),
        'int64': lambda m: rs.randint(-50, 50, size=m).astype(np.int64),
        'int64-fortran-2d': lambda m: np.asfortranarray(rs.randint(-50, 50, size=(1, m)).astype(np.int64)),
        'uint8': lambda m: rs.randint(0, 50, size=m).astype(np.uint8),
    }
    ops = dict(c01.OPS_AR)
    ops.update(c01.OPS_CMP)
    for _ in range(reps):
        for unit in ('ps', 'us', 's', 'h'):      # 'ps': the conversion factor is 1
            for kind, f in mk.items():
                m = int(rs.randint(1, 5))
                for opn, fn in ops.items():
                    # TimeArray and (since repo fix 47d27c9, same conversion) UniformTime as the left operand
                    for cls_name, left in (('TimeArray', lambda: t.TimeArray(np.arange(m), time_unit=unit)),
                                           ('UniformTime', lambda: t.UniformTime(t0=0, sampling_interval=1, length=m, time_unit=unit))):
                        v = f(m)
                        b = snap(v)
                        try:
                            lhs = left()
                            lb = snap(lhs)
                            fn(lhs, v)
                            if snap(lhs) != lb:
                                fails.append(Failure('binop/%s/%s/%s-self-changed' % (opn, kind, cls_name), '%s %s with a %s operand modified the time object itself' % (cls_name, opn, kind), {'what': 'operands'}))
                        except Exception:  # noqa
                            pass
                        n += 1
                        dd = differs(b, snap(v))
                        if dd:
                            fails.append(Failure('binop/%s/%s/operand-%s' % (opn, kind, dd), '%s %s modified its %s operand (%s)' % (cls_name, opn, kind, dd), {'what': 'operands'}))
                v = f(m)
                b = snap(v)
                try:
                    ta = t.TimeArray(np.arange(m + 1), time_unit=unit)
                    ta[0:m] = v
                except Exception:  # noqa
                    pass
                n += 1
                dd = differs(b, snap(v))
                if dd:
                    fails.append(Failure('setitem/%s/operand-%s' % (kind, dd), 'TimeArray.__setitem__ modified its %s operand (%s)' % (kind, dd), {'what': 'operands'}))
                for sgn in ('iadd', 'isub'):
                    for shape in ('uniform', 'nonuniform', 'almost'):
                        if shape == 'almost' and (kind in ('uint8', 'int64-0d', 'int64-zeros', 'float64-zeros') or unit in ('s', 'h')):
                            continue
                        if kind == 'int64-0d':
                            v = f(1)
                        else:
                            base = np.arange(4) * (2 if kind != 'floatlist' else 2.0)
                            if shape == 'nonuniform':
                                base = base + np.array([0, 0, 1, 0])
                            if shape == 'almost':
                                base = np.arange(4) * 10**6 + np.array([0, 0, 1, 0])
                            if kind in ('int64-zeros', 'float64-zeros'):
                                base = base * 0
                            v = (base.astype(np.int32) if kind == 'int32' else list(map(float, base)) if kind == 'floatlist' else
                                 np.repeat(base.astype(float), 2)[::2] if kind == 'float64-noncontig' else
                                 base.astype(np.int64) if kind in ('int64', 'int64-zeros') else base.astype(np.uint8) if kind == 'uint8' else
                                 np.asfortranarray(base.astype(np.int64).reshape(1, -1)) if kind == 'int64-fortran-2d' else base.astype(float))
                        b = snap(v)
                        u = t.UniformTime(t0=0, sampling_interval=10, length=4, time_unit=unit)
                        ub = snap(u)
                        try:
                            u = getattr(operator, sgn)(u, v)
                            raised = False
                        except Exception:  # noqa
                            raised = True
                        n += 1
                        dd = differs(b, snap(v))
                        if dd:
                            fails.append(Failure('uniform-%s/%s/%s/operand-%s' % (sgn, shape, kind, dd), 'UniformTime %s modified its %s operand (%s)' % (sgn, kind, dd), {'what': 'operands'}))
                        if shape == 'almost' and not raised:
                            fails.append(Failure('uniform-%s/almost/%s/non-uniform-operand-accepted' % (sgn, kind),
                                                 'UniformTime %s accepted the %s operand [0, 1000000, 2000001, 3000000] %s, which is not equally spaced' % (sgn, kind, unit), {'what': 'operands'}))
                        if raised and snap(u) != ub:
                            fails.append(Failure('uniform-%s/%s/%s/changed-on-reject' % (sgn, shape, kind), 'a refused UniformTime %s (%s %s operand) changed the axis' % (sgn, shape, kind), {'what': 'operands'}))
    return fails, n


def oracle(rng, tier, seed, focus, cases=None):
    fails = []
    for c in (cases or []):
        f = judge_case(c) if (c.meta or {}).get('what') != 'seriescopy' else None
        if f:
            fails.append(f)
    def guarded(name, fn, default):
        # an experiment dying inside the library is a finding about the library, not a harness crash
        try:
            return fn()
        except Exception as e:  # noqa
            import traceback
            tb = traceback.extract_tb(e.__traceback__)
            where = next((f for f in reversed(tb) if '/nitime/' in f.filename), tb[-1])
            fails.append(Failure('experiment/%s/raises-%s' % (name, err_kind(e)),
                                 'the %s experiment died inside the library: %r at %s:%s' % (name, e, where.filename.split('/')[-1], where.name),
                                 {'what': 'copies' if name != 'sweep' else 'sweep'} if not name.startswith('r2-') else {'what': 'r2', 'part': {'r2-series': 'series', 'r2-entry-failures': 'entry-failures', 'r2-entry-aliases': 'entry-aliases', 'r2-analyzers': 'analyzers', 'r2-axis-operands': 'axis-operands'}[name]}))
            return default
    f2, stats = guarded('sweep', lambda: sweep(tier, seed), ([], {}))
    fails += f2
    fails += guarded('copies', lambda: copies(tier, seed), [])
    fails += guarded('axis-copy-forms', lambda: axis_copy_forms(tier, seed), [])
    fails += guarded('series-share-nothing', lambda: series_share_nothing(tier, seed), [])
    f3, n3 = guarded('operands', lambda: unmodelled_operands(tier, seed), ([], 0))
    fails += f3
    stats['unmodelled_operand_calls'] = n3
    import c16_r2
    f4, s4 = c16_r2.oracle(tier, seed, cases, guarded)      # round 2: failure paths (L7), aliasing (L8)
    fails += f4
    stats.update(s4)
    for f in fails:
        f.replay = dict(f.replay, key=f.key)
    stats.update(judged=len(cases or []), failed=len(fails), distinct_keys=len({f.key for f in fails}))
    return fails, stats


def replay(d):
    import common
    known = common.load_findings(PID)
    if str(d.get('key', '')).startswith('experiment/'):
        fs, _ = oracle(None, 'quick', 0, [], [])
        return next((f for f in fs if f.key == d['key']), None)
    if d.get('what') == 'r2':
        import c16_r2
        fs = c16_r2.replay(d)
    elif d.get('what') == 'seriescopy':
        import c16_r2
        f = c16_r2.rejudge_seriescopy(d)
        fs = [f] if f else []
    elif d.get('what') == 'sweep':
        # the recorded entry point in the recorded family / size variant; when that does not reproduce, the whole table of
        # that family (a history failure may need the other entries to have run)
        only = {'name': d.get('name'), 'fam': d.get('fam'), 'variant': d.get('variant')} if d.get('name') and d.get('fam') else None
        fs, _ = sweep('thorough', int(d.get('seed', 0)), only=only)
        if only and not any(f.key == d.get('key') for f in fs):
            fs, _ = sweep('thorough', int(d.get('seed', 0)), only={'fam': d.get('fam'), 'variant': d.get('variant')})
    elif d.get('what') == 'copies':
        fs = copies('quick', 0) + axis_copy_forms('quick', 0) + series_share_nothing('quick', 0)
    elif d.get('what') == 'operands':
        fs = unmodelled_operands('thorough', 0)[0]
    else:
        f = rejudge(d)
        fs = [f] if f else []
    want = d.get('key')
    for f in fs:
        if f.key == want or (want is None and not common.match_known(f.key, known)):
            return f
    return None
