"""C16 — operations never corrupt their operands, copies or inputs (also when they fail).

Correspondence (vs the Lean object-store model `Nitime.C16`): time operators with every operand
kind (result AND operand afterwards), TimeArray element assignment, the operand of
UniformTime += / -= (accepted, non-uniform, one element), TimeSeries arithmetic / copy / in-place
on a copy, and periodogram_csd's shape handling at every exit (success, failing middle step,
non-contiguous input).  The driver answers `<repaired model> ## <source-as-it-stands model>`;
the implementation has to follow the repaired one.
Oracle (never the model): byte snapshots (data, shape, strides, dtype) of every argument around
every call — the cases above, every public function of nitime.algorithms, every analyzer output,
calls made to fail (bad NFFT, mismatched shapes, non-uniform increments, non-contiguous input) —
and identity / content checks on copies followed by in-place operations.
"""
import operator, re
import numpy as np
from common import Case, Failure, err_kind, np_rng
import c01

PID = 'C16'
LEAN_TARGETS = ['Nitime.Props.C16']
RULE = ('operators x operand kinds {pyint, list, int64/int32/float64 array, time object} x units; setitem keys/operands; += / -= operands '
        '(uniform, non-uniform, 1 element, wrong length); series arithmetic; periodogram_csd shapes 1-4 d x contiguity x failure; '
        'entry-point sweep over nitime.algorithms + analyzers with small valid inputs and injected failures; distinct = distinct protocol line / entry point')
ASSUMPTIONS = ['int32 / float64 operands and the algorithm entry points are judged by snapshots only (not modelled in Lean)',
               'functions documented as working in place are excluded: none of the public entry points is']
TRUSTED_EXTRA = ['numpy view/copy semantics (ndarray.reshape, astype, copy) by their documented behaviour',
                 'the C01 model for operator result values (checked by the C01 run)']

UNITS = c01.UNITS
FACTOR = c01.FACTOR


def ts():
    import nitime.timeseries as t
    return t


# ------------------------------------------------------------------ snapshots
def snap(x, depth=0):
    """a value that changes iff the object (or anything reachable that the library could write to) changes"""
    t = ts()
    if isinstance(x, t.TimeSeriesBase):
        d = {'data': snap(x.data), 'unit': x.time_unit, 'meta': snap(getattr(x, 'metadata', None))}
        for a in ('t0', 'sampling_interval', 'sampling_rate', 'duration'):
            if a in x.__dict__:
                d[a] = snap(x.__dict__[a])
        if 'time' in x.__dict__:
            d['time'] = snap(x.__dict__['time'])
        return ('TS', tuple(sorted(d.items())))
    if isinstance(x, np.ndarray):
        extra = ()
        if isinstance(x, t.UniformTime):
            extra = tuple((a, snap(np.asarray(getattr(x, a, None)))) for a in ('t0', 'sampling_interval', 'duration')) + \
                    (('rate', repr(float(getattr(x, 'sampling_rate', 0)))), ('unit', x.time_unit),
                     ('factor', repr(getattr(x, '_conversion_factor', None))))
        elif isinstance(x, t.TimeArray):
            extra = (('unit', x.time_unit), ('factor', repr(getattr(x, '_conversion_factor', None))))
        strides = tuple(st if n > 1 else 0 for st, n in zip(x.strides, x.shape))
        return ('A', str(x.dtype), x.shape, strides, np.asarray(x).tobytes() if x.dtype != object else repr(x.tolist()), extra)
    if isinstance(x, t.Epochs):
        return ('Ep', snap(x.data))
    if isinstance(x, t.Events):
        return ('Ev', snap(x.time), snap(getattr(x, 'data', None)))
    if isinstance(x, dict):
        return ('D', tuple((repr(k), snap(v, depth + 1)) for k, v in sorted(x.items(), key=lambda kv: repr(kv[0]))))
    if isinstance(x, (list, tuple)):
        return ('L', type(x).__name__, tuple(snap(v, depth + 1) for v in x))
    return ('V', repr(x))


def differs(a, b):
    """which aspect of an array snapshot changed"""
    if a == b:
        return None
    if a[0] == 'A' and b[0] == 'A':
        if a[2] != b[2]:
            return 'shape-changed'
        if a[3] != b[3]:
            return 'strides-changed'
        if a[1] != b[1]:
            return 'dtype-changed'
        if a[4] != b[4]:
            return 'values-changed'
        return 'attributes-changed'
    return 'changed'


# ------------------------------------------------------------------ correspondence cases
KINDS = ['time', 'pyint', 'list', 'int64']


def cmp_fixed(impl, model):
    return impl == model.split(' ## ')[0]


def operand_tok(kind, vals, meta=None):
    if kind == 'pyint':
        return 'i:%d' % vals[0]
    if kind == 'list':
        return 'l:' + ','.join(map(str, vals))
    if kind == 'int64':
        return 'a:' + ','.join(map(str, vals))
    return c01.tok_T(*meta)


def operand_obj(kind, vals, meta=None):
    if kind == 'pyint':
        return int(vals[0])
    if kind == 'list':
        return list(vals)
    if kind == 'int64':
        return np.array(vals, dtype=np.int64)
    return c01.mk_T(*meta)


def operand_after(kind, obj, vals):
    if kind == 'int64':
        return ','.join(str(int(v)) for v in obj.reshape(-1)) if obj.dtype == np.int64 else 'dtype:' + str(obj.dtype)
    if kind == 'list':
        return 'same' if obj == list(vals) else 'changed'
    if kind == 'pyint':
        return 'same' if obj == vals[0] else 'changed'
    return 'same'


def small_ints(rng, n, unit):
    top = min(10**6, (2**61) // FACTOR[unit] // 8)
    return [rng.randint(-top, top) if rng.random() < 0.7 else rng.choice([0, 1, -1, 2]) for _ in range(n)]


def gen_binop(rng, op, kind):
    ua = rng.choice(UNITS)
    n = rng.randint(1, 4)
    ps = [rng.randint(-10**15, 10**15) for _ in range(n)]
    meta = None
    if kind == 'time':
        ub = rng.choice(UNITS)
        meta = (ub, False, [rng.randint(-10**15, 10**15) for _ in range(rng.choice([1, n]))])
        vals = meta[2]
    elif kind == 'pyint':
        vals = small_ints(rng, 1, ua)
    else:
        vals = small_ints(rng, rng.choice([1, n, n]), ua)
    fn = c01.OPS_AR.get(op) or c01.OPS_CMP[op]
    canon = c01.canon_T if op in c01.OPS_AR else c01.canon_B
    obj = operand_obj(kind, vals, meta)
    before = snap(obj)
    try:
        res = 'ok ' + canon(fn(c01.mk_T(ua, False, ps), obj))
    except Exception:  # noqa
        res = 'err'
    impl = '%s operand=%s' % (res, operand_after(kind, obj, vals))
    line = 'C16 binop %s %s %s' % (op, c01.tok_T(ua, False, ps), operand_tok(kind, vals, meta))
    return Case(line, impl, 'binop/%s/%s' % (op, kind), cmp=cmp_fixed,
                meta={'what': 'binop', 'op': op, 'kind': kind, 'self': [ua, False, ps], 'vals': vals, 'tmeta': meta,
                      'changed': differs(before, snap(obj))})


def gen_setitem(rng, kind):
    unit = rng.choice(UNITS if kind != 'list' else ['ps', 'ns', 'us'])   # a list operand is *repeated* factor times by today's code
    n = rng.randint(1, 5)
    ps = [rng.randint(-10**12, 10**12) for _ in range(n)]
    a = rng.randint(0, n)
    b = rng.randint(a, n)
    if rng.random() < 0.5 and a < n:
        b = a + 1
    m = b - a
    meta = None
    if kind == 'time':
        k = rng.choice([m, 1, m + 1]) or 1
        meta = (rng.choice(UNITS), k == 1 and rng.random() < 0.5, [rng.randint(-10**12, 10**12) for _ in range(k)])
        vals = meta[2]
    elif kind == 'pyint':
        vals = small_ints(rng, 1, unit)
    else:
        vals = small_ints(rng, rng.choice([m, m, 1, m + 1]) or 1, unit)
    obj = operand_obj(kind, vals, meta)
    before = snap(obj)
    t = c01.mk_T(unit, False, ps)
    try:
        t[a:b] = obj
        res = 'ok ' + (','.join(str(int(v)) for v in np.asarray(t)) if n else '-')
    except Exception:  # noqa
        res = 'err'
    impl = '%s operand=%s' % (res, operand_after(kind, obj, vals))
    line = 'C16 setitem %s %d %d %s' % (c01.tok_T(unit, False, ps), a, b, operand_tok(kind, vals, meta))
    return Case(line, impl, 'setitem/' + kind, cmp=cmp_fixed,
                meta={'what': 'setitem', 'kind': kind, 'self': [unit, False, ps], 'a': a, 'b': b, 'vals': vals, 'tmeta': meta,
                      'changed': differs(before, snap(obj))})


def gen_uniform(rng, kind, shape):
    unit = rng.choice(['ps', 'ns', 'us', 'ms', 's'])
    n = rng.randint(3, 6)
    if shape == 'uniform':
        a0, st = rng.randint(-5, 5), rng.choice([1, 2, -1, 3])
        vals = [a0 + i * st for i in range(n)]
    elif shape == 'nonuniform':
        vals = list(range(n))
        vals[rng.randrange(1, n)] += rng.choice([1, 2, -1]) if n > 2 else 1
        if len({y - x for x, y in zip(vals, vals[1:])}) == 1:
            vals[-1] += 1
    else:   # one element
        vals = [rng.randint(-5, 5)]
    meta = None
    if kind == 'time':
        meta = ('ps', False, [v * FACTOR[unit] for v in vals])
    if kind == 'pyint':
        vals = vals[:1]
    obj = operand_obj(kind, vals, meta)
    before = snap(obj)
    u = ts().UniformTime(t0=0, sampling_interval=10, length=n, time_unit=unit)
    dt0 = int(u.sampling_interval)
    try:
        if rng.random() < 0.5:
            u += obj
            d = int(u.sampling_interval) - dt0
        else:
            u -= obj
            d = dt0 - int(u.sampling_interval)
        res = 'ok %d' % d
    except Exception as e:  # noqa
        res = 'err ' + err_kind(e)
    impl = '%s operand=%s' % (res, operand_after(kind, obj, vals))
    line = 'C16 uniform %s %s' % (unit, operand_tok(kind, vals, meta))
    return Case(line, impl, 'uniform/%s/%s' % (shape, kind), cmp=cmp_fixed,
                meta={'what': 'uniform', 'kind': kind, 'shape': shape, 'unit': unit, 'n': n, 'vals': vals, 'tmeta': meta,
                      'changed': differs(before, snap(obj))})


def gen_series(rng):
    n = rng.randint(1, 6)
    d = [rng.randint(-100, 100) for _ in range(n)]
    o = [rng.randint(-100, 100) for _ in range(n)]
    T = ts().TimeSeries
    s = T(np.array(d, dtype=np.int64), sampling_interval=1, t0=0)
    other = np.array(o, dtype=np.int64)
    fmt = lambda a: ','.join(str(int(v)) for v in np.asarray(a).reshape(-1))
    try:
        out = s + other
        sum1 = fmt(out.data)
        out += other
        sum2 = fmt(out.data)
        c = s.copy()
        c *= other
        impl = 'ok sum=%s sum2=%s copyprod=%s orig=%s other=%s' % (sum1, sum2, fmt(c.data), fmt(s.data), fmt(other))
    except Exception as e:  # noqa
        impl = 'err ' + err_kind(e)
    return Case('C16 series %s %s' % (','.join(map(str, d)), ','.join(map(str, o))), impl, 'series/arith-copy-inplace', cmp=cmp_fixed,
                meta={'what': 'series', 'data': d, 'other': o})


def mk_csd_input(rs, shape, contig):
    if contig:
        return rs.randn(*shape)
    if len(shape) == 1:
        return rs.randn(shape[0] * 2)[::2]
    big = rs.randn(*(list(shape[:-2]) + [shape[-2] * 2 + 1, shape[-1]]))
    return big[..., :shape[-2] * 2:2, :]   # same shape, not contiguous; with leading dims >= 2 it cannot be flattened without a copy


def run_csd(shape, contig, fail, seed):
    import nitime.algorithms as alg
    rs = np.random.RandomState(seed)
    s = mk_csd_input(rs, shape, contig)
    before = snap(s)
    kw = {}
    if fail == 'nfft':
        kw['NFFT'] = -3
    elif fail == 'sk':
        kw['Sk'] = [[1.0, 2.0]]     # not an array: the routine reads Sk.shape
    try:
        alg.periodogram_csd(s, **kw)
        oc = 'ok'
    except Exception:  # noqa
        oc = 'err'
    return oc, s, before


def gen_csd(rng, shape=None, contig=None, fail=None):
    nd = rng.randint(1, 4)
    contig = rng.random() < 0.6 if contig is None else contig
    lo = 1 if contig else 2
    shape = shape or [rng.randint(lo, 3) for _ in range(nd - 1)] + [rng.choice([4, 5, 8])]
    fail = fail or rng.choice(['none', 'none', 'nfft', 'sk'])
    seed = rng.randrange(10**6)
    oc, s, before = run_csd(shape, contig, fail, seed)
    impl = '%s shape=%s' % (oc, ','.join(map(str, s.shape)))
    line = 'C16 csd %s %d %s' % (','.join(map(str, shape)), 1 if contig else 0, 'none' if fail == 'none' else 'compute')
    return Case(line, impl, 'csd/%dd/%s/%s' % (len(shape), 'contiguous' if contig else 'non-contiguous', fail), cmp=cmp_fixed,
                meta={'what': 'csd', 'shape': shape, 'contig': contig, 'fail': fail, 'seed': seed, 'changed': differs(before, snap(s)), 'outcome': oc})


def cases(rng, tier, seed):
    k = {'quick': 3, 'thorough': 30}[tier]
    out = []
    for _ in range(3 * k):
        for op in list(c01.OPS_AR) + list(c01.OPS_CMP):
            for kind in KINDS:
                if kind == 'time' and op in ('radd', 'rsub'):
                    continue
                out.append(gen_binop(rng, op, kind))
    for _ in range(40 * k):
        for kind in KINDS:
            out.append(gen_setitem(rng, kind))
    for _ in range(15 * k):
        for kind in ('list', 'int64', 'time'):
            for shape in ('uniform', 'nonuniform', 'one'):
                out.append(gen_uniform(rng, kind, shape))
        out.append(gen_uniform(rng, 'pyint', 'one'))
    for _ in range(60 * k):
        out.append(gen_series(rng))
    for sh, cg, fl in [([2, 3, 8], True, 'nfft'), ([8], True, 'nfft'), ([2, 3, 8], False, 'none'), ([2, 8], True, 'sk'), ([2, 2, 2, 4], True, 'sk')]:
        out.append(gen_csd(rng, sh, cg, fl))
    for _ in range(120 * k):
        out.append(gen_csd(rng))
    return out


# ------------------------------------------------------------------ oracle: snapshots around every entry point
def judge_case(c):
    m = c.meta
    w = m['what']
    if w in ('binop', 'setitem', 'uniform'):
        if m['changed']:
            site = {'binop': 'binop/%s' % m.get('op'), 'setitem': 'setitem', 'uniform': 'uniform-iop/%s' % m.get('shape')}[w]
            return Failure('%s/%s/operand-%s' % (site, m['kind'], m['changed']),
                           '%s: the caller\'s %s operand was modified (%s)  [%s] impl=%s' % (c.clause, m['kind'], m['changed'], c.line[:200], c.impl[:160]),
                           {'what': w, 'meta': m, 'line': c.line}, case=c)
        if w == 'setitem' and m['kind'] == 'list' and c.impl.startswith('err') and expected_setitem_ok(m):
            return Failure('setitem/list/raises', '%s: assigning a python list of the right length raises (the list is repeated factor times instead of being scaled)  [%s]' % (c.clause, c.line[:200]),
                           {'what': w, 'meta': m, 'line': c.line}, case=c)
        return None
    if w == 'series':
        want_o = ','.join(map(str, m['other']))
        want_d = ','.join(map(str, m['data']))
        if 'orig=%s other=%s' % (want_d, want_o) not in c.impl:
            return Failure('series/arith-copy/operand-changed', 'TimeSeries arithmetic / in-place on a copy changed an operand: ' + c.impl[:300],
                           {'what': w, 'meta': m, 'line': c.line}, case=c)
        return None
    if w == 'csd':
        tag = '%dd/%s/%s' % (len(m['shape']), 'contiguous' if m['contig'] else 'non-contiguous', m['fail'])
        if m['changed']:
            return Failure('csd/%s/input-%s' % (tag, m['changed']),
                           'periodogram_csd left its input modified (%s): shape %s -> %s' % (m['changed'], m['shape'], c.impl),
                           {'what': w, 'meta': m, 'line': c.line}, case=c)
        if m['fail'] == 'none' and m['outcome'] != 'ok':
            return Failure('csd/%s/refused' % tag, 'periodogram_csd refuses a valid %s input of shape %s' % ('contiguous' if m['contig'] else 'non-contiguous', m['shape']),
                           {'what': w, 'meta': m, 'line': c.line}, case=c)
        return None
    return None


def expected_setitem_ok(m):
    return len(m['vals']) in (m['b'] - m['a'], 1) and m['b'] - m['a'] >= 0


def rejudge(d):
    """re-run one recorded correspondence case"""
    import common
    m = d['meta']
    w = d['what']
    rng = common.make_rng(PID, 0, 'replay')
    if w == 'csd':
        oc, s, before = run_csd(m['shape'], m['contig'], m['fail'], m['seed'])
        m2 = dict(m, changed=differs(before, snap(s)), outcome=oc)
        c = Case(d['line'], '%s shape=%s' % (oc, ','.join(map(str, s.shape))), 'csd', meta=m2)
        return judge_case(c)
    if w == 'series':
        T = ts().TimeSeries
        s = T(np.array(m['data'], dtype=np.int64), sampling_interval=1, t0=0)
        other = np.array(m['other'], dtype=np.int64)
        out = s + other
        out += other
        c2 = s.copy()
        c2 *= other
        fmt = lambda a: ','.join(str(int(v)) for v in np.asarray(a).reshape(-1))
        c = Case(d['line'], 'ok orig=%s other=%s' % (fmt(s.data), fmt(other)), 'series', meta=m)
        return judge_case(c)
    kind, vals, tmeta = m['kind'], m['vals'], m.get('tmeta')
    obj = operand_obj(kind, vals, tuple(tmeta) if tmeta else None)
    before = snap(obj)
    res = 'ok'
    try:
        if w == 'binop':
            fn = c01.OPS_AR.get(m['op']) or c01.OPS_CMP[m['op']]
            fn(c01.mk_T(*m['self']), obj)
        elif w == 'setitem':
            t = c01.mk_T(*m['self'])
            t[m['a']:m['b']] = obj
        else:
            u = ts().UniformTime(t0=0, sampling_interval=10, length=m['n'], time_unit=m['unit'])
            u += obj
    except Exception:  # noqa
        res = 'err'
    m2 = dict(m, changed=differs(before, snap(obj)))
    return judge_case(Case(d['line'], res, w, meta=m2))


def entry_points(rs, variant=0):
    """(name, callable, args, kwargs) for every public function of nitime.algorithms, small valid inputs"""
    import nitime.algorithms as alg
    import nitime.utils as ut
    N = 64 if variant == 0 else 48
    x = rs.randn(N)
    X = rs.randn(3, N)
    X2 = rs.randn(2, N)
    if variant == 2:
        X = np.asfortranarray(X)
        X2 = rs.randn(N, 2).T        # non-contiguous
    ij = [(0, 1), (0, 2), (1, 2)]
    xi = rs.randint(0, 3, size=N)
    yi = rs.randint(0, 3, size=N)
    Sw = np.abs(rs.randn(2, 2, 9)) + 3 * np.eye(2)[:, :, None] + 0j
    Hw = rs.randn(2, 2, 9) + 1j * rs.randn(2, 2, 9)
    cov = np.array([[1.0, 0.2], [0.2, 1.5]])
    a_coef = 0.2 * rs.randn(2, 2, 2)
    R = np.array([np.eye(2) * 2.0, 0.3 * np.eye(2) + 0.05, 0.1 * np.eye(2)])
    f1, f2, f3 = (np.abs(rs.randn(9)) + 1 for _ in range(3))
    fxy = rs.randn(9) + 1j * rs.randn(9)
    tapers, _ = alg.dpss_windows(N, 4, 3)
    events = np.zeros(N)
    events[[5, 20, 40]] = 1
    design = np.array(ut.fir_design_matrix(np.array([0, 1, 0, 0, 2, 0, 0, 0, 1, 0, 0, 2, 0, 0, 0, 0] * (N // 16)), 3)) if hasattr(ut, 'fir_design_matrix') else None
    cache = alg.cache_fft(rs.randn(3, 256), ij, method={'this_method': 'welch', 'NFFT': 64, 'Fs': 2 * np.pi})
    E = []
    add = lambda name, f, *a, **k: E.append((name, f, a, k))
    add('AR_est_YW', alg.AR_est_YW, x, 3)
    add('AR_est_LD', alg.AR_est_LD, x, 3)
    add('AR_psd', alg.AR_psd, np.array([0.5, -0.2]), 1.0, 32)
    add('MAR_est_LWR', alg.MAR_est_LWR, X2, 2)
    add('lwr_recursion', alg.lwr_recursion, R)
    add('boxcar_filter/1d', alg.boxcar_filter, x, 0.05, 0.3)
    add('boxcar_filter/2d', alg.boxcar_filter, X, 0.05, 0.3)
    add('boxcar_filter/2d-lowpass', alg.boxcar_filter, X, 0, 0.2)
    add('cache_fft', alg.cache_fft, rs.randn(3, 256), ij, method={'this_method': 'welch', 'NFFT': 64, 'Fs': 2 * np.pi})
    add('cache_to_psd', alg.cache_to_psd, cache[1], ij)
    add('cache_to_phase', alg.cache_to_phase, cache[1], ij)
    add('cache_to_relative_phase', alg.cache_to_relative_phase, cache[1], ij)
    add('cache_to_coherency', alg.cache_to_coherency, cache[1], ij)
    big = rs.randn(3, 256)
    m64 = {'this_method': 'welch', 'NFFT': 64, 'Fs': 2 * np.pi}
    for nm in ('coherence', 'coherency', 'coherency_phase_spectrum'):
        add(nm, getattr(alg, nm), big, csd_method=dict(m64))
    for nm in ('coherence_bavg', 'coherency_bavg', 'coherency_phase_delay'):
        add(nm, getattr(alg, nm), big, lb=0.1, ub=1.0, csd_method=dict(m64))
    add('coherence_partial', alg.coherence_partial, big, big[0], csd_method=dict(m64))
    add('coherence_regularized', alg.coherence_regularized, big, 0.01, 0.1, csd_method=dict(m64))
    add('coherency_regularized', alg.coherency_regularized, big, 0.01, 0.1, csd_method=dict(m64))
    add('coherence_spec', alg.coherence_spec, fxy, f1, f2)
    add('coherency_spec', alg.coherency_spec, fxy, f1, f2)
    add('coherence_partial_spec', alg.coherence_partial_spec, fxy, f1, f2, fxy * 0.5, fxy * 0.3, f3)
    add('coherence_from_spectral', alg.coherence_from_spectral, Sw)
    add('interdependence_xy', alg.interdependence_xy, Sw)
    add('spectral_matrix_xy', alg.spectral_matrix_xy, Hw, cov)
    add('transfer_function_xy', alg.transfer_function_xy, a_coef, 16)
    add('granger_causality_xy', alg.granger_causality_xy, a_coef, cov, 16)
    add('correlation_spectrum', alg.correlation_spectrum, x, rs.randn(N))
    add('seed_corrcoef', alg.seed_corrcoef, x, X)
    add('dpss_windows', alg.dpss_windows, N, 4, 3)
    add('tapered_spectra', alg.tapered_spectra, X, tapers)
    add('mtm_cross_spectrum', alg.mtm_cross_spectrum, rs.randn(3, 33) + 0j, rs.randn(3, 33) + 0j, np.ones((3, 33)), sides='onesided')
    add('multi_taper_psd', alg.multi_taper_psd, X, NW=4)
    add('multi_taper_psd/adaptive', alg.multi_taper_psd, X, NW=4, adaptive=True, jackknife=False)
    add('multi_taper_csd', alg.multi_taper_csd, X, NW=4)
    add('periodogram', alg.periodogram, X)
    add('periodogram/3d', alg.periodogram, rs.randn(2, 3, N))
    add('periodogram_csd', alg.periodogram_csd, X)
    add('periodogram_csd/3d', alg.periodogram_csd, rs.randn(2, 2, N))
    add('periodogram_csd/1d', alg.periodogram_csd, x)
    # optional precomputed arguments (transforms, autocorrelations, tapered spectra) are inputs like any other:
    SkX = np.fft.fft(X)
    add('periodogram/Sk', alg.periodogram, X, Sk=SkX.copy())
    add('periodogram/Sk-twosided', alg.periodogram, X + 0j, Sk=SkX.copy(), sides='twosided')
    add('periodogram_csd/Sk', alg.periodogram_csd, X, Sk=SkX.copy())
    add('periodogram_csd/Sk-twosided', alg.periodogram_csd, X, Sk=SkX.copy(), sides='twosided')
    add('periodogram_csd/Sk-unnormalized', alg.periodogram_csd, X, Sk=SkX.copy(), normalize=False)
    rxx = ut.autocorr(x)[:5]
    add('AR_est_YW/rxx', alg.AR_est_YW, x, 3, rxx=rxx.copy())
    add('AR_est_LD/rxx', alg.AR_est_LD, x, 3, rxx=rxx.copy())
    add('MAR_est_LWR/rxx', alg.MAR_est_LWR, X2, 2, rxx=ut.autocov_vector(np.ascontiguousarray(X2), nlags=3))
    tsp = alg.tapered_spectra(np.ascontiguousarray(X), tapers)
    add('adaptive_weights', ut.adaptive_weights, tsp[0].copy(), np.array([0.99, 0.98, 0.95]), sides='onesided')
    add('jackknifed_sdf_variance', ut.jackknifed_sdf_variance, tsp[0].copy(), np.array([0.99, 0.98, 0.95]), sides='onesided', adaptive=False)
    add('jackknifed_coh_variance', ut.jackknifed_coh_variance, tsp[0].copy(), tsp[1].copy(), np.array([0.99, 0.98, 0.95]), adaptive=False)
    for fn in ('zscore', 'percent_change', 'autocov', 'autocorr'):
        add('utils.' + fn, getattr(ut, fn), np.ascontiguousarray(X) + 5.0)
    add('utils.crosscov', ut.crosscov, x, rs.randn(N))
    add('utils.zero_pad', ut.zero_pad, np.ascontiguousarray(X), 96)
    add('utils.unwrap_phases/copy-expected', lambda a: ut.unwrap_phases(a.copy()), rs.uniform(-3, 3, size=20))
    add('get_spectra', alg.get_spectra, big, method=dict(m64))
    add('get_spectra/mt', alg.get_spectra, X, method={'this_method': 'multi_taper_csd', 'Fs': 2 * np.pi})
    add('get_spectra/periodogram', alg.get_spectra, X, method={'this_method': 'periodogram_csd', 'Fs': 2 * np.pi})
    add('get_spectra_bi', alg.get_spectra_bi, big[0], big[1], method=dict(m64))
    add('freq_response', alg.freq_response, np.array([1.0, 0.5]), np.array([1.0, -0.2]), 16)
    add('entropy', alg.entropy, xi, yi)
    add('conditional_entropy', alg.conditional_entropy, xi, yi)
    add('mutual_information', alg.mutual_information, xi, yi)
    add('entropy_cc', alg.entropy_cc, xi, yi)
    add('transfer_entropy', alg.transfer_entropy, xi, yi)
    add('fir', alg.fir, rs.randn(2, N), rs.randn(N, 6))
    add('freq_domain_xcorr', alg.freq_domain_xcorr, x, events, 3, 5)
    add('freq_domain_xcorr_zscored', alg.freq_domain_xcorr_zscored, x, events, 3, 5)
    add('wmorlet', alg.wmorlet, 10, 2, 100)
    add('wfmorlet_fft', alg.wfmorlet_fft, 10, 2, 100, nt=64)
    add('wlogmorlet', alg.wlogmorlet, 10, 0.2, 100)
    add('wlogmorlet_fft', alg.wlogmorlet_fft, 10, 0.2, 100, nt=64)
    add('triu_indices', alg.triu_indices, 4, 1)
    add('tril_indices', alg.tril_indices, 4, -1)
    # calls made to fail
    add('FAIL/periodogram_csd/bad-NFFT-3d', alg.periodogram_csd, rs.randn(2, 2, N), NFFT=-1)
    add('FAIL/periodogram_csd/bad-NFFT-1d', alg.periodogram_csd, rs.randn(N), NFFT=0)
    add('FAIL/periodogram/bad-N', alg.periodogram, X, N=-2)
    add('FAIL/multi_taper_psd/bad-NFFT', alg.multi_taper_psd, X, NW=4, NFFT=-8)
    add('FAIL/multi_taper_csd/bad-NW', alg.multi_taper_csd, X, NW=0.1)
    add('FAIL/tapered_spectra/mismatched', alg.tapered_spectra, X, tapers[:, :N - 5])
    add('FAIL/seed_corrcoef/mismatched', alg.seed_corrcoef, x, rs.randn(3, N - 1))
    add('FAIL/coherence_spec/mismatched', alg.coherence_spec, fxy, f1[:-1], f2)
    add('FAIL/fir/mismatched', alg.fir, rs.randn(2, N), rs.randn(N - 3, 6))
    add('FAIL/AR_est_YW/order-too-big', alg.AR_est_YW, x[:4], 9)
    add('FAIL/MAR_est_LWR/1d', alg.MAR_est_LWR, x, 2)
    add('FAIL/correlation_spectrum/mismatched', alg.correlation_spectrum, x, rs.randn(N - 7))
    add('FAIL/periodogram_csd/non-contiguous-3d', alg.periodogram_csd, rs.randn(2, 4, N)[:, ::2, :])
    return E


def analyzers(rs):
    """(name, factory(ts_input)->analyzer, attributes) over every analyzer class"""
    import nitime.analysis as an
    t = ts()
    L = []
    add = lambda name, f, attrs: L.append((name, f, attrs))
    add('SpectralAnalyzer', lambda s: an.SpectralAnalyzer(s, method={'NFFT': 32}), ['psd', 'cpsd', 'periodogram', 'spectrum_fourier', 'spectrum_multi_taper'])
    add('FilterAnalyzer', lambda s: an.FilterAnalyzer(s, lb=0.1, ub=0.3, filt_order=16), ['filtered_boxcar', 'filtered_fourier', 'fir', 'iir'])
    add('CoherenceAnalyzer', lambda s: an.CoherenceAnalyzer(s, method={'this_method': 'welch', 'NFFT': 32, 'n_overlap': 16}), ['coherence', 'coherency', 'phase', 'delay', 'coherence_partial', 'spectrum'])
    add('MTCoherenceAnalyzer', lambda s: an.MTCoherenceAnalyzer(s), ['coherence', 'confidence_interval'])
    add('SparseCoherenceAnalyzer', lambda s: an.SparseCoherenceAnalyzer(s, ij=[(0, 1), (1, 2)], method={'this_method': 'welch', 'NFFT': 32}), ['coherence', 'coherency', 'phases', 'spectrum', 'relative_phases', 'delay'])
    add('SeedCoherenceAnalyzer', lambda s: an.SeedCoherenceAnalyzer(t.TimeSeries(s.data[0].copy(), sampling_interval=s.sampling_interval), s, method={'this_method': 'welch', 'NFFT': 32}), ['coherence', 'coherency', 'relative_phases', 'delay'])
    add('CorrelationAnalyzer', lambda s: an.CorrelationAnalyzer(s), ['corrcoef', 'xcorr', 'xcorr_norm'])
    add('SeedCorrelationAnalyzer', lambda s: an.SeedCorrelationAnalyzer(t.TimeSeries(s.data[0].copy(), sampling_interval=s.sampling_interval), s), ['corrcoef'])
    add('NormalizationAnalyzer', lambda s: an.NormalizationAnalyzer(s), ['percent_change', 'z_score'])
    add('HilbertAnalyzer', lambda s: an.HilbertAnalyzer(s), ['analytic', 'amplitude', 'phase', 'real', 'imag'])
    add('MorletWaveletAnalyzer', lambda s: an.MorletWaveletAnalyzer(t.TimeSeries(s.data[0].copy(), sampling_interval=s.sampling_interval), freqs=0.2, sd_rel=0.2), ['analytic', 'amplitude', 'phase', 'real', 'imag'])
    add('SNRAnalyzer', lambda s: an.SNRAnalyzer(s), ['mt_noise_psd', 'mt_signal_psd', 'mt_coherence', 'mt_information', 'correlation'])
    add('GrangerAnalyzer', lambda s: an.GrangerAnalyzer(s, order=2), ['causality_xy', 'causality_yx', 'simultaneous_causality', 'order_xy' if False else 'frequencies'])
    return L


def sweep(tier, seed):
    """snapshots around every entry point; returns (failures, stats)"""
    import warnings
    fails, ncalls, nraised, names = [], 0, 0, set()
    rs = np_rng(PID, seed, 'sweep')
    variants = [0] if tier == 'quick' else [0, 1, 2]
    with warnings.catch_warnings():
        warnings.simplefilter('ignore')
        for v in variants:
            try:
                E = entry_points(rs, v)
            except Exception as e:  # noqa
                fails.append(Failure('entry/setup/%s' % err_kind(e), 'cannot build the entry-point table: %r' % e, {'what': 'sweep'}))
                continue
            for name, f, a, k in E:
                before = [snap(x) for x in a] + [snap(k[key]) for key in sorted(k)]
                try:
                    f(*a, **k)
                    raised = False
                except Exception:  # noqa
                    raised = True
                    nraised += 1
                ncalls += 1
                names.add(name)
                after = [snap(x) for x in a] + [snap(k[key]) for key in sorted(k)]
                labels = ['arg%d' % i for i in range(len(a))] + sorted(k)
                for lab, b0, b1 in zip(labels, before, after):
                    dd = differs(b0, b1)
                    if dd:
                        fails.append(Failure('entry/%s/%s-%s' % (name, lab, dd),
                                             'nitime.algorithms.%s %s its argument `%s` modified (%s)' % (name, 'raised and left' if raised else 'returned with', lab, dd),
                                             {'what': 'sweep', 'name': name, 'variant': v}))
                if not raised and name.startswith('FAIL/') and 'non-contiguous' not in name:
                    pass    # a call expected to fail that succeeds is not a C16 matter
                if raised and 'non-contiguous' in name:
                    fails.append(Failure('entry/%s/refused' % name, 'periodogram_csd refuses a non-contiguous input', {'what': 'sweep', 'name': name, 'variant': v}))
            # analyzers
            T = ts().TimeSeries
            for name, mk, attrs in analyzers(rs):
                data = rs.randn(3, 128)
                s_in = T(data.copy(), sampling_interval=0.5, t0=2.0, time_unit='s')
                s_in.metadata['k'] = [1, 2]
                _ = s_in.time
                try:
                    A = mk(s_in)
                except Exception:  # noqa
                    nraised += 1
                    continue
                before = snap(s_in)
                for at in attrs:
                    try:
                        getattr(A, at)
                    except Exception:  # noqa
                        nraised += 1
                    ncalls += 1
                    names.add(name + '.' + at)
                    after = snap(s_in)
                    if after != before:
                        what = 'data' if dict(after[1])['data'] != dict(before[1])['data'] else 'attributes'
                        fails.append(Failure('analyzer/%s.%s/input-%s-changed' % (name, at, what),
                                             'reading %s.%s modified the input time series (%s)' % (name, at, what),
                                             {'what': 'sweep', 'name': name + '.' + at, 'variant': v}))
                        before = after
    return fails, {'entry_calls': ncalls, 'entry_points': len(names), 'raised': nraised}


def copies(tier, seed):
    """copies followed by in-place operations; attribute objects of views / copies"""
    fails = []
    t = ts()
    u = t.UniformTime(t0=1, length=4, sampling_interval=2, time_unit='ms')
    for nm, mk in (('copy', lambda: u.copy()), ('view', lambda: u[:]), ('slice', lambda: u[1:3])):
        c = mk()
        shared = [a for a in ('t0', 'sampling_interval', 'duration') if getattr(c, a) is getattr(u, a)]
        if shared:
            fails.append(Failure('axis-%s/shared-attrs' % nm, 'a %s of a UniformTime shares the mutable attribute objects %s with the original' % (nm, shared), {'what': 'copies'}))
        before = snap(u)
        si = c.sampling_interval
        si += 5              # a user (or the library) updating the attribute object in place
        if nm == 'copy':
            c += np.arange(4)
            c *= 3
            if snap(u) != before:
                fails.append(Failure('axis-copy/original-changed', 'operating on a copy of a UniformTime changed the original', {'what': 'copies'}))
        elif snap(np.asarray(u.sampling_interval)) != snap(np.asarray(t.TimeArray(2, time_unit='ms'))):
            fails.append(Failure('axis-%s/original-changed' % nm, 'updating the interval object of a %s changed the original\'s interval' % nm, {'what': 'copies'}))
    # operands that ARE (or alias) the axis' own attribute objects: `shift = u.t0; u -= shift` must leave `shift` alone
    for unit in ('s', 'ms', 'ps'):
        for opn, op in (('isub', operator.isub), ('iadd', operator.iadd)):
            for attr in ('t0', 'sampling_interval', 'duration'):
                a = t.UniformTime(t0=3, length=5, sampling_interval=2, time_unit=unit)
                operand = getattr(a, attr)
                b0 = snap(np.asarray(operand))
                try:
                    a = op(a, operand)
                except Exception:  # noqa
                    pass
                if snap(np.asarray(operand)) != b0:
                    fails.append(Failure('axis-%s/own-attribute-operand-changed' % opn,
                                         'UniformTime %s with its own %s object as operand changed that operand' % (opn, attr), {'what': 'copies'}))
        a = t.UniformTime(t0=3, length=5, sampling_interval=2, time_unit=unit)
        first, ramp = a[0], t.TimeArray(np.asarray(a).copy(), time_unit='ps')
        bf, br = snap(np.asarray(first)), snap(np.asarray(ramp))
        a += ramp
        a -= first
        a *= 2
        sl = a[1:4:2]
        sl += first
        if snap(np.asarray(first)) != bf or snap(np.asarray(ramp)) != br:
            fails.append(Failure('axis-inplace/derived-operand-changed', 'in-place operations changed an operand derived from the axis', {'what': 'copies'}))
    ta = t.TimeArray([1, 2, 3], time_unit='ms')
    tb = t.TimeArray(ta)
    tb += 1
    if [int(v) for v in ta] != [10**9, 2 * 10**9, 3 * 10**9]:
        fails.append(Failure('timearray-ctor-copy/original-changed', 'TimeArray(t) shares its buffer with t', {'what': 'copies'}))
    s = t.TimeSeries(np.arange(12.).reshape(3, 4), sampling_interval=0.5, t0=1.0)
    s.metadata['name'] = 'x'
    _ = s.time
    before = snap(s)
    c = s.copy()
    c += 1.5
    c *= 2
    c.data[0, 0] = -7
    c.time += np.arange(4)
    c.metadata['name'] = 'y'
    if snap(s) != before:
        fails.append(Failure('series-copy/original-changed', 'in-place operations on TimeSeries.copy() reached the original: %s' % ('data' if not np.array_equal(s.data, np.arange(12.).reshape(3, 4)) else 'time/metadata'), {'what': 'copies'}))
    for nm, f in (('add', operator.add), ('sub', operator.sub), ('mul', operator.mul), ('truediv', operator.truediv)):
        o = np.arange(1., 5.)
        b2 = snap(o)
        r = f(s, o)
        r.data[0, 0] = 99
        if snap(s) != before or snap(o) != b2:
            fails.append(Failure('series-%s/operand-changed' % nm, 'TimeSeries %s changed an operand' % nm, {'what': 'copies'}))
    return fails


def mutate_axis(c):
    """every in-place change a holder of the axis `c` can make (exceptions are irrelevant here)"""
    t = ts()
    acts = [lambda: operator.iadd(c, 5), lambda: operator.iadd(c, np.arange(len(c))), lambda: operator.imul(c, 2),
            lambda: operator.isub(c, t.TimeArray(1, time_unit='s'))]
    for a in ('t0', 'sampling_interval', 'duration'):
        acts.append(lambda a=a: operator.iadd(getattr(c, a), 7))
    for f in acts:
        try:
            f()
        except Exception:  # noqa
            pass


def axis_copy_forms(tier, seed):
    """every way to obtain a copy of an axis: identity of attribute objects, then all in-place
    changes on the copy; the original must stay bit for bit (samples, attributes, unit)"""
    import copy as cp, pickle
    t = ts()
    fails = []
    forms = [('copy', lambda u: u.copy()), ('copy.copy', lambda u: cp.copy(u)), ('copy.deepcopy', lambda u: cp.deepcopy(u)),
             ('fancy-index', lambda u: u[list(range(len(u)))]), ('plus-zero', lambda u: u + 0),
             ('np.array-subok', lambda u: np.array(u, subok=True)), ('pickle', lambda u: pickle.loads(pickle.dumps(u))),
             ('ctor', lambda u: t.UniformTime(u)), ('bool-index', lambda u: u[np.ones(len(u), dtype=bool)])]
    for unit in ('s', 'ms'):
        for nm, mk in forms:
            u = t.UniformTime(t0=3, length=4, sampling_interval=2, time_unit=unit)
            try:
                c = mk(u)
            except Exception:  # noqa
                continue
            if not isinstance(c, np.ndarray):
                continue
            shared = [a for a in ('t0', 'sampling_interval', 'duration') if getattr(c, a, None) is not None and getattr(c, a, None) is getattr(u, a)]
            if np.shares_memory(np.asarray(c), np.asarray(u)):
                shared.append('samples')
            if shared:
                fails.append(Failure('axis-%s/shared-%s' % (nm, '+'.join(shared)), 'the copy of a UniformTime made by %s shares %s with the original' % (nm, shared), {'what': 'copies'}))
            before = snap(u)
            mutate_axis(c)
            if snap(u) != before:
                fails.append(Failure('axis-%s/original-changed' % nm, 'in-place operations on the copy of a UniformTime made by %s changed the original' % nm, {'what': 'copies'}))
    return fails


def series_share_nothing(tier, seed):
    """results of TimeSeries copy / arithmetic share no mutable object with their operands, in both
    lazily-initialised states (`.time` read before or not): every mutable part of the RESULT is
    changed in place, the operands are snapshotted"""
    t = ts()
    fails = []
    producers = [('copy', lambda x, a: x.copy())]
    for nm, f in (('add', operator.add), ('sub', operator.sub), ('mul', operator.mul), ('truediv', operator.truediv)):
        producers.append((nm + '-array', lambda x, a, f=f: f(x, a)))
        producers.append((nm + '-scalar', lambda x, a, f=f: f(x, 2.0)))
        producers.append((nm + '-series', lambda x, a, f=f: f(x, t.TimeSeries(a.copy(), sampling_interval=0.5, t0=1.0))))
    for lazy in (False, True):
        for nm, mk in producers:
            def fresh():
                x = t.TimeSeries(np.arange(1., 13.).reshape(3, 4), sampling_interval=0.5, t0=1.0, time_unit='s')
                x.metadata['name'] = 'x'
                x.metadata['tags'] = [1, 2]
                return x
            x = fresh()
            a = np.arange(1., 5.)
            if lazy:
                _ = x.time
            want_time = snap(fresh().time)
            bx, ba = snap(x), snap(a)
            try:
                r = mk(x, a)
            except Exception:  # noqa
                continue
            parts = []
            if r.data is x.data or np.shares_memory(r.data, x.data):
                parts.append('data')
            if 'time' in r.__dict__ and 'time' in x.__dict__ and r.__dict__['time'] is x.__dict__['time']:
                parts.append('time')
            for at in ('t0', 'sampling_interval', 'duration'):
                if isinstance(getattr(r, at, None), np.ndarray) and getattr(r, at) is getattr(x, at, None):
                    parts.append(at)
            if r.metadata is x.metadata:
                parts.append('metadata')
            # change every mutable part of the result in place
            acts = [lambda: r.data.__setitem__((0, 0), -7.0), lambda: r.data.__imul__(3), lambda: operator.iadd(r, 1.5),
                    lambda: operator.iadd(r.time, 5), lambda: operator.imul(r.time, 2), lambda: operator.iadd(r.time.t0, 3),
                    lambda: operator.iadd(r.t0, 11), lambda: operator.iadd(r.sampling_interval, 13),
                    lambda: r.metadata.__setitem__('name', 'y'), lambda: r.metadata['tags'].append(3)]
            for f in acts:
                try:
                    f()
                except Exception:  # noqa
                    pass
            changed = []
            ax_ = snap(x)
            if ax_ != bx:
                d0, d1 = dict(bx[1]), dict(ax_[1])
                if 'time' not in d0:
                    d1.pop('time', None)     # the lazily created axis (a cache filled by copy()); its content is checked below
                changed += ['operand.' + k for k in sorted(set(d0) | set(d1)) if d0.get(k) != d1.get(k)]
            if snap(a) != ba:
                changed.append('array-operand')
            if snap(x.time) != want_time:
                changed.append('operand.time')
            try:
                if float(x.at(t.TimeArray(1.5))[0]) != 2.0:
                    changed.append('operand.at')
            except Exception:  # noqa
                changed.append('operand.at-raises')
            state = 'time-read' if lazy else 'time-unread'
            if changed:
                fails.append(Failure('series-%s/%s/result-mutation-reaches-%s' % (nm, state, '+'.join(changed)),
                                     'changing the result of TimeSeries %s in place (with the operand\'s .time %s before) changed %s; shared objects: %s'
                                     % (nm, 'read' if lazy else 'not read', changed, parts or 'none by identity'), {'what': 'copies'}))
            elif parts:
                fails.append(Failure('series-%s/%s/shares-%s' % (nm, state, '+'.join(parts)),
                                     'the result of TimeSeries %s shares %s with its operand' % (nm, parts), {'what': 'copies'}))
    return fails


def unmodelled_operands(tier, seed):
    """operand kinds the Lean model does not cover (int32 / float64 arrays, float lists, numpy
    scalars): snapshots around every operator, element assignment and += / -= """
    fails, n = [], 0
    t = ts()
    rs = np_rng(PID, seed, 'operands')
    reps = 2 if tier == 'quick' else 12
    mk = {
        'int32': lambda m: rs.randint(-50, 50, size=m).astype(np.int32),
        'float64': lambda m: np.round(rs.uniform(-50, 50, size=m), 3),
        'floatlist': lambda m: [float(v) for v in np.round(rs.uniform(-50, 50, size=m), 2)],
        'int64-0d': lambda m: np.array(int(rs.randint(-50, 50))),
        'float64-noncontig': lambda m: np.round(rs.uniform(-50, 50, size=2 * m), 3)[::2],
    }
    ops = dict(c01.OPS_AR)
    ops.update(c01.OPS_CMP)
    for _ in range(reps):
        for unit in ('ps', 'us', 's', 'h'):
            for kind, f in mk.items():
                m = int(rs.randint(1, 5))
                for opn, fn in ops.items():
                    v = f(m)
                    b = snap(v)
                    try:
                        fn(t.TimeArray(np.arange(m), time_unit=unit), v)
                    except Exception:  # noqa
                        pass
                    n += 1
                    dd = differs(b, snap(v))
                    if dd:
                        fails.append(Failure('binop/%s/%s/operand-%s' % (opn, kind, dd), 'TimeArray %s modified its %s operand (%s)' % (opn, kind, dd), {'what': 'operands'}))
                v = f(m)
                b = snap(v)
                try:
                    ta = t.TimeArray(np.arange(m + 1), time_unit=unit)
                    ta[0:m] = v
                except Exception:  # noqa
                    pass
                n += 1
                dd = differs(b, snap(v))
                if dd:
                    fails.append(Failure('setitem/%s/operand-%s' % (kind, dd), 'TimeArray.__setitem__ modified its %s operand (%s)' % (kind, dd), {'what': 'operands'}))
                for sgn in ('iadd', 'isub'):
                    for shape in ('uniform', 'nonuniform'):
                        if kind == 'int64-0d':
                            v = f(1)
                        else:
                            base = np.arange(4) * (2 if kind != 'floatlist' else 2.0)
                            if shape == 'nonuniform':
                                base = base + np.array([0, 0, 1, 0])
                            v = base.astype(np.int32) if kind == 'int32' else (list(map(float, base)) if kind == 'floatlist' else
                                                                              (np.repeat(base.astype(float), 2)[::2] if kind == 'float64-noncontig' else base.astype(float)))
                        b = snap(v)
                        u = t.UniformTime(t0=0, sampling_interval=10, length=4, time_unit=unit)
                        ub = snap(u)
                        try:
                            u = getattr(operator, sgn)(u, v)
                            raised = False
                        except Exception:  # noqa
                            raised = True
                        n += 1
                        dd = differs(b, snap(v))
                        if dd:
                            fails.append(Failure('uniform-%s/%s/%s/operand-%s' % (sgn, shape, kind, dd), 'UniformTime %s modified its %s operand (%s)' % (sgn, kind, dd), {'what': 'operands'}))
                        if raised and snap(u) != ub:
                            fails.append(Failure('uniform-%s/%s/%s/changed-on-reject' % (sgn, shape, kind), 'a refused UniformTime %s (%s %s operand) changed the axis' % (sgn, shape, kind), {'what': 'operands'}))
    return fails, n


def oracle(rng, tier, seed, focus, cases=None):
    fails = []
    for c in (cases or []):
        f = judge_case(c)
        if f:
            fails.append(f)
    def guarded(name, fn, default):
        # an experiment dying inside the library is a finding about the library, not a harness crash
        try:
            return fn()
        except Exception as e:  # noqa
            import traceback
            tb = traceback.extract_tb(e.__traceback__)
            where = next((f for f in reversed(tb) if '/nitime/' in f.filename), tb[-1])
            fails.append(Failure('experiment/%s/raises-%s' % (name, err_kind(e)),
                                 'the %s experiment died inside the library: %r at %s:%s' % (name, e, where.filename.split('/')[-1], where.name),
                                 {'what': 'copies' if name != 'sweep' else 'sweep'}))
            return default
    f2, stats = guarded('sweep', lambda: sweep(tier, seed), ([], {}))
    fails += f2
    fails += guarded('copies', lambda: copies(tier, seed), [])
    fails += guarded('axis-copy-forms', lambda: axis_copy_forms(tier, seed), [])
    fails += guarded('series-share-nothing', lambda: series_share_nothing(tier, seed), [])
    f3, n3 = guarded('operands', lambda: unmodelled_operands(tier, seed), ([], 0))
    fails += f3
    stats['unmodelled_operand_calls'] = n3
    for f in fails:
        f.replay = dict(f.replay, key=f.key)
    stats.update(judged=len(cases or []), failed=len(fails), distinct_keys=len({f.key for f in fails}))
    return fails, stats


def replay(d):
    import common
    known = common.load_findings(PID)
    if str(d.get('key', '')).startswith('experiment/'):
        fs, _ = oracle(None, 'quick', 0, [], [])
        return next((f for f in fs if f.key == d['key']), None)
    if d.get('what') == 'sweep':
        fs, _ = sweep('thorough', 0)
    elif d.get('what') == 'copies':
        fs = copies('quick', 0) + axis_copy_forms('quick', 0) + series_share_nothing('quick', 0)
    elif d.get('what') == 'operands':
        fs = unmodelled_operands('thorough', 0)[0]
    else:
        f = rejudge(d)
        fs = [f] if f else []
    want = d.get('key')
    for f in fs:
        if f.key == want or (want is None and not common.match_known(f.key, known)):
            return f
    return None
