"""C05 translator pass: every frequency-grid expression of the source -> a `GridExpr` term.

Pure `ast` walking of files under translate.REPO; no repo code is executed.  Output:
lean/Nitime/Generated/Grids.lean with one `def <site> : GridExpr` per site and a lookup table
`sites`.  Supported fragment (anything else becomes `.unsupported` / `.bad`, so that the theorem
about that site no longer checks):

  grid   ::= np.linspace(s, s, s [, endpoint=True|False]) | np.fft.rfftfreq(s) | np.fft.fftfreq(s) | np.arange(s)
           | grid * s | s * grid | grid / s | grid + s | s + grid | grid - s | <name bound to a grid>
           | utils.get_freqs(s, s) / tsu.get_freqs(s, s)        (callee's return expression inlined)
           | utils.circle_to_hz(grid, s)                         (callee's return expression inlined)
  s      ::= int literal | float literal with integral value | np.pi | <name/attribute bound in the
             site's environment to Fs or N> | <local name with a unique assignment in the function>
           | self.<attr> with a unique `self.<attr> = s` in __init__ | s+s | s-s | s*s | s/s | s//s | -s | int(s)
"""
import ast
import translate as T


class Unsupported(Exception):
    pass


class NotGrid(Exception):
    pass


def unparse(node):
    try:
        return ast.unparse(node)
    except Exception:
        return '?'


def is_np_attr(node, *path):
    """node is np.<path...> (e.g. np.fft.rfftfreq)"""
    parts = []
    while isinstance(node, ast.Attribute):
        parts.append(node.attr)
        node = node.value
    if isinstance(node, ast.Name):
        parts.append(node.id)
    parts.reverse()
    return parts == ['np'] + list(path)


class Ctx:
    """translation context of one site: env maps source text -> Lean AExpr/GridExpr text"""

    def __init__(self, fn, env, genv=None, init=None, trees=None, depth=0):
        self.fn, self.env, self.genv, self.init, self.trees, self.depth = fn, dict(env), dict(genv or {}), init, trees, depth

    # ------------------------------------------------------------ scalars
    def local_assign(self, name):
        hits = [n for n in ast.walk(self.fn) if isinstance(n, ast.Assign) and len(n.targets) == 1
                and isinstance(n.targets[0], ast.Name) and n.targets[0].id == name]
        return hits[0].value if len(hits) == 1 else None

    def init_assign(self, attr):
        if self.init is None:
            return None
        hits = [n for n in ast.walk(self.init) if isinstance(n, ast.Assign) and len(n.targets) == 1
                and unparse(n.targets[0]) == attr]
        return hits[0].value if len(hits) == 1 else None

    def scal(self, node, seen=()):
        src = unparse(node)
        if src in self.env:
            return self.env[src]
        if isinstance(node, ast.Constant):
            v = node.value
            if isinstance(v, bool):
                raise Unsupported(src)
            if isinstance(v, int):
                return '(.const %d)' % v if v >= 0 else '(.const (%d))' % v
            if isinstance(v, float) and v == int(v) and abs(v) < 2**31:
                return '(.const %d)' % int(v) if v >= 0 else '(.const (%d))' % int(v)
            raise Unsupported(src)
        if is_np_attr(node, 'pi'):
            return '.pi'
        if isinstance(node, ast.Name):
            if node.id in seen:
                raise Unsupported('cyclic ' + src)
            v = self.local_assign(node.id)
            if v is None:
                raise Unsupported('unbound name ' + src)
            return self.scal(v, seen + (node.id,))
        if isinstance(node, ast.Attribute) and isinstance(node.value, ast.Name) and node.value.id == 'self':
            if src in seen:
                raise Unsupported('cyclic ' + src)
            v = self.init_assign(src)
            if v is None:
                raise Unsupported('unbound attribute ' + src)
            return Ctx(self.init, self.env, self.genv, self.init, self.trees).scal(v, seen + (src,))
        if isinstance(node, ast.BinOp):
            ops = {ast.Add: 'add', ast.Sub: 'sub', ast.Mult: 'mul', ast.Div: 'div', ast.FloorDiv: 'floordiv'}
            for k, name in ops.items():
                if isinstance(node.op, k):
                    return '(.%s %s %s)' % (name, self.scal(node.left, seen), self.scal(node.right, seen))
            raise Unsupported(src)
        if isinstance(node, ast.UnaryOp) and isinstance(node.op, ast.USub):
            return '(.neg %s)' % self.scal(node.operand, seen)
        if isinstance(node, ast.Call) and isinstance(node.func, ast.Name) and node.func.id == 'int' \
                and len(node.args) == 1 and not node.keywords:
            return '(.int %s)' % self.scal(node.args[0], seen)
        raise Unsupported(src)

    def s(self, node):
        try:
            return self.scal(node)
        except Unsupported:
            return '.bad'

    # ------------------------------------------------------------ grids
    def callee(self, name):
        """(FunctionDef, return expression) of nitime.utils.<name>"""
        fn = T.find_func(self.trees['utils'], name)
        if fn is None:
            raise Unsupported('no utils.' + name)
        rets = [n for n in ast.walk(fn) if isinstance(n, ast.Return)]
        if len(rets) != 1 or rets[0].value is None:
            raise Unsupported('utils.%s: not a single return' % name)
        return fn, rets[0].value

    def grid(self, node):
        """Lean GridExpr text; raises NotGrid when `node` is not a grid-valued expression"""
        src = unparse(node)
        if src in self.genv:
            return self.genv[src]
        if isinstance(node, ast.Call):
            f = node.func
            if is_np_attr(f, 'linspace'):
                a = list(node.args)
                ep, num = 'true', None
                for kw in node.keywords:
                    if kw.arg == 'endpoint' and isinstance(kw.value, ast.Constant) and isinstance(kw.value.value, bool):
                        ep = 'true' if kw.value.value else 'false'
                    elif kw.arg == 'num':
                        num = kw.value
                    else:
                        return '.unsupported'
                if len(a) == 4 and isinstance(a[3], ast.Constant) and isinstance(a[3].value, bool):
                    ep = 'true' if a[3].value else 'false'
                    a = a[:3]
                if len(a) == 2 and num is not None:
                    a.append(num)
                if len(a) != 3:
                    return '.unsupported'
                return '(.linspace %s %s %s %s)' % (self.s(a[0]), self.s(a[1]), self.s(a[2]), ep)
            if is_np_attr(f, 'arange'):
                if len(node.args) != 1 or node.keywords:
                    return '.unsupported'
                return '(.arange %s)' % self.s(node.args[0])
            if is_np_attr(f, 'fft', 'rfftfreq') or is_np_attr(f, 'fft', 'fftfreq'):
                if len(node.args) != 1 or node.keywords:
                    return '.unsupported'
                return '(.%s %s)' % (f.attr, self.s(node.args[0]))
            if isinstance(f, ast.Attribute) and isinstance(f.value, ast.Name) and f.value.id in ('utils', 'tsu') \
                    and f.attr in ('get_freqs', 'circle_to_hz') and len(node.args) == 2 and not node.keywords:
                if self.depth > 3:
                    return '.unsupported'
                try:
                    cfn, ret = self.callee(f.attr)
                except Unsupported:
                    return '.unsupported'
                params = [a.arg for a in cfn.args.args]
                if len(params) != 2:
                    return '.unsupported'
                if f.attr == 'get_freqs':
                    env = {params[0]: self.s(node.args[0]), params[1]: self.s(node.args[1])}
                    genv = {}
                else:
                    try:
                        inner = self.grid(node.args[0])
                    except NotGrid:
                        return '.unsupported'
                    env = {params[1]: self.s(node.args[1])}
                    genv = {params[0]: inner}
                try:
                    return Ctx(cfn, env, genv, None, self.trees, self.depth + 1).grid(ret)
                except NotGrid:
                    return '.unsupported'
            raise NotGrid(src)
        if isinstance(node, ast.BinOp) and isinstance(node.op, (ast.Mult, ast.Div, ast.Add, ast.Sub)):
            opn = {ast.Mult: 'mulS', ast.Div: 'divS', ast.Add: 'addS', ast.Sub: 'subS'}[type(node.op)]
            try:
                g = self.grid(node.left)
                return '(.%s %s %s)' % (opn, g, self.s(node.right))
            except NotGrid:
                if isinstance(node.op, (ast.Mult, ast.Add)):
                    g = self.grid(node.right)
                    return '(.%s %s %s)' % (opn, g, self.s(node.left))
                raise
        raise NotGrid(src)

    def g(self, node):
        if node is None:
            return '.unsupported'
        try:
            return self.grid(node)
        except (NotGrid, Unsupported):
            return '.unsupported'


# ---------------------------------------------------------------------- locating the expressions
def assigns(body, var):
    """values assigned to `var` by statements directly in `body`"""
    return [n.value for n in body if isinstance(n, ast.Assign) and len(n.targets) == 1
            and isinstance(n.targets[0], ast.Name) and n.targets[0].id == var]


def sided(fn, var):
    """(onesided expr, twosided expr) from `if sides == 'onesided': … var = … else: … var = …`"""
    for n in ast.walk(fn):
        if isinstance(n, ast.If) and unparse(n.test) == "sides == 'onesided'":
            a, b = assigns(n.body, var), assigns(n.orelse, var)
            if len(a) == 1 and len(b) == 1:
                return a[0], b[0]
    return None, None


def branch(fn, test_src, var):
    for n in ast.walk(fn):
        if isinstance(n, ast.If) and unparse(n.test) == test_src:
            a, b = assigns(n.body, var), assigns(n.orelse, var)
            if len(a) == 1 and len(b) == 1:
                return a[0], b[0]
    return None, None


def unique_assign(fn, var):
    hits = [n.value for n in ast.walk(fn) if isinstance(n, ast.Assign) and len(n.targets) == 1
            and isinstance(n.targets[0], ast.Name) and n.targets[0].id == var]
    return hits[0] if len(hits) == 1 else None


def unique_assign_target(fn, *targets):
    hits = [n.value for n in ast.walk(fn) if isinstance(n, ast.Assign) and len(n.targets) == 1 and unparse(n.targets[0]) in targets]
    return hits[0] if len(hits) == 1 else None


def single_return(fn):
    rets = [n for n in ast.walk(fn) if isinstance(n, ast.Return)]
    return rets[0].value if len(rets) == 1 else None


def find_call(fn, dotted):
    """all Call nodes in fn whose func unparses to `dotted`"""
    return [n for n in ast.walk(fn) if isinstance(n, ast.Call) and unparse(n.func) == dotted]


def kwarg(call, name):
    for kw in call.keywords:
        if kw.arg == name:
            return kw.value
    return None


def gen():
    trees = {
        'spectral': T.parse('nitime/algorithms/spectral.py'),
        'cohere': T.parse('nitime/algorithms/cohere.py'),
        'utils': T.parse('nitime/utils.py'),
        'a_coh': T.parse('nitime/analysis/coherence.py'),
        'a_spec': T.parse('nitime/analysis/spectral.py'),
        'a_gr': T.parse('nitime/analysis/granger.py'),
        'a_snr': T.parse('nitime/analysis/snr.py'),
    }
    out, echo = [], {}

    def emit(name, text, src):
        out.append((name, text))
        echo[name] = {'source': src, 'term': text}

    def fnof(tree, name, cls=None):
        return T.find_func(trees[tree], name, cls)

    # -- estimators in algorithms/spectral.py
    est = {}   # name -> (fn, env names, onesided expr, twosided expr)
    for fname, env in [('periodogram', {'Fs': '.fs', 'N': '.n'}),
                       ('periodogram_csd', {'Fs': '.fs', 'N': '.n'}),
                       ('multi_taper_psd', {'Fs': '.fs', 'NFFT': '.n'}),
                       ('multi_taper_csd', {'Fs': '.fs', 'NFFT': '.n'})]:
        fn = fnof('spectral', fname)
        one, two = sided(fn, 'freqs') if fn is not None else (None, None)
        est[fname] = (fn, env, one, two)
        for side, e in (('onesided', one), ('twosided', two)):
            c = Ctx(fn, env, trees=trees) if fn is not None else None
            emit('%s_%s' % (fname, side), c.g(e) if c else '.unsupported', unparse(e) if e is not None else None)

    # -- utils.get_freqs (as a site of its own: parameters Fs, n)
    fn = fnof('utils', 'get_freqs')
    params = [a.arg for a in fn.args.args] if fn is not None else []
    if fn is not None and len(params) == 2:
        r = single_return(fn)
        emit('get_freqs', Ctx(fn, {params[0]: '.fs', params[1]: '.n'}, trees=trees).g(r), unparse(r))
    else:
        emit('get_freqs', '.unsupported', None)

    # -- get_spectra, non-Welch branch: f = utils.circle_to_hz(freqs, mdict.get('Fs', 2*np.pi)),
    #    freqs being what func = eval(this_method) returned (Fs supplied in the method dict)
    fn = fnof('spectral', 'get_spectra')
    done = False
    if fn is not None:
        for n in ast.walk(fn):
            if isinstance(n, ast.If) and isinstance(n.test, ast.Compare) and unparse(n.test.left) == 'this_method' \
                    and len(n.test.ops) == 1 and isinstance(n.test.ops[0], ast.In) \
                    and isinstance(n.test.comparators[0], (ast.Tuple, ast.List)):
                funcs = [e.value for e in n.test.comparators[0].elts if isinstance(e, ast.Constant)]
                fa = assigns(n.body, 'f')
                tup = [s for s in n.body if isinstance(s, ast.Assign) and unparse(s.targets[0]) in ('(freqs, fxy)', 'freqs, fxy')
                       and unparse(s.value) == 'func(time_series, **mdict)']
                ev = [s for s in n.body if isinstance(s, ast.Assign) and unparse(s.value) == "eval(mdict.pop('this_method'))"
                      and unparse(s.targets[0]) == 'func']
                direct = [s for s in n.body if isinstance(s, ast.Assign) and unparse(s.targets[0]) in ('(f, fxy)', 'f, fxy')
                          and unparse(s.value) == 'func(time_series, **mdict)']
                if len(direct) == 1 and not fa and not tup and len(ev) == 1:
                    # repaired shape: the callee's grid is returned unchanged
                    tup, fa = direct, [ast.Name(id='freqs', ctx=ast.Load())]
                if len(fa) == 1 and len(tup) == 1 and len(ev) == 1:
                    done = True
                    for fname in funcs:
                        if fname not in est:
                            continue
                        cfn, cenv, one, two = est[fname]
                        for side, e in (('onesided', one), ('twosided', two)):
                            inner = Ctx(cfn, cenv, trees=trees).g(e)
                            c = Ctx(fn, {"mdict.get('Fs', 2 * np.pi)": '.fs'}, {'freqs': inner}, trees=trees)
                            emit('get_spectra_%s_%s' % (fname, side), c.g(fa[0]), unparse(fa[0]) + '  with freqs = ' + (unparse(e) if e is not None else '?'))
    if not done:
        for fname in ('multi_taper_csd', 'periodogram_csd'):
            for side in ('onesided', 'twosided'):
                emit('get_spectra_%s_%s' % (fname, side), '.unsupported', None)

    # -- cohere.py
    fn = fnof('cohere', 'cache_fft')
    e = unique_assign(fn, 'freqs') if fn is not None else None
    emit('cache_fft', Ctx(fn, {'Fs': '.fs', 'NFFT': '.n'}, trees=trees).g(e) if fn is not None else '.unsupported', unparse(e) if e is not None else None)
    # what cache_fft returns as its frequency vector: `freqs` (all bins) or `freqs[lb_idx:ub_idx]` (the cached band)
    sliced = 'none'
    if fn is not None:
        rets = [n for n in ast.walk(fn) if isinstance(n, ast.Return)]
        gb = unique_assign_target(fn, '(lb_idx, ub_idx)', 'lb_idx, ub_idx')
        if len(rets) == 1 and isinstance(rets[0].value, ast.Tuple) and len(rets[0].value.elts) == 2:
            r0 = unparse(rets[0].value.elts[0])
            if r0 == 'freqs':
                sliced = 'some false'
            elif r0 == 'freqs[lb_idx:ub_idx]' and gb is not None and unparse(gb) == 'utils.get_bounds(freqs, lb, ub)':
                sliced = 'some true'
        echo['cache_fft_sliced'] = {'source': unparse(rets[0].value) if len(rets) == 1 else None, 'term': sliced}
    fn = fnof('cohere', 'correlation_spectrum')
    e = unique_assign(fn, 'f') if fn is not None else None
    emit('correlation_spectrum', Ctx(fn, {'Fs': '.fs', 'n': '.n'}, trees=trees).g(e) if fn is not None else '.unsupported', unparse(e) if e is not None else None)

    # -- analyzers
    AN_ENV = {'self.input.sampling_rate': '.fs', 'self.input.data.shape[-1]': '.n', 'self.input.shape[-1]': '.n',
              'self.sampling_rate': '.fs', 'self.data.shape[-1]': '.n', 'sampling_rate': '.fs', 'data.shape[-1]': '.n'}

    def analyzer(site, tree, cls, meth, pick, env=None):
        fn = fnof(tree, meth, cls)
        init = fnof(tree, '__init__', cls)
        if fn is None:
            emit(site, '.unsupported', None)
            return
        e = pick(fn)
        emit(site, Ctx(fn, env or AN_ENV, init=init, trees=trees).g(e), unparse(e) if e is not None else None)

    analyzer('MTCoherenceAnalyzer_frequencies', 'a_coh', 'MTCoherenceAnalyzer', 'frequencies', single_return)
    band_env = {'Fs': '.fs', 'NFFT': '.n'}
    analyzer('SparseCoherenceAnalyzer_frequencies', 'a_coh', 'SparseCoherenceAnalyzer', 'frequencies',
             lambda fn: unique_assign(fn, 'freqs'), band_env)
    analyzer('SeedCoherenceAnalyzer_frequencies', 'a_coh', 'SeedCoherenceAnalyzer', 'frequencies',
             lambda fn: unique_assign(fn, 'freqs'), band_env)
    test = 'np.any(np.iscomplex(data))'
    analyzer('SpectralAnalyzer_spectrum_fourier_complex', 'a_spec', 'SpectralAnalyzer', 'spectrum_fourier',
             lambda fn: branch(fn, test, 'f')[0])
    analyzer('SpectralAnalyzer_spectrum_fourier_real', 'a_spec', 'SpectralAnalyzer', 'spectrum_fourier',
             lambda fn: branch(fn, test, 'f')[1])
    analyzer('FilterAnalyzer_filtered_fourier', 'a_spec', 'FilterAnalyzer', 'filtered_fourier',
             lambda fn: unique_assign(fn, 'freqs'))
    gr_env = dict(AN_ENV)
    gr_env['self._n_freqs'] = '.n'
    analyzer('GrangerAnalyzer_frequencies', 'a_gr', 'GrangerAnalyzer', 'frequencies', single_return, gr_env)
    analyzer('SNRAnalyzer_mt_frequencies', 'a_snr', 'SNRAnalyzer', 'mt_frequencies', single_return)

    # -- analyzers that delegate to an estimator: the estimator's grid with Fs := the `Fs=` keyword
    def delegate(site_prefix, cls, meth, dotted, estname):
        fn = fnof('a_spec', meth, cls)
        cfn, cenv, one, two = est[estname]
        calls = find_call(fn, dotted) if fn is not None else []
        fsk = {unparse(kwarg(c, 'Fs')) if kwarg(c, 'Fs') is not None else None for c in calls}
        for side, e in (('onesided', one), ('twosided', two)):
            if cfn is None or not calls or len(fsk) != 1 or None in fsk or any(kwarg(c, 'NFFT') is not None or kwarg(c, 'N') is not None or kwarg(c, 'Sk') is not None or len(c.args) > 1 for c in calls):
                emit('%s_%s' % (site_prefix, side), '.unsupported', None)
                continue
            fs_term = Ctx(fn, AN_ENV, trees=trees).s(kwarg(calls[0], 'Fs'))
            env = dict(cenv)
            env['Fs'] = fs_term
            emit('%s_%s' % (site_prefix, side), Ctx(cfn, env, trees=trees).g(e),
                 '%s(…, Fs=%s) -> %s' % (dotted, list(fsk)[0], unparse(e) if e is not None else '?'))

    delegate('SpectralAnalyzer_periodogram', 'SpectralAnalyzer', 'periodogram', 'tsa.periodogram', 'periodogram')
    delegate('SpectralAnalyzer_spectrum_multi_taper', 'SpectralAnalyzer', 'spectrum_multi_taper', 'tsa.multi_taper_psd', 'multi_taper_psd')

    lines = ['-- GENERATED by harness/translate_c05.py from the frequency-grid expressions of the source. DO NOT EDIT.',
             'import Nitime.Model.C05Grid', 'namespace Nitime.Generated.Grids', 'open Nitime.C05', '']
    for name, text in out:
        src = echo[name]['source']
        lines.append('/-- source: `%s` -/' % (src.replace('-/', '- /') if src else 'NOT FOUND'))
        lines.append('def %s : GridExpr := %s' % (name, text))
        lines.append('')
    lines.append('/-- does `cache_fft` return the cached band `freqs[lb_idx:ub_idx]` (true) or all of `freqs` (false)? -/')
    lines.append('def cache_fft_sliced : Option Bool := %s' % sliced)
    lines.append('')
    lines.append('def sites : List (String × GridExpr) := [')
    lines.append(',\n'.join('  ("%s", %s)' % (name, name) for name, _ in out))
    lines += [']', '', 'end Nitime.Generated.Grids', '']
    return 'Grids.lean', '\n'.join(lines), echo


# ------------------------------------------------------------------ how the analyzers hold their `method` dict
def _is_self_method(node):
    return isinstance(node, ast.Attribute) and node.attr == 'method' and isinstance(node.value, ast.Name) and node.value.id == 'self'


def _is_none_test(test):
    """`method is None` / `self.method is None`"""
    return isinstance(test, ast.Compare) and len(test.ops) == 1 and isinstance(test.ops[0], ast.Is) \
        and isinstance(test.comparators[0], ast.Constant) and test.comparators[0].value is None \
        and (isinstance(test.left, ast.Name) and test.left.id == 'method' or _is_self_method(test.left))


def _classify_given(e):
    """what `self.method` becomes for a caller-supplied dict: 'keeps' (the object itself) / 'copies' / None (not recognised)"""
    if isinstance(e, ast.Name) and e.id == 'method':
        return 'keeps'
    if isinstance(e, ast.Call):
        f = e.func
        if isinstance(f, ast.Name) and f.id == 'dict' and len(e.args) == 1 and isinstance(e.args[0], ast.Name) and e.args[0].id == 'method' and not e.keywords:
            return 'copies'
        if isinstance(f, ast.Attribute) and f.attr == 'copy' and isinstance(f.value, ast.Name) and f.value.id == 'method' and not e.args:
            return 'copies'
        if isinstance(f, ast.Attribute) and f.attr in ('copy', 'deepcopy') and isinstance(f.value, ast.Name) and f.value.id == 'copy' \
                and len(e.args) == 1 and isinstance(e.args[0], ast.Name) and e.args[0].id == 'method':
            return 'copies'
    return None


def _method_assigns(body):
    """[(value, condition)] of the assignments `self.method = value` in a statement list; condition in
    {'always', 'none', 'given'} (inside `if method is None:` / its else)"""
    out = []
    for st in body:
        if isinstance(st, ast.Assign) and len(st.targets) == 1 and _is_self_method(st.targets[0]):
            if isinstance(st.value, ast.IfExp) and _is_none_test(st.value.test):
                out.append((st.value.body, 'none'))
                out.append((st.value.orelse, 'given'))
            else:
                out.append((st.value, 'always'))
        elif isinstance(st, ast.If) and _is_none_test(st.test):
            out += [(v, 'none') for v, c in _method_assigns(st.body) if c == 'always']
            out += [(v, 'given') for v, c in _method_assigns(st.orelse) if c == 'always']
            if any(c != 'always' for v, c in _method_assigns(st.body) + _method_assigns(st.orelse)):
                out.append((None, 'unknown'))
        elif isinstance(st, (ast.If, ast.For, ast.While, ast.With, ast.Try)):
            if any(isinstance(n, ast.Assign) and any(_is_self_method(t) for t in n.targets) for n in ast.walk(st)):
                out.append((None, 'unknown'))
    return out


def _fills_fs(init):
    """`self.method['Fs'] = self.method.get('Fs', <anything>)` at the top level of __init__"""
    for st in init.body:
        if isinstance(st, ast.Assign) and len(st.targets) == 1 and isinstance(st.targets[0], ast.Subscript) \
                and _is_self_method(st.targets[0].value) and isinstance(st.targets[0].slice, ast.Constant) and st.targets[0].slice.value == 'Fs':
            v = st.value
            if isinstance(v, ast.Call) and isinstance(v.func, ast.Attribute) and v.func.attr == 'get' and _is_self_method(v.func.value) \
                    and len(v.args) == 2 and isinstance(v.args[0], ast.Constant) and v.args[0].value == 'Fs':
                return True
    return False


METHOD_CLASSES = [('coherence', 'a_coh', 'CoherenceAnalyzer'), ('sparse', 'a_coh', 'SparseCoherenceAnalyzer'),
                  ('seed', 'a_coh', 'SeedCoherenceAnalyzer'), ('spectral', 'a_spec', 'SpectralAnalyzer')]


def gen_methods():
    """per analyzer class: what the constructor stores in `self.method` for `method=None` (a dict display built there?)
    and for a caller's dict (the object itself, or a copy), whether it fills `'Fs'` in, whether the default display
    carries `'Fs'`"""
    trees = {'a_coh': T.parse('nitime/analysis/coherence.py'), 'a_spec': T.parse('nitime/analysis/spectral.py')}
    echo, rows, ok = {}, [], True
    for lean, tree, cls in METHOD_CLASSES:
        init = T.find_func(trees[tree], '__init__', cls)
        fresh = keeps = None
        has_fs = False
        src = []
        if init is not None:
            asg = _method_assigns(init.body)
            src = ['%s: self.method = %s' % (c, unparse(v) if v is not None else '?') for v, c in asg]
            if not any(c == 'unknown' for v, c in asg):
                always = [v for v, c in asg if c == 'always']
                none_v = [v for v, c in asg if c == 'none']
                given_v = [v for v, c in asg if c == 'given']
                # `self.method = method` first, then `if self.method is None: self.method = {...}`
                if len(always) == 1 and not given_v:
                    given_v = always
                    always = []
                if not always and len(none_v) == 1 and len(given_v) == 1:
                    fresh = isinstance(none_v[0], ast.Dict)
                    if fresh:
                        has_fs = any(isinstance(k, ast.Constant) and k.value == 'Fs' for k in none_v[0].keys)
                    g = _classify_given(given_v[0])
                    keeps = None if g is None else (g == 'keeps')
        fills = _fills_fs(init) if init is not None else False
        if fresh is None or keeps is None:
            ok = False
        rows.append((lean, fresh, keeps, fills, has_fs))
        echo[cls] = {'assignments': src, 'method_none_builds_dict_display': fresh, 'keeps_callers_dict_object': keeps,
                     'ctor_fills_Fs': fills, 'default_display_has_Fs': has_fs}
    b = lambda v: 'true' if v else 'false'
    lines = ['-- GENERATED by harness/translate_c05.py (gen_methods) from the analyzer constructors. DO NOT EDIT.',
             'import Nitime.Model.C05Hist', 'namespace Nitime.Generated.Methods', 'open Nitime.C05.Two', '',
             '/-- every constructor\'s handling of `method` was recognised -/',
             'def recognised : Bool := %s' % b(ok), '',
             '/-- `method=None`: the constructor builds a NEW dict (a dict display in `__init__`) -/',
             'def freshDefault : Cls → Bool']
    for lean, fresh, keeps, fills, has_fs in rows:
        lines.append('  | .%s => %s' % (lean, b(fresh)))
    lines += ['', '/-- a caller\'s dict: kept as the object itself / copied; `\'Fs\'` filled in by `__init__`; default display with `\'Fs\'` -/',
              'def spec : Cls → MSpec']
    for lean, fresh, keeps, fills, has_fs in rows:
        lines.append('  | .%s => ⟨%s, %s, %s⟩' % (lean, b(True if keeps is None else keeps), b(fills), b(has_fs)))
    lines += ['', 'end Nitime.Generated.Methods', '']
    return 'Methods.lean', '\n'.join(lines), echo


# ------------------------------------------------------------------ FROM WHICH QUANTITY the grid length is taken
# Symbolic execution of the top-level statements of an estimator up to the statement that builds the grid
# (`if sides == 'onesided': … freqs = …`).  Tracked values (python-side trees, rendered to Lean at the end):
#   Len ::= 'data' | 'nfft' | 'given' | ('ite', cond, Len, Len) | 'bad'          (Nitime.C05.LenExpr)
#   Tr  ::= 'supplied' | ('fft', Len) | ('ite', cond, Tr, Tr) | 'bad'            (Nitime.C05.TrExpr)
#   cond: Lean text of an LCond
# Everything outside the fragment becomes 'bad' / '.unknown', and the theorem about that estimator stops checking.
LEN_SITES = [('periodogram', 'N', 'N'), ('periodogram_csd', 'N', 'NFFT'),
             ('multi_taper_psd', 'NFFT', 'NFFT'), ('multi_taper_csd', 'NFFT', 'NFFT')]     # (function, grid name, length parameter)
TR_CANDIDATES = ['Sk_loc', 'spectra', 'Sk']
FFT_FUNCS = ('fftpack.fft', 'np.fft.fft', 'scipy.fftpack.fft', 'fft')
DATA_KEEPING = ('%s.reshape(', 'remove_bias(%s', 'utils.remove_bias(%s', 'np.asarray(%s', 'np.atleast_2d(%s', 'np.ascontiguousarray(%s')


def _ite(c, a, b):
    return a if a == b else ('ite', c, a, b)


def tr_len(t):
    if t == 'supplied':
        return 'given'
    if isinstance(t, tuple) and t[0] == 'fft':
        return t[1]
    if isinstance(t, tuple) and t[0] == 'ite':
        return _ite(t[1], tr_len(t[2]), tr_len(t[3]))
    return 'bad'


def render_len(t):
    if isinstance(t, tuple):
        return '(.ite %s %s %s)' % (t[1], render_len(t[2]), render_len(t[3]))
    return '.' + t


def render_tr(t):
    if isinstance(t, tuple) and t[0] == 'fft':
        return '(.fft %s)' % render_len(t[1])
    if isinstance(t, tuple):
        return '(.ite %s %s %s)' % (t[1], render_tr(t[2]), render_tr(t[3]))
    return '.' + t


class LenExec:
    def __init__(self, trees, depth=0):
        self.trees, self.depth = trees, depth

    # state: {'@data': name of the data array or None, name: ('len', Len) | ('tr', Tr)}
    def len_of(self, node, st):
        if isinstance(node, ast.Name):
            b = st.get(node.id)
            return b[1] if b and b[0] == 'len' else None
        if isinstance(node, ast.Subscript) and isinstance(node.value, ast.Attribute) and node.value.attr == 'shape' \
                and isinstance(node.value.value, ast.Name) and unparse(node.slice) == '-1':
            x = node.value.value.id
            if x == st.get('@data'):
                return 'data'
            b = st.get(x)
            if b and b[0] == 'tr':
                return tr_len(b[1])
            return None
        if isinstance(node, ast.IfExp):
            a, b = self.len_of(node.body, st), self.len_of(node.orelse, st)
            if a is None or b is None:
                return None
            return _ite(self.cond(node.test, st), a, b)
        return None

    def cond(self, test, st):
        if isinstance(test, ast.Compare) and len(test.ops) == 1 and isinstance(test.left, ast.Name) \
                and isinstance(test.comparators[0], ast.Constant) and test.comparators[0].value is None \
                and isinstance(test.ops[0], (ast.Is, ast.IsNot)):
            b = st.get(test.left.id)
            base = '.skGiven' if b == ('tr', 'supplied') else '.nfftGiven' if b == ('len', 'nfft') else None
            if base is None:
                return '.unknown'
            return base if isinstance(test.ops[0], ast.IsNot) else '(.not %s)' % base
        if isinstance(test, ast.UnaryOp) and isinstance(test.op, ast.Not):
            return '(.not %s)' % self.cond(test.operand, st)
        if isinstance(test, ast.Name):
            return '.nfftTruthy' if st.get(test.id) == ('len', 'nfft') else '.unknown'
        if isinstance(test, ast.BoolOp):
            parts = [self.cond(v, st) for v in test.values]
            op = '.or' if isinstance(test.op, ast.Or) else '.and'
            acc = parts[0]
            for p in parts[1:]:
                acc = '(%s %s %s)' % (op, acc, p)
            return acc
        if isinstance(test, ast.Compare) and len(test.ops) == 1 and isinstance(test.ops[0], ast.Lt):
            if self.len_of(test.left, st) == 'nfft' and self.len_of(test.comparators[0], st) == 'data':
                return '.nfftLtData'
        return '.unknown'

    def last_len(self, node, st):
        """Len of the last component of a shape expression: `(a, b, N)`, `rest + (K, N)`, or the last positional argument"""
        if isinstance(node, ast.Tuple) and node.elts:
            return self.len_of(node.elts[-1], st)
        if isinstance(node, ast.BinOp) and isinstance(node.op, ast.Add):
            return self.last_len(node.right, st)
        return self.len_of(node, st)

    def tr_of(self, node, st):
        if isinstance(node, ast.Name):
            b = st.get(node.id)
            return b[1] if b and b[0] == 'tr' else None
        if not isinstance(node, ast.Call):
            return None
        fsrc = unparse(node.func)
        if fsrc in FFT_FUNCS:
            n = kwarg(node, 'n')
            if n is None and len(node.args) >= 2:
                n = node.args[1]
            if n is not None:
                return ('fft', self.len_of(n, st) or 'bad')
            if node.args and isinstance(node.args[0], ast.Name) and node.args[0].id == st.get('@data'):
                return ('fft', 'data')
            return ('fft', 'bad')
        if isinstance(node.func, ast.Attribute) and node.func.attr == 'reshape' and isinstance(node.func.value, ast.Name):
            b = st.get(node.func.value.id)
            if b and b[0] == 'tr':
                last = self.last_len(node.args[-1], st) if node.args else None
                return b[1] if last is not None and last == tr_len(b[1]) else 'bad'
            return None
        if fsrc == 'np.rollaxis' and len(node.args) >= 2 and isinstance(node.args[0], ast.Name):
            # moving axis 0/1 of the (M, K, NFFT) array to position 0/1 leaves the last axis (the frequency bins) alone
            b = st.get(node.args[0].id)
            if b and b[0] == 'tr':
                start = kwarg(node, 'start') if kwarg(node, 'start') is not None else (node.args[2] if len(node.args) > 2 else ast.Constant(0))
                ok = all(isinstance(a, ast.Constant) and a.value in (0, 1) for a in (node.args[1], start))
                return b[1] if ok else 'bad'
            return None
        if fsrc in ('tapered_spectra', 'utils.tapered_spectra', 'tsu.tapered_spectra'):
            return self.inline_tapered(node, st)
        return None

    def inline_tapered(self, call, st):
        fn = T.find_func(self.trees['utils'], 'tapered_spectra') or T.find_func(self.trees['spectral'], 'tapered_spectra')
        if fn is None or self.depth > 1 or not call.args or not isinstance(call.args[0], ast.Name) or call.args[0].id != st.get('@data'):
            return 'bad'
        params = [a.arg for a in fn.args.args]
        if not params:
            return 'bad'
        st2 = {'@data': params[0]}
        nf = kwarg(call, 'NFFT')
        if nf is None and len(call.args) >= 3:
            nf = call.args[2]
        if 'NFFT' in params:
            st2['NFFT'] = ('len', (self.len_of(nf, st) or 'bad') if nf is not None else 'bad')
            if nf is None:
                return 'bad'             # the callee's default is not followed here
        sub = LenExec(self.trees, self.depth + 1)
        st2 = sub.run(fn.body, st2, lambda s_: False)
        outs = set()
        for r in ast.walk(fn):
            if isinstance(r, ast.Return) and r.value is not None:
                v = r.value.elts[0] if isinstance(r.value, ast.Tuple) and r.value.elts else r.value
                outs.add(sub.tr_of(v, st2) or 'bad')
        return outs.pop() if len(outs) == 1 else 'bad'

    def kill_assigned(self, node, st):
        for n in ast.walk(node):
            if isinstance(n, ast.Name) and isinstance(n.ctx, ast.Store) and n.id in st:
                st[n.id] = (st[n.id][0], 'bad')
            if isinstance(n, ast.Name) and isinstance(n.ctx, ast.Store) and n.id == st.get('@data'):
                st['@data'] = None

    def run(self, stmts, st, stop):
        st = dict(st)
        for s_ in stmts:
            if stop(s_):
                st['@stopped'] = True
                return st
            if isinstance(s_, ast.Assign) and len(s_.targets) == 1:
                t = s_.targets[0]
                if isinstance(t, ast.Name):
                    if t.id == st.get('@data'):
                        src = unparse(s_.value)
                        if not any(src.startswith(p % t.id) for p in DATA_KEEPING):
                            st['@data'] = None
                        continue
                    v = self.tr_of(s_.value, st)
                    if v is not None:
                        st[t.id] = ('tr', v)
                        continue
                    v = self.len_of(s_.value, st)
                    if v is not None:
                        st[t.id] = ('len', v)
                    elif t.id in st:
                        st[t.id] = (st[t.id][0], 'bad')
                    continue
                if isinstance(t, ast.Tuple) and t.elts and isinstance(t.elts[0], ast.Name):
                    v = self.tr_of(s_.value, st)
                    self.kill_assigned(t, st)
                    if v is not None:
                        st[t.elts[0].id] = ('tr', v)
                    continue
                if isinstance(t, ast.Attribute) and t.attr == 'shape' and isinstance(t.value, ast.Name):
                    b = st.get(t.value.id)
                    if b and b[0] == 'tr' and self.last_len(s_.value, st) != tr_len(b[1]):
                        st[t.value.id] = ('tr', 'bad')
                    continue
                self.kill_assigned(s_, st)
                continue
            if isinstance(s_, ast.If):
                c = self.cond(s_.test, st)
                a, b = self.run(s_.body, st, lambda x: False), self.run(s_.orelse, st, lambda x: False)
                for k in set(a) | set(b):
                    if k.startswith('@'):
                        if k == '@data' and a.get(k) != b.get(k):
                            st[k] = None
                        continue
                    va, vb = a.get(k), b.get(k)
                    if va == vb:
                        st[k] = va
                    elif va is None or vb is None or va[0] != vb[0]:
                        st[k] = ((va or vb)[0], 'bad')
                    else:
                        st[k] = (va[0], _ite(c, va[1], vb[1]))
                continue
            if isinstance(s_, (ast.Expr, ast.Pass, ast.Import, ast.ImportFrom, ast.Assert, ast.Raise, ast.Return)):
                continue
            self.kill_assigned(s_, st)
        return st


def gen_lens():
    trees = {'spectral': T.parse('nitime/algorithms/spectral.py'), 'utils': T.parse('nitime/utils.py')}
    echo, rows = {}, []
    for fname, gname, pname in LEN_SITES:
        fn = T.find_func(trees['spectral'], fname)
        glen, tr, trname = 'bad', 'bad', None
        if fn is not None:
            params = [a.arg for a in fn.args.args]
            st = {'@data': params[0] if params else None}
            if pname in params:
                st[pname] = ('len', 'nfft')
            if 'Sk' in params:
                st['Sk'] = ('tr', 'supplied')
            is_stop = lambda s_: isinstance(s_, ast.If) and unparse(s_.test) == "sides == 'onesided'"
            ex = LenExec(trees)
            st = ex.run(fn.body, st, is_stop)
            if st.get('@stopped'):
                b = st.get(gname)
                glen = b[1] if b and b[0] == 'len' else 'bad'
                # the transform the values are read from: the first candidate that is bound to a transform when the grid
                # is built and that the body reads in a subscript / product / call (not only in `is None` tests)
                used = {n.id for n in ast.walk(fn) if isinstance(n, ast.Name) and isinstance(n.ctx, ast.Load)}
                for cand in TR_CANDIDATES:
                    b = st.get(cand)
                    if b and b[0] == 'tr' and cand in used:
                        tr, trname = b[1], cand
                        break
        rows.append((fname, render_len(glen), render_tr(tr)))
        echo[fname] = {'grid_length_name': gname, 'grid_length': render_len(glen), 'transform_variable': trname, 'transform': render_tr(tr)}
    lines = ['-- GENERATED by harness/translate_c05.py (gen_lens): symbolic execution of the estimators up to the statement that builds the grid. DO NOT EDIT.',
             'import Nitime.Model.C05Len', 'namespace Nitime.Generated.GridLens', 'open Nitime.C05', '']
    for fname, g, t in rows:
        lines.append('/-- `%s`: what `%s` (the length the grid is built from) is bound to, and the transform the spectral values are read from -/' % (
            fname, echo[fname]['grid_length_name']))
        lines.append('def %s : LenSite := ⟨%s, %s⟩' % (fname, g, t))
        lines.append('')
    lines.append('def lens : List (String × LenSite) := [')
    lines.append(',\n'.join('  ("%s", %s)' % (fname, fname) for fname, _, _ in rows))
    lines += [']', '', 'end Nitime.Generated.GridLens', '']
    return 'GridLens.lean', '\n'.join(lines), echo


# ------------------------------------------------------------------ statement ORDER of set_input / __init__ (failure paths)
# For every coherence analyzer: the body of `set_input` as a list of Nitime.CohSession.Stmt (writes to self.method['Fs'] /
# self.input, reset(), possible raises, in source order; `BaseAnalyzer.set_input(self, input)` inlined from analysis/base.py),
# and the order of {possible raise, write into self.method} in `__init__`.  A write that precedes a possible raise is a
# generated FACT which the side condition of `session_reads` / `refused_ctor_leaves_callers_dict` forbids.
SETINPUT_CLASSES = [('coherence', 'CoherenceAnalyzer'), ('sparse', 'SparseCoherenceAnalyzer')]        # the classes with a `method['Fs']` slot and a set_input
CTOR_CLASSES = SETINPUT_CLASSES + [('seed', 'SeedCoherenceAnalyzer')]


def _is_self_attr(node, attr):
    return isinstance(node, ast.Attribute) and node.attr == attr and isinstance(node.value, ast.Name) and node.value.id == 'self'


def _class_def(tree, cls):
    for node in ast.walk(tree):
        if isinstance(node, ast.ClassDef) and node.name == cls:
            return node
    return None


def _raising_methods(cdef):
    """names of the methods of the class whose body contains a `raise` (validators)"""
    out = set()
    for sub in (cdef.body if cdef is not None else []):
        if isinstance(sub, ast.FunctionDef) and any(isinstance(n, ast.Raise) for n in ast.walk(sub)):
            out.add(sub.name)
    return out


def _is_validator_call(st, validators):
    return isinstance(st, ast.Expr) and isinstance(st.value, ast.Call) and isinstance(st.value.func, ast.Attribute) \
        and isinstance(st.value.func.value, ast.Name) and st.value.func.value.id == 'self' and st.value.func.attr in validators


def _only_locals(stmts):
    """statements that bind plain local names only (building an error message, …)"""
    for st in stmts:
        if isinstance(st, ast.Assign) and all(isinstance(t, ast.Name) for t in st.targets):
            continue
        if isinstance(st, ast.AugAssign) and isinstance(st.target, ast.Name):
            continue
        return False
    return True


def _src_of(e, arg, saved):
    """<e>.sampling_rate / self.input = <e>: which series"""
    if isinstance(e, ast.Name) and e.id == arg:
        return 'new'
    if _is_self_attr(e, 'input'):
        return 'held'
    if isinstance(e, ast.Name) and e.id in saved:
        return 'saved'
    return None


def _setinput_stmts(fn, base_prog, validators):
    arg = fn.args.args[1].arg if len(fn.args.args) > 1 else 'input'
    out, saved = [], set()
    for i, st in enumerate(fn.body):
        if i == 0 and isinstance(st, ast.Expr) and isinstance(st.value, ast.Constant) and isinstance(st.value.value, str):
            continue
        if isinstance(st, ast.Pass):
            continue
        # BaseAnalyzer.set_input(self, input) / super().set_input(input)
        if isinstance(st, ast.Expr) and isinstance(st.value, ast.Call) and isinstance(st.value.func, ast.Attribute) and st.value.func.attr == 'set_input':
            f, a = st.value.func, st.value.args
            direct = isinstance(f.value, ast.Name) and f.value.id == 'BaseAnalyzer' and len(a) == 2 and isinstance(a[1], ast.Name) and a[1].id == arg
            sup = isinstance(f.value, ast.Call) and isinstance(f.value.func, ast.Name) and f.value.func.id == 'super' and len(a) == 1 \
                and isinstance(a[0], ast.Name) and a[0].id == arg
            out += list(base_prog) if (direct or sup) and base_prog is not None else ['.unknown']
            continue
        if isinstance(st, ast.Expr) and isinstance(st.value, ast.Call) and _is_self_attr(st.value.func, 'reset') and not st.value.args:
            out.append('.reset')
            continue
        if _is_validator_call(st, validators):
            out.append('.check')
            continue
        if isinstance(st, ast.Raise):
            out.append('.check')
            continue
        if isinstance(st, ast.Assign) and len(st.targets) == 1:
            t = st.targets[0]
            if _is_self_attr(t, 'input'):
                src = _src_of(st.value, arg, saved)
                out.append('.setInput .%s' % src if src else '.unknown')
                continue
            if isinstance(t, ast.Name):
                if _is_self_attr(st.value, 'input'):
                    saved.add(t.id)
                    out.append('.save')
                # any other local binding: no effect on the analyzer
                continue
        if isinstance(st, ast.If):
            # if self._Fs_from_input: self.method['Fs'] = X.sampling_rate
            if _is_self_attr(st.test, '_Fs_from_input') and not st.orelse and len(st.body) == 1 and isinstance(st.body[0], ast.Assign) \
                    and len(st.body[0].targets) == 1 and isinstance(st.body[0].targets[0], ast.Subscript) \
                    and _is_self_method(st.body[0].targets[0].value) and isinstance(st.body[0].targets[0].slice, ast.Constant) \
                    and st.body[0].targets[0].slice.value == 'Fs' and isinstance(st.body[0].value, ast.Attribute) and st.body[0].value.attr == 'sampling_rate':
                src = _src_of(st.body[0].value.value, arg, saved)
                out.append('.writeFs .%s' % src if src else '.unknown')
                continue
            # if self._Fs_from_input: self.method = dict(self.method, Fs=X.sampling_rate)     (the slot is rewritten in a dict of the analyzer's own)
            if _is_self_attr(st.test, '_Fs_from_input') and not st.orelse and len(st.body) == 1 and isinstance(st.body[0], ast.Assign) \
                    and len(st.body[0].targets) == 1 and _is_self_method(st.body[0].targets[0]) and isinstance(st.body[0].value, ast.Call) \
                    and isinstance(st.body[0].value.func, ast.Name) and st.body[0].value.func.id == 'dict' and len(st.body[0].value.args) == 1 \
                    and _is_self_method(st.body[0].value.args[0]) and len(st.body[0].value.keywords) == 1 and st.body[0].value.keywords[0].arg == 'Fs' \
                    and isinstance(st.body[0].value.keywords[0].value, ast.Attribute) and st.body[0].value.keywords[0].value.attr == 'sampling_rate':
                src = _src_of(st.body[0].value.keywords[0].value.value, arg, saved)
                out.append('.writeFs .%s' % src if src else '.unknown')
                continue
            raises = any(isinstance(n, ast.Raise) for n in ast.walk(st))
            if raises and not st.orelse and isinstance(st.body[-1], ast.Raise) and _only_locals(st.body[:-1]):
                out.append('.check')
                continue
            out.append('.unknown')
            if raises:
                out.append('.check')
            continue
        out.append('.unknown')
    return out


def _ctor_stmts(stmts, validators, out):
    for st in stmts:
        if isinstance(st, ast.Raise):
            out.append('.check')
        elif _is_validator_call(st, validators):
            out.append('.check')
        elif isinstance(st, (ast.If, ast.For, ast.While, ast.With, ast.Try)):
            for part in ('body', 'orelse', 'handlers', 'finalbody'):
                sub = getattr(st, part, None) or []
                sub = [h for h in sub] if part != 'handlers' else [x for h in sub for x in h.body]
                _ctor_stmts(sub, validators, out)
        else:
            w = False
            for n in ast.walk(st):
                if isinstance(n, (ast.Assign, ast.AugAssign)):
                    for t in (n.targets if isinstance(n, ast.Assign) else [n.target]):
                        if isinstance(t, ast.Subscript) and _is_self_method(t.value):
                            w = True
                if isinstance(n, ast.Call) and isinstance(n.func, ast.Attribute) and _is_self_method(n.func.value) \
                        and n.func.attr in ('update', 'setdefault', 'pop', 'clear', 'popitem', '__setitem__'):
                    w = True
            if w:
                out.append('.writeMethod')
    return out


def gen_setinput():
    coh = T.parse('nitime/analysis/coherence.py')
    base_tree = T.parse('nitime/analysis/base.py')
    echo = {}
    base_fn = T.find_func(base_tree, 'set_input', 'BaseAnalyzer')
    base = _setinput_stmts(base_fn, None, set()) if base_fn is not None else ['.unknown']
    echo['BaseAnalyzer.set_input'] = base
    lines = ['-- GENERATED by harness/translate_c05.py (gen_setinput) from analysis/coherence.py and analysis/base.py. DO NOT EDIT.',
             'import Nitime.Model.CohSession', 'namespace Nitime.Generated.SetInput', 'open Nitime.CohSession', '',
             '/-- `BaseAnalyzer.set_input` -/', 'def base : List Stmt := [%s]' % ', '.join(base), '']
    names = []
    for lean, cls in SETINPUT_CLASSES:
        cdef = _class_def(coh, cls)
        fn = T.find_func(coh, 'set_input', cls)
        prog = list(base) if fn is None else _setinput_stmts(fn, base, _raising_methods(cdef))
        echo['%s.set_input' % cls] = {'own_definition': fn is not None, 'statements': prog}
        lines += ['/-- `%s.set_input`%s -/' % (cls, '' if fn is not None else ' (inherited from BaseAnalyzer)'),
                  'def %s : List Stmt := [%s]' % (lean, ', '.join(prog)), '']
        names.append(lean)
    for lean, cls in CTOR_CLASSES:
        cdef = _class_def(coh, cls)
        fn = T.find_func(coh, '__init__', cls)
        prog = _ctor_stmts(fn.body, _raising_methods(cdef), []) if fn is not None else []
        echo['%s.__init__' % cls] = prog
        lines += ['/-- `%s.__init__`: possible raises and writes into `self.method`, in source order -/' % cls,
                  'def %sCtor : List CStmt := [%s]' % (lean, ', '.join(prog)), '']
    lines += ['def programs : List (String × List Stmt) := [%s]' % ', '.join('("%s", %s)' % (n, n) for n in names), '',
              'end Nitime.Generated.SetInput', '']
    return 'SetInput.lean', '\n'.join(lines), echo


# ------------------------------------------------------------------ where a frequency getter takes its vector from (next to the spectral getter)
FREQ_PAIRS = [('CoherenceAnalyzer', 'nitime/analysis/coherence.py', 'frequencies', 'spectrum')]
DELEGATION = 'tsa.get_spectra(self.input.data, method=self.method)'


def _getter_src(fn, calls):
    """body = [docstring], `a, b = <call>`, `return a|b`  ->  ('component', call number, index); anything else -> None"""
    if fn is None:
        return None
    body = [st for st in fn.body if not (isinstance(st, ast.Expr) and isinstance(st.value, ast.Constant))]
    if len(body) != 2 or not isinstance(body[0], ast.Assign) or not isinstance(body[1], ast.Return):
        return None
    tgt = body[0].targets[0]
    if len(body[0].targets) != 1 or not isinstance(tgt, ast.Tuple) or not all(isinstance(e, ast.Name) for e in tgt.elts) \
            or not isinstance(body[0].value, ast.Call) or not isinstance(body[1].value, ast.Name):
        return None
    names = [e.id for e in tgt.elts]
    if body[1].value.id not in names or len(set(names)) != len(names):
        return None
    text = unparse(body[0].value)
    if text not in calls:
        calls.append(text)
    return ('component', calls.index(text), names.index(body[1].value.id))


def gen_freqsrc():
    echo, lines = {}, ['-- GENERATED by harness/translate_c05.py (gen_freqsrc): where the frequency getter and the spectral getter take their values from. DO NOT EDIT.',
                       'import Nitime.Model.C05Src', 'namespace Nitime.Generated.FreqSrc', 'open Nitime.C05', '']
    rows = []
    for cls, path, fattr, sattr in FREQ_PAIRS:
        tree = T.parse(path)
        calls = [DELEGATION]
        srcs = []
        for attr in (fattr, sattr):
            r = _getter_src(T.find_func(tree, attr, cls), calls)
            srcs.append('.other' if r is None else '(.component %d %d)' % (r[1], r[2]))
        echo[cls] = {fattr: srcs[0], sattr: srcs[1], 'calls': list(calls)}
        lines.append('/-- `%s.%s` / `%s.%s`; call texts: %s -/' % (cls, fattr, cls, sattr, '; '.join('%d = `%s`' % (i, c) for i, c in enumerate(calls))))
        lines.append('def %s : FreqPair := ⟨%s, %s, true⟩' % (cls, srcs[0], srcs[1]))
        lines.append('')
        rows.append(cls)
    lines.append('def pairs : List (String × FreqPair) := [%s]' % ', '.join('("%s", %s)' % (c, c) for c in rows))
    lines += ['', 'end Nitime.Generated.FreqSrc', '']
    return 'FreqSrc.lean', '\n'.join(lines), echo


GENERATORS = [gen, gen_methods, gen_lens, gen_setinput, gen_freqsrc]

if __name__ == '__main__':
    print(gen()[1])
    print(gen_methods()[1])
    print(gen_lens()[1])
    print(gen_setinput()[1])
    print(gen_freqsrc()[1])
