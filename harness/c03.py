"""C03 — indexing by time agrees with indexing by sample position.

Correspondence: index_at / slice_during / at / during / __getitem__ of UniformTime, TimeArray,
TimeSeries, Events and the Epochs constructor on the real classes vs the Lean model `Nitime.C03`
(exact integer picoseconds; the model follows the INTENDED behaviour, see notes/C03.md).
Oracle (independent of the Lean model): brute force over sample positions with python ints /
Fractions.
"""
from fractions import Fraction as Fr
import numpy as np
from common import Case, Failure, f2x, call

PID = 'C03'
LEAN_TARGETS = ['Nitime.Props.C03']
RULE = ('(container, query/epoch) pairs from one PRNG state: uniform axes (all 9 units, t0 of both signs, lengths 1..50, exact-picosecond '
        'parameters), sorted/unsorted time arrays with duplicates, 1-/2-/3-d integer series data, event collections; queries on / between / '
        'before / after samples given as time objects in another unit, python ints, floats, arrays; epochs inside, between samples, partly and '
        'wholly outside, scalar and 1-d, all constructor forms; operation HISTORIES on one object (lookups of every mode / in-place changes by every '
        'route: item assignment on the object, through a view, through its parent, the ndarray view, flat, put, += -= *= , ufuncs with out=, '
        'sort, reversed-view sort, copyto; uniform axes and series.time: += -= *= /= accepted and refused, and axes / series / arrays made by '
        'ordinary arithmetic axis+x, x+axis, axis-x, x-axis / lookups again, judged on the CURRENT samples and against a fresh container); '
        'distinct = distinct protocol line; non-trivial = container with >= 2 samples')
ASSUMPTIONS = ['uniform axes are built with parameters that are exact in picoseconds (checked on the real object; C02 owns the inexact ones)',
               'magnitudes stay below 2^61 ps (2^62 inside histories)',
               'in-place operands are time objects or python ints (bare floats are refused by numpy casting; bare numbers under ndarray += on a TimeArray are C01\'s)',
               'epoch selection on a time array that a history left unsorted: correspondence only (the property speaks of time-sorted containers)',
               'sampling interval/rate of the TimeSeries returned by `during` is not compared (C02: Frequency.to_period)']
TRUSTED_EXTRA = ['numpy semantics modelled, not verified: np.where, argmax/argmin (first extremum), floor_divide on int64, fancy/slice indexing on the last axis, '
                 'np.array refusing ragged blocks (ValueError)',
                 'bare-number queries are read through the C01 constructor model (rint(fmul x factor)); the oracle recomputes them with hardware binary64 + Fractions']

UNITS = ['ps', 'ns', 'us', 'ms', 's', 'm', 'h', 'D', 'W']
FACTOR = {'ps': 1, 'ns': 10**3, 'us': 10**6, 'ms': 10**9, 's': 10**12, 'm': 60 * 10**12,
          'h': 3600 * 10**12, 'D': 86400 * 10**12, 'W': 604800 * 10**12}
V2 = {'ps': 0, 'ns': 3, 'us': 6, 'ms': 9, 's': 12, 'm': 14, 'h': 16, 'D': 19, 'W': 19}
LIM = 2**61


def ts():
    import nitime.timeseries as t
    return t


# ------------------------------------------------------------------ representations of instants
def bare_ps(v, unit):
    """what `TimeArray(v, time_unit=unit)` denotes for one bare number, computed with hardware
    binary64 and Fractions (independent of the Lean model)"""
    f = FACTOR[unit or 's']
    if isinstance(v, int):
        return v * f
    return int(round(Fr(float(v) * float(f))))      # round(Fraction) is half-to-even


def rep_actual(r, unit):
    """(list of ps, 0-d?) denoted by a representation read in `unit`"""
    k = r['k']
    if k == 'time':
        return list(r['ps']), r['sc']
    if k in ('pyint', 'pyfloat'):
        return [bare_ps(r['v'], unit)], True
    if k == 'intlist':
        return [bare_ps(v, unit) for v in r['v']], False
    if k == 'floatarr':
        return [bare_ps(float(v), unit) for v in r['v']], False
    raise ValueError(k)


def rep_tok(r):
    if r is None:
        return '_'
    k = r['k']
    if k == 'time':
        return 'T:%s:%s:%s' % (r['unit'], '1' if r['sc'] else '0', ','.join(str(p) for p in r['ps']) if r['ps'] else '-')
    if k == 'pyint':
        return 'N:1:i%d' % r['v']
    if k == 'pyfloat':
        return 'N:1:' + f2x(r['v'])
    if k == 'intlist':
        return 'N:0:' + ','.join('i%d' % v for v in r['v'])
    if k == 'floatarr':
        return 'N:0:' + ','.join(f2x(v) for v in r['v'])


def mk_T(unit, scalar, ps):
    T = ts().TimeArray
    t = T(np.int64(ps[0]), time_unit='ps') if scalar else T(np.array(ps, dtype=np.int64), time_unit='ps')
    t.convert_unit(unit)
    return t


def rep_build(r):
    k = r['k']
    if k == 'time':
        return mk_T(r['unit'], r['sc'], r['ps'])
    if k == 'pyint':
        return int(r['v'])
    if k == 'pyfloat':
        return float(r['v'])
    if k == 'intlist':
        return [int(v) for v in r['v']]
    if k == 'floatarr':
        return np.array(r['v'], dtype=np.float64)


def gen_rep(rng, p, unit, kinds=('time', 'pyint', 'pyfloat')):
    """a scalar representation aiming at the instant p (ps), bare numbers being read in `unit`"""
    f = FACTOR[unit or 's']
    k = rng.choice(kinds)
    if k == 'pyint' and p % f == 0:
        return {'k': 'pyint', 'v': p // f}
    if k == 'pyfloat' or (k == 'pyint' and rng.random() < 0.5):
        return {'k': 'pyfloat', 'v': float(Fr(p, f))}
    return {'k': 'time', 'unit': rng.choice(UNITS), 'sc': True, 'ps': [p]}


def gen_rep_arr(rng, ps, unit):
    f = FACTOR[unit or 's']
    k = rng.choice(['time', 'intlist', 'floatarr'])
    if k == 'intlist' and all(p % f == 0 for p in ps):
        return {'k': 'intlist', 'v': [p // f for p in ps]}
    if k == 'floatarr':
        return {'k': 'floatarr', 'v': [float(Fr(p, f)) for p in ps]}
    return {'k': 'time', 'unit': rng.choice(UNITS), 'sc': False, 'ps': list(ps)}


# ------------------------------------------------------------------ containers
def gen_axis(rng, nmax, duration_only=False):
    u = rng.choice(UNITS)
    f = FACTOR[u]
    while True:
        k = rng.randint(0, min(V2[u], 12))
        g = f >> k
        cap = LIM // (g * 8 * (nmax + 1))
        if cap >= 1:
            break
    m = rng.randint(1, max(1, min(12, cap // 4)))
    dt = m * g
    n = rng.choice([1, 1, 2, 2, 3, 5]) if rng.random() < 0.25 else rng.randint(1, nmax)
    span = max(1, min(40, cap))
    c = rng.random()
    t0 = 0 if c < 0.2 else rng.randint(-span, span) * g
    if c > 0.8:
        t0 = -rng.randint(0, n) * dt + rng.choice([0, g])     # straddles zero
    ax = {'unit': u, 't0': t0, 'dt': dt, 'n': n, 'ctor': 'length', 'g': g}
    if not duration_only and rng.random() < 0.13:
        # a reversed axis (negative sampling interval), born as HEAD allows: a negative `sampling_interval`,
        # `axis *= -1`, or `+=` with a descending ramp
        ax.update(dt=-dt, t0=t0 + rng.choice([0, 0, (n - 1) * dt]), how=rng.choice(['negative-interval', 'imul', 'ramp']))
    if duration_only:
        # duration is not a multiple of the interval: n = ceil(D/dt) samples
        if dt < 2:
            dt = ax['dt'] = 2 * dt if dt * 2 * (nmax + 1) * 8 < LIM else dt
        if dt < 2:
            return ax
        r = rng.choice([1, dt // 2, dt - 1, max(1, (dt // g // 2) * g)])
        r = min(max(1, r), dt - 1)
        ax.update(ctor='duration', D=(n - 1) * dt + r)
    return ax


def num_arg(p, f):
    """an instant/extent p (ps) as a bare number in the unit with factor f"""
    return p // f if p % f == 0 else float(Fr(p, f))


def build_axis(ax):
    """the real UniformTime, or None when its parameters turn out not to be exact in ps"""
    U = ts().UniformTime
    f = FACTOR[ax['unit']]
    how = ax.get('how', 'negative-interval')
    if ax['ctor'] == 'length' and ax['dt'] < 0 and how == 'imul':
        a = U(length=ax['n'], sampling_interval=num_arg(-ax['dt'], f), t0=num_arg(-ax['t0'], f), time_unit=ax['unit'])
        a *= -1
    elif ax['ctor'] == 'length' and ax['dt'] < 0 and how == 'ramp' and ax['n'] >= 2:
        a = U(length=ax['n'], sampling_interval=num_arg(-ax['dt'], f), t0=num_arg(ax['t0'], f), time_unit=ax['unit'])
        a += ts().TimeArray(np.array([2 * i * ax['dt'] for i in range(ax['n'])], dtype=np.int64), time_unit='ps')
    elif ax['ctor'] == 'length':
        a = U(length=ax['n'], sampling_interval=num_arg(ax['dt'], f), t0=num_arg(ax['t0'], f), time_unit=ax['unit'])
    else:
        a = U(duration=num_arg(ax['D'], f), sampling_interval=num_arg(ax['dt'], f), t0=num_arg(ax['t0'], f), time_unit=ax['unit'])
    want = [ax['t0'] + i * ax['dt'] for i in range(ax['n'])]
    if [int(v) for v in np.asarray(a)] != want or int(a.sampling_interval) != ax['dt'] or int(a.t0) != ax['t0']:
        return None
    if ax['ctor'] == 'length' and int(a.duration) != ax['n'] * ax['dt']:
        return None
    return a


def axis_tok(ax, a):
    return 'U:%s:%d:%d:%d:%d' % (ax['unit'], ax['t0'], ax['dt'], ax['n'], int(a.duration))


def gen_tarray(rng, nmax, sorted_=True):
    u = rng.choice(UNITS)
    # grids up to beyond 2^53 ps (odd multiples: not representable in binary64), so that a regression to
    # float arithmetic on instants shows up
    g = rng.choice([1, 1, 7, 10**3, 10**9, 5 * 10**11, 10**12, 2**53 + 1, 10**16 + 1])
    n = rng.choice([1, 2, 2, 3, 3, 4]) if rng.random() < 0.35 else rng.randint(1, nmax)
    spread = max(2, int(n * rng.choice([0.3, 0.6, 1.0, 3.0])))
    base = rng.randint(-spread, spread)
    ps = [(base + rng.randint(0, spread)) * g for _ in range(n)]
    if sorted_:
        ps.sort()
    return {'unit': u, 'ps': ps, 'g': g}


def tarr_tok(t):
    return 'T:%s:0:%s' % (t['unit'], ','.join(str(p) for p in t['ps']) if t['ps'] else '-')


def gen_data(rng, n):
    lead = rng.choice([(), (), (2,), (3,), (1,), (2, 2), (3, 2)])
    size = int(np.prod(lead + (n,)))
    vals = [rng.randint(-1000, 1000) for _ in range(size)]
    return {'shape': list(lead + (n,)), 'vals': vals}


def data_tok(d):
    n = d['shape'][-1]
    rows = int(np.prod(d['shape'][:-1])) if len(d['shape']) > 1 else 1
    return 'D:%d:%d:%s' % (rows, n, ','.join(str(v) for v in d['vals']) if d['vals'] else '-')


def data_rows(d):
    n = d['shape'][-1]
    rows = int(np.prod(d['shape'][:-1])) if len(d['shape']) > 1 else 1
    return [d['vals'][r * n:(r + 1) * n] for r in range(rows)]


def build_series(ax, d):
    f = FACTOR[ax['unit']]
    s = ts().TimeSeries(np.array(d['vals'], dtype=np.int64).reshape(d['shape']), t0=num_arg(ax['t0'], f),
                        sampling_interval=num_arg(ax['dt'], f), time_unit=ax['unit'])
    want = [ax['t0'] + i * ax['dt'] for i in range(ax['n'])]
    if [int(v) for v in np.asarray(s.time)] != want or int(s.time.duration) != ax['n'] * ax['dt']:
        return None
    return s


# ------------------------------------------------------------------ epochs
def gen_epoch_args(rng, start, stop, offset, unit, scalar=True):
    """constructor arguments denoting the epoch(s) [start, stop) with the given offset.
    start/stop are ints (scalar epoch) or equally long lists"""
    form = rng.choice(['start-stop', 'start-duration', 't0-offset-duration', 't0-offset-stop', 't0-duration'])
    if form == 't0-duration':
        offset = 0
    e = {'unit': unit, 't0': None, 'stop': None, 'offset': None, 'start': None, 'duration': None}

    def r(p):
        if isinstance(p, list):
            return gen_rep_arr(rng, p, unit)
        return gen_rep(rng, p, unit)
    if form.startswith('start'):
        e['start'] = r(start)
        if offset and rng.random() < 0.5:
            e['offset'] = gen_rep(rng, offset, unit)
        elif offset:
            offset = 0
    else:
        e['t0'] = r([s + offset for s in start] if isinstance(start, list) else start + offset)
        if form != 't0-duration':
            e['offset'] = gen_rep(rng, offset, unit)
    if form.endswith('stop'):
        e['stop'] = r(stop)
    else:
        if isinstance(start, list):
            durs = [b - a for a, b in zip(start, stop)]
            e['duration'] = gen_rep(rng, durs[0], unit) if len(set(durs)) == 1 and rng.random() < 0.6 else r(durs)
        else:
            e['duration'] = r(stop - start)
    return e


def epoch_actual(e):
    """independent evaluation of the constructor arguments: ('ok', starts, stops, scalar, offset, unit) or ('err', kind)"""
    u = e['unit']

    def val(name):
        r = e[name]
        return None if r is None else rep_actual(r, u)

    def unit_of(name):
        r = e[name]
        return u or (r['unit'] if r['k'] == 'time' else 's')
    t0, stop, off, start, dur = (val(k) for k in ('t0', 'stop', 'offset', 'start', 'duration'))
    if t0 is None and start is None:
        return ('err', 'ValueError')
    if (stop is None) == (dur is None):
        return ('err', 'ValueError')
    if off is None:
        off = ([0], True)
    if not off[1]:
        return ('err', 'ValueError')

    def bcast(a, b, fn):
        (x, sx), (y, sy) = a, b
        if len(x) == len(y):
            return [fn(p, q) for p, q in zip(x, y)], sx and sy
        if len(x) == 1:
            return [fn(x[0], q) for q in y], False
        if len(y) == 1:
            return [fn(p, y[0]) for p in x], False
        return None
    if start is None:
        st = bcast(t0, off, lambda a, b: a - b)
        eu = unit_of('t0')
    else:
        st = start
        eu = unit_of('start')
    if stop is None:
        sp = bcast(st, dur, lambda a, b: a + b)
        if sp is None:
            return ('err', 'ValueError')
    else:
        sp = stop
    if st[1] != sp[1] or len(st[0]) != len(sp[0]):
        return ('err', 'ValueError')
    return ('ok', st[0], sp[0], st[1], off[0][0], eu)


def epoch_toks(e):
    return ' '.join([e['unit'] or 'none'] + ['_' if e[k] is None else rep_tok(e[k]) for k in ('t0', 'stop', 'offset', 'start', 'duration')])


def build_epoch(e):
    kw = {k: rep_build(e[k]) for k in ('t0', 'stop', 'offset', 'start', 'duration') if e[k] is not None}
    return ts().Epochs(time_unit=e['unit'], **kw)


def gen_span(rng, lo, hi, g, times):
    """an interval [a, b) placed relative to the container's range [lo, hi] (granule g)"""
    w = max(hi - lo, g)
    c = rng.random()

    def pt(inside=False):
        k = rng.random()
        if times and k < 0.45:
            p = rng.choice(times) + rng.choice([0, 0, 0, 1, -1, g // 2, -(g // 2)])
        elif inside:
            p = rng.randint(lo, max(lo, hi - 1))
        else:
            p = lo + rng.randint(-w // 4 - g, w + w // 4 + g)
        return min(max(p, lo), max(lo, hi - 1)) if inside else p
    if c < 0.55:
        a, b = sorted([pt(True), pt(True)])
    elif c < 0.65:      # between two samples / empty
        a = pt()
        b = a + rng.choice([0, 1, max(1, g // 3)])
    elif c < 0.75:      # starts before the container
        a, b = lo - rng.randint(1, w // 2 + g), pt()
    elif c < 0.85:      # reaches or passes the end
        a, b = pt(), hi + rng.choice([0, 1, g, rng.randint(0, w // 2 + g)])
    elif c < 0.9:       # wholly outside
        a = hi + rng.randint(1, w + g) if rng.random() < 0.5 else lo - 2 * w - 2 * g
        b = a + rng.randint(1, w + g)
    elif c < 0.95:      # everything
        a, b = lo - rng.randint(0, g), hi + rng.randint(1, g + 1)
    else:               # reversed
        b, a = sorted([pt(), pt()])
    return a, b


# ------------------------------------------------------------------ canonicalisation
def ilist(v):
    v = [int(x) for x in v]
    return ','.join(str(x) for x in v) if v else '-'


def canon_T(t):
    a = np.asarray(t)
    if not isinstance(t, ts().TimeInterface):
        return 'not-a-time-object:%s' % type(t).__name__
    if a.ndim > 1:
        return 'ndim%d' % a.ndim
    if a.dtype != np.int64:
        return 'dtype:%s' % a.dtype
    return 'ok T:%s:%s:%s' % (t.time_unit, '1' if a.ndim == 0 else '0', ilist(a.reshape(-1)))


def canon_idx(r):
    if isinstance(r, ts().TimeInterface):
        return 'time-object-returned'
    a = np.asarray(r)
    if a.dtype.kind not in 'iu':
        return 'dtype:%s' % a.dtype
    return ('ok i:%d' % int(a)) if a.ndim == 0 else 'ok a:' + ilist(a)


def canon_slice(sl, n):
    if not isinstance(sl, slice):
        return 'not-a-slice:%s' % type(sl).__name__
    return 'ok P:' + ilist(range(*sl.indices(n)))


def canon_data(r, ne, k):
    a = np.asarray(r)
    if a.dtype.kind not in 'iu':
        return 'dtype:%s' % a.dtype
    return 'D:%s:%s:%s' % (ne, k, ilist(a.reshape(-1)))


def canon_events(ev):
    keys = sorted(ev.data)
    return 'ok EV:%s:%s' % (ev.time_unit, ilist(np.asarray(ev.time))) + ''.join('|' + ilist(ev.data[k]) for k in keys)


# ------------------------------------------------------------------ brute-force expectations (oracle side)
def in_bin(ax, i, t):
    """the bin convention, stated explicitly: on a forward axis sample i owns [t_i, t_i + dt); on a reversed axis
    (dt < 0) it owns (t_i + dt, t_i] — the instants at or before the sample and after the next (earlier) one"""
    ti = ax['t0'] + i * ax['dt']
    return ti <= t < ti + ax['dt'] if ax['dt'] > 0 else ti + ax['dt'] < t <= ti


def exp_uniform_index(ax, q, sc, end=None):
    end = ax['t0'] + ax['n'] * ax['dt'] if end is None else end
    out = []
    for t in q:
        if not ((ax['t0'] <= t < end) if ax['dt'] > 0 else (end < t <= ax['t0'])):
            return 'err ValueError', None
        hit = [i for i in range(ax['n']) if in_bin(ax, i, t)]
        out.append(hit[0])
    return (('ok i:%d' % out[0]) if sc else 'ok a:' + ilist(out)), out


def positions(times, a, b):
    return [i for i, t in enumerate(times) if a <= t < b]


def exp_tarray_index(tsl, mode, q, tol):
    n = len(tsl)
    if len(q) == 1:
        q = q * n
    elif len(q) != n:
        return 'err ValueError', None
    if mode == 'closest':
        hit = [i for i in range(n) if abs(tsl[i] - q[i]) <= tol]
        return 'ok a:' + ilist(hit), hit
    if mode == 'before':
        cand = [i for i in range(n) if tsl[i] <= q[i]]
        best = max([tsl[i] for i in cand], default=None)
    else:
        cand = [i for i in range(n) if q[i] <= tsl[i]]
        best = min([tsl[i] for i in cand], default=None)
    if not cand:
        return 'ok a:-', []
    ok = [i for i in cand if tsl[i] == best]
    return 'ok i:%d' % ok[0], ok


# ------------------------------------------------------------------ one case from its description
def snap(o):
    """a bit-for-bit description of an argument / container object (hashable, comparable)"""
    t = ts()
    if o is None or isinstance(o, (bool, int, float, str)):
        return (type(o).__name__, repr(o))
    if isinstance(o, (list, tuple)):
        return (type(o).__name__,) + tuple(snap(x) for x in o)
    if isinstance(o, t.Epochs):
        d = o.__dict__
        # one-time properties (`duration`) may be computed and cached by a lookup: that is not a change of the
        # argument; a value cached BEFORE the lookup must still be the same afterwards (see `differs`)
        return ('Epochs', o.data.dtype.str, o.data.shape, np.asarray(o.data).tobytes(), o.time_unit, snap(o.offset),
                tuple(sorted(k for k in d if k != 'duration')), ('cache', snap(d['duration']) if 'duration' in d else None))
    if isinstance(o, t.TimeSeries):
        d = o.__dict__
        return ('TimeSeries', snap(np.asarray(o.data)), o.time_unit, snap(o.t0), snap(o.sampling_interval), snap(o.duration),
                repr(float(o.sampling_rate)), ('cache', snap(d['time']) if 'time' in d else None))
    if isinstance(o, t.Events):
        return ('Events', snap(o.time), o.time_unit, tuple((k, snap(o.data[k])) for k in sorted(o.data)))
    if isinstance(o, np.ndarray):
        extra = ()
        if isinstance(o, t.TimeInterface):
            extra = (getattr(o, 'time_unit', None), getattr(o, '_conversion_factor', None))
        if isinstance(o, t.UniformTime):
            extra += tuple(snap(np.asarray(getattr(o, a))) if hasattr(o, a) and a != 'sampling_rate' else repr(float(getattr(o, a, 0.0)))
                           for a in ('t0', 'sampling_interval', 'duration', 'sampling_rate'))
        return (type(o).__name__, o.dtype.str, o.shape, np.asarray(o).tobytes()) + extra
    return (type(o).__name__, repr(o))


def differs(before, after):
    """snapshots differ; a `('cache', None)` entry (one-time property not yet computed) may become computed"""
    if isinstance(before, tuple) and isinstance(after, tuple):
        if len(before) == 2 and before[0] == 'cache' and len(after) == 2 and after[0] == 'cache':
            return before[1] is not None and differs(before[1], after[1])
        if len(before) != len(after):
            return True
        return any(differs(b, a) for b, a in zip(before, after))
    return before != after


class Args:
    """argument / container objects of one lookup: built once (shared across the steps of a sequence when
    the description says so), snapshotted before the lookup, compared after it"""

    def __init__(self, m, pool):
        self.share, self.pool, self.seen = m.get('share') or {}, pool, {}

    def get(self, name, build):
        key = self.share.get(name)
        if key is None:
            o = build()
        else:
            if key not in self.pool:
                self.pool[key] = build()
            o = self.pool[key]
        if name not in self.seen:
            self.seen[name] = (o, snap(o))
        return o

    def changed(self):
        return sorted(name for name, (o, before) in self.seen.items() if differs(before, snap(o)))


def run_case(m, pool=None):
    """build the real objects from the JSON-able description `m`, run the operation, return the Case
    (None when the container cannot be built exactly — not C03's business).  Every argument object and the
    container are snapshotted around the lookup; `m['mutated']` names those that changed."""
    if m['op'] == 'seq':
        return run_seq(m)
    if m['op'] == 'hist':
        return run_hist(m)
    if m['op'] == 'share':
        return run_share(m)
    A = Args(m, {} if pool is None else pool)
    c = _run_case(m, A)
    if c is not None:
        m['mutated'] = A.changed()
    return c


def run_seq(m):
    """a sequence of lookups sharing argument objects / containers as the steps' `share` maps say"""
    pool, subs = {}, []
    for sm in m['steps']:
        c = run_case(sm, pool)
        if c is None:
            return None
        sm['_impl'], sm['_line'], sm['_clause'] = c.impl, c.line, c.clause
        subs.append(c)
    return Case('C03 seq ' + ' ; '.join(c.line[4:] for c in subs), ' ; '.join(c.impl for c in subs),
                'seq/' + m['seqkind'], meta=m, nontrivial=all(c.nontrivial for c in subs))


def epoch_canon(e, with_duration=False):
    s = 'ok E:%s:%s:%s:%s:%d' % (e.time_unit, '1' if e.data.ndim == 0 else '0', ilist(np.asarray(e.start).reshape(-1)),
                                 ilist(np.asarray(e.stop).reshape(-1)), int(e.offset))
    return s + ':' + ilist(np.asarray(e.duration).reshape(-1)) if with_duration else s


# L3 — optional arguments given explicitly, with falsy / equivalent values: the answer must be the one for the
# default (`boolean=False/0/None/0.0` is the integer-index form, `boolean=1/'yes'` the mask form; TimeSeries.at
# takes a `tol` that a uniform axis has no use for; `tol=None` is the default tolerance).  The variant is picked
# deterministically from the protocol line and kept in the meta, so a replay makes the same call.
L3_BOOL_FALSY = ['omit', 'omit', False, 0, None, 0.0]
L3_BOOL_TRUTHY = [True, True, 1, 1.0, 'yes']
L3_SERIES_TOL = ['omit', 'omit', None, 0, 0.0, 1.5, -1, 'T0', 'T1']


def l3_pick(m, field, choices, salt):
    import zlib
    if field not in m:
        m[field] = choices[zlib.crc32(salt.encode()) % len(choices)]
    return m[field]


def l3_tol_value(v):
    if v in ('T0', 'T1'):
        return ts().TimeArray(np.int64(0 if v == 'T0' else 1), time_unit='ps')
    return v


def _run_case(m, A):
    t = ts()
    op, kind = m['op'], m['kind']
    if op == 'epochs_getitem':
        def f():
            e = A.get('e', lambda: build_epoch(m['e']))
            if m.get('read_duration', True):
                e.duration                      # the one-time property is computed (and cached) before the selection
            key = {'rev': slice(None, None, -1), 'list': list(m['pos']), 'array': np.array(m['pos'], dtype=np.int64)}[m['keykind']]
            return epoch_canon(e[key], with_duration=True)
        return Case('C03 epochs_getitem %s %s' % (epoch_toks(m['e']), ilist(m['pos'])), call(f), 'epochs/getitem', meta=m)
    if op == 'epochs':
        return Case('C03 epochs ' + epoch_toks(m['e']), call(lambda: epoch_canon(A.get('e', lambda: build_epoch(m['e'])))), 'epochs/ctor', meta=m)
    if op == 'derive':
        ax, ch = m['axis'], m['d']
        base = A.get('obj', lambda: build_axis(ax))
        if base is None:
            return None

        def f():
            v = derive_axis(base, ch, ax['unit'])
            m['samples'] = [int(x) for x in np.asarray(v).reshape(-1)] if isinstance(v, np.ndarray) and np.asarray(v).dtype.kind in 'iu' else None
            if isinstance(v, t.UniformTime):
                return 'ok U:%s:%d:%d:%d:%d' % (v.time_unit, int(v.t0), int(v.sampling_interval), len(v), int(v.duration))
            if isinstance(v, t.TimeArray):
                return canon_T(v)
            return 'not-a-time-object:%s' % type(v).__name__
        return Case('C03 derive uaxis %s %s' % (axis_tok(ax, base), uchange_tok(ch).split(' ', 2)[2]), call(f),
                    'uniform/derive/%s%s' % ('neg' if ch['route'].endswith('-neg') else ch['c'][1:], '-r' if ch['route'].endswith('-r') else ''),
                    meta=m, nontrivial=ax['n'] >= 2)
    # ---- container
    if kind in ('uaxis', 'series'):
        ax = m['axis']
        obj = A.get('obj', lambda: build_axis(ax) if kind == 'uaxis' else build_series(ax, m['data']))
        if obj is None:
            return None
        axobj = obj if kind == 'uaxis' else obj.time
        otok = axis_tok(ax, axobj) + ('' if kind == 'uaxis' else ' ' + data_tok(m['data']))
        m['dur'] = int(axobj.duration)
        n = ax['n']
        nt = n >= 2
        dsuffix = '/duration-only' if ax['ctor'] == 'duration' else ('/reversed' if ax['dt'] < 0 else '')
    elif kind == 'tarray':
        obj = A.get('obj', lambda: mk_T(m['t']['unit'], False, m['t']['ps']))
        otok = tarr_tok(m['t'])
        n = len(m['t']['ps'])
        nt, dsuffix = n >= 2, ''
    else:
        obj = A.get('obj', lambda: t.Events(mk_T(m['t']['unit'], False, m['t']['ps']), **{'k%d' % i: np.array(v, dtype=np.int64) for i, v in enumerate(m['vals'])}))
        otok = tarr_tok(m['t']) + ' D:%d:%d:%s' % (len(m['vals']), len(m['t']['ps']), ilist([x for v in m['vals'] for x in v]))
        n = len(m['t']['ps'])
        nt, dsuffix = n >= 2, ''

    def series_out(r, ne):
        if not isinstance(r, t.TimeSeries):
            return 'not-a-series:%s' % type(r).__name__
        m['impl_shape'] = list(r.data.shape)
        return 'ok TS:%s:%d:%s' % (r.time_unit, int(r.t0), canon_data(r.data, ne, r.data.shape[-1]))

    def ne_of(e):
        return 's' if e.data.ndim == 0 else str(len(e))
    if op == 'index_at_bool':
        def f():
            r = obj.index_at(A.get('q', lambda: rep_build(m['q'])), boolean=l3_pick(m, 'bool_kw', L3_BOOL_TRUTHY, otok + rep_tok(m['q'])))
            if np.asarray(r).dtype != bool:
                return 'dtype:%s' % np.asarray(r).dtype
            return 'ok B:' + (','.join('1' if v else '0' for v in r) if len(r) else '-')
        return Case('C03 index_at_bool uaxis %s %s' % (otok, rep_tok(m['q'])), call(f), 'uniform/index_at/boolean', meta=m, nontrivial=nt)
    if op in ('index_at', 'index_at_cur'):
        q = m['q']
        if kind == 'uaxis':
            bkw = l3_pick(m, 'bool_kw', L3_BOOL_FALSY, otok + rep_tok(q))
            bkw = {} if isinstance(bkw, str) and bkw == 'omit' else {'boolean': bkw}
            impl = call(lambda: canon_idx(obj.index_at(A.get('q', lambda: rep_build(m['q'])), **bkw)))
            return Case('C03 %s uaxis %s %s' % (op, otok, rep_tok(q)), impl,
                        'uniform/index_at' + dsuffix + ('/current-model' if op.endswith('cur') else ''),
                        cmp=cmp_cur(m) if op.endswith('cur') else None, meta=m, nontrivial=nt)
        kw = {} if m['tol'] is None else {'tol': A.get('tol', lambda: rep_build(m['tol']))}
        if m['tol'] is None and l3_pick(m, 'tol_none_explicit', [False, False, True], otok + rep_tok(q) + m['mode']):
            kw = {'tol': None}
        impl = call(lambda: canon_idx(obj.index_at(A.get('q', lambda: rep_build(m['q'])), mode=m['mode'], **kw)))
        return Case('C03 index_at tarray %s %s %s %s' % (otok, m['mode'], rep_tok(q), '_' if m['tol'] is None else rep_tok(m['tol'])),
                    impl, 'tarray/index_at/' + m['mode'], meta=m, nontrivial=nt)
    if op in ('slice_during', 'slice_during_cur'):
        impl = call(lambda: canon_slice(obj.slice_during(A.get('e', lambda: build_epoch(m['e']))), n))
        cl = ('uniform' if kind == 'uaxis' else 'tarray') + '/slice_during' + dsuffix
        return Case('C03 %s %s %s %s' % (op, kind, otok, epoch_toks(m['e'])), impl, cl + ('/current-model' if op.endswith('cur') else ''),
                    cmp=cmp_cur(m) if op.endswith('cur') else None, meta=m, nontrivial=nt)
    if op == 'at':
        q = m['q']
        if kind == 'uaxis':
            impl = call(lambda: canon_T(obj.at(A.get('q', lambda: rep_build(m['q'])))))
            return Case('C03 at uaxis %s %s' % (otok, rep_tok(q)), impl, 'uniform/at', meta=m, nontrivial=nt)
        if kind == 'tarray':
            kw = {} if m['tol'] is None else {'tol': A.get('tol', lambda: rep_build(m['tol']))}
            impl = call(lambda: canon_T(obj.at(A.get('q', lambda: rep_build(m['q'])), **kw)))
            return Case('C03 at tarray %s %s %s' % (otok, rep_tok(q), '_' if m['tol'] is None else rep_tok(m['tol'])), impl, 'tarray/at', meta=m, nontrivial=nt)
        sc = rep_actual(q, ax['unit'])[1]

        stol = l3_pick(m, 'series_tol', L3_SERIES_TOL, otok + rep_tok(q))
        skw = {} if isinstance(stol, str) and stol == 'omit' else {'tol': l3_tol_value(stol)}

        def f():
            r = np.asarray(obj.at(A.get('q', lambda: rep_build(m['q'])), **skw))
            m['impl_shape'] = list(r.shape)
            return 'ok ' + canon_data(r, 's', 's' if sc else r.shape[-1])
        return Case('C03 at series %s %s' % (otok, rep_tok(q)), call(f), 'series/at', meta=m, nontrivial=nt)
    if op == 'during':
        if kind == 'series':
            def f():
                e = A.get('e', lambda: build_epoch(m['e']))
                return series_out(obj.during(e), ne_of(e))
            arr = epoch_actual(m['e'])
            cl = 'series/during' + ('/array-epochs' if arr[0] == 'ok' and not arr[3] else '')
            return Case('C03 during series %s %s' % (otok, epoch_toks(m['e'])), call(f), cl, meta=m, nontrivial=nt)
        impl = call(lambda: canon_T(obj.during(A.get('e', lambda: build_epoch(m['e'])))))
        return Case('C03 during %s %s %s' % (kind, otok, epoch_toks(m['e'])), impl, ('uniform' if kind == 'uaxis' else 'tarray') + '/during', meta=m, nontrivial=nt)
    if op == 'getitem':
        kk = m['key']
        cname = {'uaxis': 'uniform', 'tarray': 'tarray', 'series': 'series', 'events': 'events'}[kind]
        if kk == 'int':
            key, ktok, sub = int(m['k']), 'int %d' % m['k'], 'int'
        elif kk == 'q':
            key, ktok = A.get('q', lambda: rep_build(m['q'])), 'q ' + rep_tok(m['q'])
            sub = 'float' if m['q']['k'] == 'pyfloat' else 'time'
        else:
            key, ktok, sub = None, 'ep ' + epoch_toks(m['e']), 'epoch'

        def f():
            k = A.get('e', lambda: build_epoch(m['e'])) if kk == 'ep' else key
            r = obj[k]
            if kind == 'events':
                return canon_events(r)
            if kind in ('uaxis', 'tarray'):
                return canon_T(r)
            if kk == 'ep':
                return series_out(r, ne_of(k))
            a = np.asarray(r)
            m['impl_shape'] = list(a.shape)
            if kk == 'int':
                return 'ok ' + canon_data(a, 's', 's')
            sc = rep_actual(m['q'], ax['unit'])[1]
            return 'ok ' + canon_data(a, 's', 's' if sc else a.shape[-1])
        return Case('C03 getitem %s %s %s' % (kind, otok, ktok), call(f), '%s/getitem/%s' % (cname, sub), meta=m, nontrivial=nt)
    raise ValueError(op)


def cmp_cur(m):
    """tie of the `current` model variants: today's code must equal the current-variant model; a tree in
    which the defect has been repaired (implementation == brute-force expectation) is accepted too"""
    def cmp(impl, model):
        if impl == model:
            return True
        e = expectation(m)
        return e is not None and impl == e[0]
    return cmp


# ------------------------------------------------------------------ property-level judgement
def expectation(m):
    """(expected canonical string, extra) for the operation described by m, by brute force"""
    op, kind = m['op'].replace('_cur', ''), m['kind']
    if op == 'epochs_getitem':
        r = epoch_actual(m['e'])
        if r[0] == 'err':
            return 'err ' + r[1], None
        st, sp = [r[1][i] for i in m['pos']], [r[2][i] for i in m['pos']]
        return 'ok E:%s:0:%s:%s:%d:%s' % (r[5], ilist(st), ilist(sp), r[4], ilist([b - a for a, b in zip(st, sp)])), None
    if op == 'epochs':
        r = epoch_actual(m['e'])
        if r[0] == 'err':
            return 'err ' + r[1], None
        return 'ok E:%s:%s:%s:%s:%d' % (r[5], '1' if r[3] else '0', ilist(r[1]), ilist(r[2]), r[4]), None
    if kind in ('uaxis', 'series'):
        ax = m['axis']
        times = [ax['t0'] + i * ax['dt'] for i in range(ax['n'])]
        unit = ax['unit']
        rows = data_rows(m['data']) if kind == 'series' else None
    else:
        times = list(m['t']['ps'])
        unit = m['t']['unit']
        rows = m.get('vals')
    n = len(times)

    def T(ps, sc=False):
        return 'ok T:%s:%s:%s' % (unit, '1' if sc else '0', ilist(ps))

    def epoch_scalar():
        r = epoch_actual(m['e'])
        if r[0] == 'err':
            return 'err ' + r[1]
        if not r[3]:
            return 'err NotImplementedError'
        return r

    def int_key():
        k = m['k']
        return None if not (-n <= k < n) else k % n
    if op == 'index_at_bool':
        q, sc = rep_actual(m['q'], unit)
        st, idx = exp_uniform_index(ax, q, sc)
        if idx is None:
            return st, None
        return 'ok B:' + ','.join('1' if any(in_bin(ax, i, t) for t in q) else '0' for i in range(n)), None
    if op == 'index_at':
        if kind == 'uaxis':
            q, sc = rep_actual(m['q'], unit)
            return exp_uniform_index(ax, q, sc)
        q, _ = rep_actual(m['q'], unit)
        tol = 1 if m['tol'] is None else rep_actual(m['tol'], unit)[0][0]
        return exp_tarray_index(times, m['mode'], q, tol)
    if op == 'slice_during':
        r = epoch_scalar()
        if isinstance(r, str):
            return r, None
        return 'ok P:' + ilist(positions(times, r[1][0], r[2][0])), None
    if op == 'at' or (op == 'getitem' and m['key'] == 'q'):
        q, sc = rep_actual(m['q'], unit)
        if kind == 'uaxis':
            s, idx = exp_uniform_index(ax, q, sc)
            return (s if idx is None else T([times[i] for i in idx], sc)), None
        if kind == 'series':
            s, idx = exp_uniform_index(ax, q, sc)
            if idx is None:
                return s, None
            flat = [row[i] for row in rows for i in idx]
            return 'ok D:s:%s:%s' % ('s' if sc else len(idx), ilist(flat)), {'shape': m['data']['shape'][:-1] + ([] if sc else [len(idx)])}
        tol = 1 if m.get('tol') is None else rep_actual(m['tol'], unit)[0][0]
        s, idx = exp_tarray_index(times, 'closest', q, tol)
        if idx is None:
            return s, None
        if kind == 'events':
            return 'ok EV:%s:%s' % (unit, ilist([times[i] for i in idx])) + ''.join('|' + ilist([v[i] for i in idx]) for v in rows), None
        return T([times[i] for i in idx]), None
    if op == 'during' or (op == 'getitem' and m['key'] == 'ep'):
        if kind == 'series':
            r = epoch_actual(m['e'])
            if r[0] == 'err':
                return 'err ' + r[1], None
            _, starts, stops, sc, off, _ = r
            if not sc and len({b - a for a, b in zip(starts, stops)}) != 1:
                return 'err ValueError', None
            blocks = [positions(times, a, b) for a, b in zip(starts, stops)]
            if len({len(b) for b in blocks}) != 1:
                return 'err ValueError', None          # ragged blocks cannot form an array
            flat = [row[i] for b in blocks for row in rows for i in b]
            k = len(blocks[0])
            return ('ok TS:%s:%d:D:%s:%d:%s' % (unit, off, 's' if sc else len(blocks), k, ilist(flat)),
                    {'shape': ([] if sc else [len(blocks)]) + m['data']['shape'][:-1] + [k]})
        r = epoch_scalar()
        if isinstance(r, str):
            return r, None
        pos = positions(times, r[1][0], r[2][0])
        if kind == 'events':
            return 'ok EV:%s:%s' % (unit, ilist([times[i] for i in pos])) + ''.join('|' + ilist([v[i] for i in pos]) for v in rows), None
        return T([times[i] for i in pos]), None
    if op == 'getitem':     # integer key
        i = int_key()
        if i is None:
            return 'err IndexError', None
        if kind == 'series':
            return 'ok D:s:s:' + ilist([row[i] for row in rows]), {'shape': m['data']['shape'][:-1]}
        if kind == 'events':
            return 'ok EV:%s:%d' % (unit, times[i]) + ''.join('|%d' % v[i] for v in rows), None
        return T([times[i]], True), None
    return None


def sel_times(canon, times):
    """the selected instants named by a canonical result string (positions, time object or events)"""
    try:
        if canon.startswith('ok P:'):
            return [times[int(p)] for p in canon[5:].split(',')] if canon[5:] != '-' else []
        if canon.startswith('ok T:'):
            ps = canon.split(':')[3]
        elif canon.startswith('ok EV:'):
            ps = canon.split(':', 2)[2].split('|')[0]
        else:
            return None
        return [] if ps == '-' else [int(p) for p in ps.split(',')]
    except (ValueError, IndexError):
        return None


def clean_step(sm):
    import json
    d = json.loads(json.dumps({k: v for k, v in sm.items() if k not in ('share', 'mutated', 'impl_shape', 'dur') and not k.startswith('_')}))
    return d


def check_seq(c):
    m = c.meta
    for i, sm in enumerate(m['steps']):
        f = check_case(Case(sm['_line'], sm['_impl'], sm['_clause'], meta=sm))
        if f is None:
            continue
        key = f.key
        if i > 0 and not key.endswith('-mutated'):
            # does the same lookup with FRESH equal arguments on a fresh container satisfy the property?
            fresh = run_case(clean_step(sm))
            if fresh is not None and check_case(fresh) is None:
                key = '%s/%s' % (sm['_clause'], 'second-use-differs' if m['seqkind'] == 'same-twice' else 'reused-argument-differs')
        return Failure(key, 'step %d of a sequence sharing %s: %s' % (i + 1, sorted((sm.get('share') or {}).keys()), f.what), {'meta': m}, case=c)
    return None


def check_case(c):
    m = c.meta
    if not m:
        return None
    if m['op'] == 'seq':
        return check_seq(c)
    if m['op'] == 'hist':
        return check_hist(c)
    if m['op'] == 'share':
        return check_share(c)
    mut = m.get('mutated') or []
    if mut:
        sym = 'container-mutated' if 'obj' in mut else 'argument-mutated'
        return Failure('%s/%s' % (c.clause.replace('/current-model', ''), sym),
                       '%s: the lookup changed its %s (%s); arguments and containers must be bit-for-bit unchanged and reusable  [op: %s] impl=%s'
                       % (c.clause, 'container' if 'obj' in mut else 'argument object(s)', ','.join(mut), c.line[:240], c.impl[:120]), {'meta': m}, case=c)
    if m['op'] == 'derive':
        return check_derive(c)
    if m.get('unsorted_epoch'):
        return None         # epoch selection is only specified for time-sorted containers (correspondence still applies)
    e = expectation(m)
    if e is None:
        return None
    want, extra = e
    got = c.impl
    clause = c.clause.replace('/current-model', '')

    def fail(sym, what):
        return Failure('%s/%s' % (clause, sym), '%s: %s  [op: %s] impl=%s want=%s' % (clause, what, c.line[:240], got[:160], want[:160]),
                       {'meta': m}, case=c)
    if got == want:
        if extra and 'shape' in extra and m.get('impl_shape') is not None and list(m['impl_shape']) != list(extra['shape']):
            return fail('shape', 'selected data has shape %s, want %s' % (m['impl_shape'], extra['shape']))
        return None
    op, kind = m['op'].replace('_cur', ''), m['kind']
    if op == 'epochs_getitem' and got.startswith('ok E:') and got.rsplit(':', 1)[0] == want.rsplit(':', 1)[0]:
        return fail('duration-stale', 'start/stop are those of the selected rows but .duration is not stop - start of the selection')
    # lookups that may legitimately name another position holding the same extreme value
    if op == 'index_at' and kind == 'tarray' and m['mode'] in ('before', 'after') and got.startswith('ok i:') and extra:
        if int(got[5:]) in extra:
            return fail('not-first-of-equal-times', 'returned a later position of the same instant')
    # --- classification of the known defect families
    uses_epoch = op in ('slice_during', 'during') or (op == 'getitem' and m.get('key') == 'ep')
    if uses_epoch and kind in ('uaxis', 'series') and got == 'err ValueError' and want.startswith('ok'):
        r = epoch_actual(m['e'])
        ax = m['axis']
        lo, hi = ax['t0'], ax['t0'] + m.get('dur', ax['n'] * ax['dt'])
        if ax['dt'] > 0 and r[0] == 'ok' and any(not (lo <= t < hi) for t in list(r[1]) + list(r[2])):
            return fail('raises-epoch-outside-axis', 'epoch [%s, %s) starts before the axis or ends at/after its end [%d, %d): ValueError instead of clipping'
                        % (r[1], r[2], lo, hi))
    if uses_epoch and kind in ('tarray', 'events') and want.startswith('ok') and got.startswith('ok'):
        times = m['t']['ps']
        gt, wt = sel_times(got, times), sel_times(want, times)
        # signature of the recorded defect: a proper, non-empty prefix is returned and every dropped sample
        # repeats the instant of the last one kept
        if (gt is not None and wt is not None and 0 < len(gt) < len(wt) and wt[:len(gt)] == gt
                and all(t == gt[-1] for t in wt[len(gt):])):
            return fail('duplicates-under-selected', 'sorted array with repeated instants: fewer samples selected than satisfy start <= t < stop')
    if op in ('index_at', 'index_at_bool', 'at', 'getitem') and kind in ('uaxis', 'series') and got == 'err ValueError' and want.startswith('ok'):
        ax = m['axis']
        q, _ = rep_actual(m['q'], ax['unit']) if 'q' in m and m.get('key', 'q') == 'q' else ([], True)
        last = ax['t0'] + (ax['n'] - 1) * ax['dt']
        if ax['dt'] > 0 and q and all(ax['t0'] <= t < last + ax['dt'] for t in q) and any(t >= ax['t0'] + m.get('dur', 0) for t in q):
            return fail('refuses-inside-last-bin', 'instant inside the last bin refused: reported duration %d ps < n*dt = %d ps' % (m.get('dur', 0), ax['n'] * ax['dt']))
        return fail('refuses-inside', 'instant inside the covered range refused')
    if got.startswith('err') and want.startswith('ok'):
        return fail('raises', 'operation raised (%s)' % got)
    if want.startswith('err') and got.startswith('ok'):
        return fail('accepts', 'operation should be refused (%s)' % want)
    if want.startswith('err'):
        return fail('error-kind', 'wrong error kind')
    return fail('wrong-selection', 'positions / values / data differ from the brute-force selection')



def derive_samples(ax, ch):
    """element-wise result of `axis ∘ x` under numpy broadcasting with python ints; None: shapes do not match"""
    n, xs = ax['n'], ch.get('xs')
    times = [ax['t0'] + i * ax['dt'] for i in range(n)]
    if ch['c'] == 'umul':       # a factor 0 would put every sample on one instant: refused like `*= 0`
        return [t * ch['k'] for t in times] if ch['k'] != 0 else None
    f = {'uadd': lambda t, x: t + x, 'usub': lambda t, x: t - x, 'ursub': lambda t, x: x - t}[ch['c']]
    if ch['sc'] or len(xs) == 1:
        return [f(t, xs[0]) for t in times]
    if len(xs) == n:
        return [f(t, x) for t, x in zip(times, xs)]
    if n == 1:
        return [f(times[0], x) for x in xs]
    return None


def check_derive(c):
    """arithmetic that makes a new object from a uniform axis: the result holds the element-wise values and is EITHER a
    uniform axis whose t0 / interval / duration describe those values OR an ordinary time array; the operand is unchanged"""
    m = c.meta
    ax, ch, got = m['axis'], m['d'], c.impl

    def fail(sym, what):
        return Failure('%s/%s' % (c.clause, sym), '%s: %s  [op: %s] impl=%s' % (c.clause, what, c.line[:240], got[:200]), {'meta': m}, case=c)
    if m.get('mutated'):
        return fail('operand-axis-changed', 'the arithmetic changed the axis it was applied to')
    want = derive_samples(ax, ch)
    if want is None and ch['c'] == 'umul':
        return None if got == 'err ValueError' else fail('accepts-factor-0', 'a factor 0 would put every sample on one instant: ValueError expected, as for `*= 0`')
    if want is None:
        return None if got == 'err ValueError' else fail('accepts', 'operand shapes do not match: ValueError expected')
    if not got.startswith('ok '):
        return fail('raises', 'operation raised')
    if m.get('samples') != want:
        return fail('wrong-samples', 'result holds %s, the element-wise values are %s' % (str(m.get('samples'))[:120], str(want)[:120]))
    if got.startswith('ok U:'):
        u, t0, dt, n, dur = got[3:].split(':')[1:]
        t0, dt, n, dur = int(t0), int(dt), int(n), int(dur)
        described = [t0 + i * dt for i in range(n)]
        if described != want or dur != n * dt or dt == 0:
            return fail('attributes-do-not-describe-samples', 'a uniform axis with t0=%d interval=%d duration=%d (i.e. samples %s…) that holds %s…: time lookups on it go wrong'
                        % (t0, dt, dur, described[:3], want[:3]))
        if u != ax['unit']:
            return fail('unit', 'unit of the result')
    return None


# ------------------------------------------------------------------ operation histories (lookups / in-place changes / lookups)
# The property is about the container's CURRENT contents: whatever was looked up before, and by whatever route the
# samples were changed in place since, a lookup must answer as a fresh container holding the same samples would.
T_ROUTES = {
    'set': ['setitem', 'view-setitem', 'base-view', 'flat', 'put', 'np.put', 'parent'],
    'add': ['iadd', 'ufunc-out', 'view-iadd', 'base-iadd'],
    'sub': ['isub', 'ufunc-out', 'view-isub'],
    'mul': ['imul', 'ufunc-out', 'negative-out'],
    'sort': ['sort', 'ndarray.sort', 'base-sort', 'view-sort'],
    'sortdesc': ['reversed-view-sort'],
    'reverse': ['setitem-all', 'view-assign', 'copyto'],
    'assign': ['copyto', 'setitem-ellipsis', 'view-assign', 'base-assign'],
}
BIG = 2**62


def is_sorted(ps):
    return all(a <= b for a, b in zip(ps, ps[1:]))


def expect_tchange(ps, ch):
    """the new contents, element by element with python ints (None: the change is not admissible)"""
    c, n = ch['c'], len(ps)
    if c == 'set':
        return ps[:ch['i']] + [ch['v']] + ps[ch['i'] + 1:] if 0 <= ch['i'] < n else None
    if c in ('add', 'sub', 'assign'):
        xs = ch['xs']
        if len(xs) not in (1, n):
            return None
        xs = xs * n if len(xs) == 1 and n != 1 else xs
        return [{'add': a + b, 'sub': a - b, 'assign': b}[c] for a, b in zip(ps, xs)]
    if c == 'mul':
        return [a * ch['k'] for a in ps]
    if c == 'sort':
        return sorted(ps)
    if c == 'sortdesc':
        return sorted(ps, reverse=True)
    if c == 'reverse':
        return ps[::-1]
    raise ValueError(c)


def do_tchange(tgt, ch, pool):
    """perform the change on the real time array `tgt` by the route the description names"""
    import operator
    c, route = ch['c'], ch['route']
    ou = ch.get('ounit', 'ps')

    def opnd():
        return mk_T(ou, bool(ch.get('sc')), ch['xs'])
    if c == 'set':
        i, v = ch['i'], ch['v']
        if route == 'setitem':
            tgt[i] = mk_T(ou, True, [v])
        elif route == 'view-setitem':
            w = tgt[ch['lo']:]
            w[i - ch['lo']] = mk_T(ou, True, [v])
        elif route == 'base-view':
            np.asarray(tgt)[i] = v
        elif route == 'flat':
            tgt.flat[i] = v
        elif route == 'put':
            tgt.put([i], [v])
        elif route == 'np.put':
            np.put(tgt, [i], [v])
        elif route == 'parent':
            pool['P'][pool['P_off'] + i] = mk_T(ou, True, [v])
        else:
            raise ValueError(route)
    elif c in ('add', 'sub'):
        uf, iop = (np.add, operator.iadd) if c == 'add' else (np.subtract, operator.isub)
        if route in ('iadd', 'isub'):
            iop(tgt, opnd())
        elif route == 'ufunc-out':
            uf(tgt, opnd(), out=tgt)
        elif route in ('view-iadd', 'view-isub'):
            w = tgt[:]
            iop(w, opnd())
        elif route == 'base-iadd':
            b = np.asarray(tgt)
            b += np.asarray(opnd())
        else:
            raise ValueError(route)
    elif c == 'mul':
        k = ch['k']
        if route == 'imul':
            operator.imul(tgt, k)
        elif route == 'ufunc-out':
            np.multiply(tgt, k, out=tgt)
        elif route == 'negative-out':
            np.negative(tgt, out=tgt)
        else:
            raise ValueError(route)
    elif c == 'sort':
        if route == 'sort':
            tgt.sort()
        elif route == 'ndarray.sort':
            np.ndarray.sort(tgt)
        elif route == 'base-sort':
            np.asarray(tgt).sort()
        elif route == 'view-sort':
            tgt[:].sort()
        else:
            raise ValueError(route)
    elif c == 'sortdesc':
        tgt[::-1].sort()
    elif c == 'reverse':
        if route == 'setitem-all':
            tgt[:] = tgt[::-1].copy()
        elif route == 'view-assign':
            w = tgt[:]
            w[:] = w[::-1].copy()
        elif route == 'copyto':
            np.copyto(tgt, tgt[::-1].copy())
        else:
            raise ValueError(route)
    elif c == 'assign':
        if route == 'copyto':
            np.copyto(tgt, opnd())
        elif route == 'setitem-ellipsis':
            tgt[...] = opnd()
        elif route == 'view-assign':
            w = tgt[:]
            w[...] = opnd()
        elif route == 'base-assign':
            np.asarray(tgt)[:] = np.array(ch['xs'], dtype=np.int64)
        else:
            raise ValueError(route)
    else:
        raise ValueError(c)


def tchange_tok(ch):
    c = ch['c']
    arg = {'set': lambda: '%d %d' % (ch['i'], ch['v']), 'mul': lambda: '%d' % ch['k']}.get(c, lambda: ilist(ch['xs']) if 'xs' in ch else '')()
    return ('C %s %s %s' % (ch['route'], c, arg)).strip()


def expect_uchange(ax, ch):
    """('ok', new axis description) or ('err', kind): element-wise arithmetic on the samples, python ints"""
    n, c = ax['n'], ch['c']
    times = [ax['t0'] + i * ax['dt'] for i in range(n)]
    if c in ('uadd', 'usub', 'ursub'):
        xs, sg = ch['xs'], (1 if c == 'uadd' else -1)
        if not ch['sc']:
            if len(xs) == 0:
                return ('err', 'ValueError')
            if len(xs) > 1 and (any(b - a != xs[1] - xs[0] for a, b in zip(xs, xs[1:])) or len(xs) != n):
                return ('err', 'ValueError')       # would break uniformity / shapes do not match
        new = [t + sg * (xs[0] if len(xs) == 1 else x) for t, x in zip(times, xs * n if len(xs) == 1 else xs)]
        dt = new[1] - new[0] if n >= 2 else ax['dt']
        if dt == 0:
            return ('err', 'ValueError')           # all samples on one instant
        if c == 'ursub':                           # x - axis: every sample changes its sign
            new, dt = [-t for t in new], -dt
    elif c == 'umul':
        if ch['k'] == 0:
            return ('err', 'ValueError')
        new, dt = [t * ch['k'] for t in times], ax['dt'] * ch['k']
    elif c == 'udiv':
        k = ch['k']
        if k == 0 or any(t % k for t in times) or ax['dt'] % k:
            return ('err', 'ValueError')
        new, dt = [t // k for t in times], ax['dt'] // k
    else:
        raise ValueError(c)
    out = {k: v for k, v in ax.items() if k != 'how'}
    g = ax['g'] * abs(ch['k']) if c == 'umul' else (max(1, ax['g'] // abs(ch['k'])) if c == 'udiv' else ax['g'])
    out.update(t0=new[0], dt=dt, ctor='length', g=g)
    return ('ok', out)


def uchange_operand(ch, unit):
    c = ch['c']
    if c in ('umul', 'udiv'):
        return int(ch['k'])
    if ch.get('rep') is not None:
        return rep_build(ch['rep'])
    return int(ch['xs'][0] // FACTOR[unit]) if ch['form'] == 'pyint' else mk_T(ch['ounit'], bool(ch['sc']), ch['xs'])


def derive_axis(a, ch, unit):
    """arithmetic that makes a NEW object from the axis `a`: a + x, x + a, a - x, x - a"""
    x = uchange_operand(ch, unit)
    c, rev = ch['c'], ch['route'].endswith('-r')
    if c == 'umul':
        if ch['route'].endswith('-neg'):
            return -a
        return x * a if rev else a * x
    if c == 'uadd':
        return x + a if rev else a + x
    if c == 'usub':
        return a - x
    if c == 'ursub':
        return x - a
    raise ValueError(c)


def do_uchange(box, kind, ch, unit):
    """`+= -= *= /=` on the real axis (for a series: on its `.time`, through the attribute or through an alias); the
    `derived` routes make a NEW axis by ordinary arithmetic (for a series: a new series on that axis), which replaces
    the object under study — the old one must stay as it was"""
    import operator
    obj = box['obj']
    if ch['route'].startswith('derived'):
        before = snap(obj)
        if kind == 'uaxis':
            new = derive_axis(obj, ch, unit)
        else:
            v = derive_axis(obj.time, ch, unit)
            new = ts().TimeSeries(obj.data, time=v, time_unit=v.time_unit)
        box['operand_changed'] = differs(before, snap(obj))
        box['obj'] = new
        return
    x = uchange_operand(ch, unit)
    iop = {'uadd': operator.iadd, 'usub': operator.isub, 'umul': operator.imul, 'udiv': operator.itruediv}[ch['c']]
    if kind == 'uaxis':
        iop(obj, x)
    elif ch['route'] == 'attr':
        obj.time = iop(obj.time, x)         # what `series.time += x` does
    else:
        t = obj.time
        iop(t, x)


def uchange_tok(ch):
    c = ch['c']
    if c in ('uadd', 'usub', 'ursub'):
        return 'C %s %s %d %s' % (ch['route'], c, 1 if ch['sc'] else 0, ilist(ch['xs']))
    return 'C %s %s %d' % (ch['route'], c, ch['k'])


CONT_KEYS = ('t', 'vals', 'axis', 'data')

SIDE_MAKERS = {
    'tarray': ['copy', 'wrap', 'wrap-unit', 'arith', 'arith-time', 'events-time', 'epochs-start', 'epochs-stop', 'deepcopy', 'fancy', 'astype',
               'asarray-copy', 'self-sub', 'min', 'max', 'list-wrap'],
    'events': ['events-of-time', 'time-copy', 'getitem-all', 'wrap', 'arith', 'deepcopy'],
    'uaxis': ['copy', 'rebuild', 'rebuild-unit', 'arith', 'arith-r', 'mul', 'series-time', 'series-time-2', 'series-copy-time', 'series-arith-time',
              'deepcopy', 'self-add', 'wrap'],
    'series': ['copy-time', 'copy-copy-time', 'arith-time', 'arith-sub-time', 'mul-time', 'during-time', 'getitem-ep-time', 'from-time', 'from-time-unit',
               'time-copy', 'rebuild', 'deepcopy-time', 'sibling-time', 'time-arith'],
}
SIDE_OPS_T = ['iadd', 'iadd-time', 'isub', 'setitem', 'sort', 'neg', 'fill', 'imul']
SIDE_OPS_U = ['iadd', 'iadd-time', 'isub', 'isub-own', 'imul', 'ramp', 'bad-ramp', 'imul0']


def do_side(obj, kind, sd, unit):
    """make an object from the container `obj` by the maker `sd['make']`, then change THAT object in place (`sd['op']`).  Returns a
    note for the record; exceptions are part of the game (some operators are refused)"""
    t = ts()
    T, U, S = t.TimeArray, t.UniformTime, t.TimeSeries
    mk, op, k = sd['make'], sd['op'], sd.get('k', 3)
    import copy as _c
    try:
        if kind == 'tarray':
            n = len(obj)
            d = {'copy': lambda: obj.copy(), 'wrap': lambda: T(obj), 'wrap-unit': lambda: T(obj, time_unit=sd.get('unit', 'ms')),
                 'arith': lambda: obj + 0, 'arith-time': lambda: obj - T(0, time_unit='ps'), 'events-time': lambda: t.Events(obj).time,
                 'epochs-start': lambda: t.Epochs(start=obj[:max(1, n // 2)], duration=T(1, time_unit='ps')).start,
                 'epochs-stop': lambda: t.Epochs(start=obj[:max(1, n // 2)] - 1, stop=obj[:max(1, n // 2)]).stop,
                 'deepcopy': lambda: _c.deepcopy(obj), 'fancy': lambda: obj[list(range(n))], 'astype': lambda: obj.astype(np.int64),
                 'asarray-copy': lambda: np.array(obj), 'self-sub': lambda: obj - obj, 'min': lambda: obj.min(), 'max': lambda: obj.max(),
                 'list-wrap': lambda: T([obj[i] for i in range(n)])}[mk]()
        elif kind == 'events':
            d = {'events-of-time': lambda: t.Events(obj.time).time, 'time-copy': lambda: obj.time.copy(), 'getitem-all': lambda: obj[list(range(len(obj)))].time
                 if False else t.Events(obj.time, **{kk: vv for kk, vv in obj.data.items()}).time,
                 'wrap': lambda: T(obj.time), 'arith': lambda: obj.time + 0, 'deepcopy': lambda: _c.deepcopy(obj).time}[mk]()
        elif kind == 'uaxis':
            n = len(obj)
            zeros = np.zeros(n)
            d = {'copy': lambda: obj.copy(), 'rebuild': lambda: U(obj), 'rebuild-unit': lambda: U(obj, time_unit=sd.get('unit', 'ms')),
                 'arith': lambda: obj + 0, 'arith-r': lambda: 0 + obj, 'mul': lambda: obj * 1,
                 'series-time': lambda: S(zeros, time=obj, time_unit=obj.time_unit).time,
                 'series-time-2': lambda: (S(zeros, time=obj, time_unit=obj.time_unit), S(zeros + 1, time=obj, time_unit=obj.time_unit))[1].time,
                 'series-copy-time': lambda: S(zeros, time=obj, time_unit=obj.time_unit).copy().time,
                 'series-arith-time': lambda: (S(zeros, time=obj, time_unit=obj.time_unit) + 1).time,
                 'deepcopy': lambda: _c.deepcopy(obj), 't0': lambda: obj.t0, 'interval': lambda: obj.sampling_interval,
                 'self-add': lambda: obj + obj, 'wrap': lambda: T(obj)}[mk]()
        else:
            n = obj.data.shape[-1]
            tt = obj.time
            whole = t.Epochs(start=T(int(min(tt[0], tt[-1])), time_unit='ps'), stop=T(int(max(tt[0], tt[-1])) + 1, time_unit='ps'))
            d = {'copy-time': lambda: obj.copy().time, 'copy-copy-time': lambda: obj.copy().copy().time, 'arith-time': lambda: (obj + 1).time,
                 'arith-sub-time': lambda: (obj - 1.5).time, 'mul-time': lambda: (obj * 2).time, 'during-time': lambda: obj.during(whole).time,
                 'getitem-ep-time': lambda: obj[whole].time, 'from-time': lambda: S(obj.data, time=obj.time).time,
                 'from-time-unit': lambda: S(obj.data, time=obj.time, time_unit=obj.time_unit).time, 'time-copy': lambda: obj.time.copy(),
                 'rebuild': lambda: U(obj.time), 'deepcopy-time': lambda: _c.deepcopy(obj).time,
                 'sibling-time': lambda: S(obj.data + 1, time=obj.time, time_unit=obj.time_unit).time, 't0': lambda: obj.t0,
                 'interval': lambda: obj.sampling_interval, 'time-arith': lambda: obj.time + 0}[mk]()
    except Exception as e:  # noqa
        return 'maker raised ' + type(e).__name__
    try:
        f = FACTOR[unit]
        if isinstance(d, U) and np.asarray(d).ndim == 1:
            nn = len(d)
            {'iadd': lambda: d.__iadd__(k), 'iadd-time': lambda: d.__iadd__(T(k * 1000 + 1, time_unit='ps')), 'isub': lambda: d.__isub__(k),
             'isub-own': lambda: d.__isub__(d[nn // 2]), 'imul': lambda: d.__imul__(2 if abs(int(d[0])) + abs(int(d[-1])) < 2**59 else -1),
             'ramp': lambda: d.__iadd__(T(np.arange(nn, dtype=np.int64) * max(1, abs(int(d.sampling_interval))), time_unit='ps')),
             'bad-ramp': lambda: d.__iadd__(T(np.arange(nn + 2, dtype=np.int64), time_unit='ps')), 'imul0': lambda: d.__imul__(0)}[
                 op if op in SIDE_OPS_U else SIDE_OPS_U[SIDE_OPS_T.index(op) % len(SIDE_OPS_U)]]()
        elif isinstance(d, np.ndarray):
            o2 = op if op in SIDE_OPS_T else SIDE_OPS_T[SIDE_OPS_U.index(op) % len(SIDE_OPS_T)]
            if d.ndim == 0 and o2 in ('setitem', 'sort'):
                o2 = 'fill'
            {'iadd': lambda: np.ndarray.__iadd__(d, k * 1000 + 1), 'iadd-time': lambda: d.__iadd__(T(k * 1000 + 1, time_unit='ps')),
             'isub': lambda: d.__isub__(T(7, time_unit='ps')), 'setitem': lambda: d.__setitem__(0, T(int(np.asarray(d).reshape(-1)[0]) + 11, time_unit='ps')),
             'sort': lambda: (np.ndarray.__imul__(d, -1), d.sort()), 'neg': lambda: np.negative(d, out=d), 'fill': lambda: np.asarray(d).fill(5),
             'imul': lambda: np.ndarray.__imul__(d, 3 if np.abs(np.asarray(d)).max(initial=0) < 2**59 else 1)}[o2]()
        else:
            return 'not an array: ' + type(d).__name__
    except Exception as e:  # noqa
        return 'op raised ' + type(e).__name__
    return 'done'


def gen_side(rng, kind):
    mk = rng.choice(SIDE_MAKERS[kind])
    return {'make': mk, 'op': rng.choice(SIDE_OPS_U + SIDE_OPS_T), 'k': rng.choice([1, 2, 3, 5, -4]), 'unit': rng.choice(UNITS)}


def run_hist(m):
    """one container object through lookups, in-place changes and lookups again.  m['steps'] holds `{'look': …}` (a lookup
    description without its container) and `{'chg': …}`; the container description is updated along the way by
    `expect_tchange` / `expect_uchange`; after every change the real object's contents are read back."""
    t = ts()
    kind = m['kind']
    pool = {}
    cur = {k: m[k] for k in CONT_KEYS if k in m}
    if kind == 'tarray':
        born = m.get('born')
        if born and 'derive' in born:
            # the array is what arithmetic of a uniform axis with a non-uniform (or collapsing) operand gives
            base = build_axis(born['axis'])
            if base is None:
                return None
            try:
                obj = derive_axis(base, born['derive'], born['axis']['unit'])
            except Exception:       # noqa
                obj = None
            if obj is None or isinstance(obj, t.UniformTime) or not isinstance(obj, t.TimeArray):
                # not the ordinary time array it should be: judged as the one-shot `derive` operation
                return run_case({'op': 'derive', 'kind': 'uaxis', 'axis': born['axis'], 'd': born['derive']})
        elif born:
            pool['P'] = mk_T(m['t']['unit'], False, born['pre'] + m['t']['ps'] + born['post'])
            pool['P_off'] = len(born['pre'])
            obj = pool['P'][len(born['pre']):len(born['pre']) + len(m['t']['ps'])]
        else:
            obj = mk_T(m['t']['unit'], False, m['t']['ps'])
        head = tarr_tok(m['t'])
    elif kind == 'events':
        obj = t.Events(mk_T(m['t']['unit'], False, m['t']['ps']), **{'k%d' % i: np.array(v, dtype=np.int64) for i, v in enumerate(m['vals'])})
        head = tarr_tok(m['t']) + ' D:%d:%d:%s' % (len(m['vals']), len(m['t']['ps']), ilist([x for v in m['vals'] for x in v]))
    elif kind == 'uaxis':
        obj = build_axis(m['axis'])
        if obj is None:
            return None
        head = axis_tok(m['axis'], obj)
    else:
        obj = build_series(m['axis'], m['data'])
        if obj is None:
            return None
        head = axis_tok(m['axis'], obj.time) + ' ' + data_tok(m['data'])
    pool['X'] = obj
    box = {'obj': obj}
    unit = m['t']['unit'] if 't' in m else m['axis']['unit']
    cname = {'uaxis': 'uniform', 'tarray': 'tarray', 'series': 'series', 'events': 'events'}[kind]

    def time_obj():
        o = box['obj']
        return {'tarray': lambda: o, 'events': lambda: o.time, 'uaxis': lambda: o, 'series': lambda: o.time}[kind]()

    def read_back():
        a = time_obj()
        if kind in ('tarray', 'events'):
            return 'T:%s:0:%s' % (a.time_unit, ilist(np.asarray(a).reshape(-1)))
        if not isinstance(a, t.UniformTime):
            return 'not-a-uniform-axis:%s' % type(a).__name__
        return 'U:%s:%d:%d:%d:%d' % (a.time_unit, int(a.t0), int(a.sampling_interval), len(a), int(a.duration))
    toks, impls, trace, nt = [], [], [], True
    for st in m['steps']:
        if 'side' in st:
            # class L8: an object DERIVED from the container (or handed to two owners) is changed in place; nothing of this is on the
            # model line — the container's contents are what they were
            before = snap(box['obj'])
            note = do_side(box['obj'], kind, st['side'], unit)
            trace.append({'side': st['side'], 'note': note, 'container_changed': differs(before, snap(box['obj']))})
            continue
        if 'look' in st:
            sm = dict(cur, **st['look'])
            sm.update(kind=kind, share=dict(st['look'].get('share') or {}, obj='X'))
            if kind in ('tarray', 'events') and not is_sorted(cur['t']['ps']) and (sm['op'] in ('slice_during', 'during') or sm.get('key') == 'ep'):
                sm['unsorted_epoch'] = True
            c = run_case(sm, pool)
            if c is None:
                return None
            sm['_impl'], sm['_line'], sm['_clause'] = c.impl, c.line, c.clause
            lt = c.line.split(' ')[1:]
            toks.append('L ' + ' '.join([lt[0]] + lt[2 + (2 if kind in ('series', 'events') else 1):]))
            impls.append(c.impl)
            fresh = run_case(clean_step(sm))            # the same lookup asked of a FRESH container holding the current contents
            trace.append({'look': sm, 'fresh': None if fresh is None else fresh.impl})
            nt = nt and c.nontrivial
            continue
        ch = st['chg']
        if kind in ('tarray', 'events'):
            new = expect_tchange(list(cur['t']['ps']), ch)
            want = 'err ValueError' if new is None else 'ok T:%s:0:%s' % (unit, ilist(new))
            tgt = time_obj()

            def f():
                do_tchange(tgt, ch, pool)
                return 'ok ' + read_back()
            toks.append(tchange_tok(ch))
            if new is not None:
                cur = dict(cur, t=dict(cur['t'], ps=new))
        else:
            r = expect_uchange(cur['axis'], ch)
            toks.append(uchange_tok(ch))
            if r[0] == 'ok':
                cur = dict(cur, axis=r[1])
                want = 'ok U:%s:%d:%d:%d:%d' % (unit, r[1]['t0'], r[1]['dt'], r[1]['n'], r[1]['n'] * r[1]['dt'])
            else:
                want = 'err ' + r[1]

            def f():
                box.pop('operand_changed', None)
                do_uchange(box, kind, ch, unit)
                pool['X'] = box['obj']
                return 'ok ' + read_back()
        impl = call(f)
        samples = [int(x) for x in np.asarray(time_obj()).reshape(-1)]
        wsamp = list(cur['t']['ps']) if 't' in cur else [cur['axis']['t0'] + i * cur['axis']['dt'] for i in range(cur['axis']['n'])]
        impls.append(impl)
        trace.append({'chg': ch, 'impl': impl, 'want': want, 'samples_ok': samples == wsamp, 'operand_changed': bool(box.get('operand_changed'))})
        if samples != wsamp or not impl.startswith('ok') or (impl != want and not (ch['route'].startswith('derived') and impl.startswith('ok U:'))):
            break               # the contents are no longer what the rest of the history was written for
        # (a derived axis that holds the right samples under wrong attributes goes on: its lookups are the failing inputs)
    m['_trace'] = trace
    return Case('C03 hist %s %s | %s' % (kind, head, ' | '.join(toks)), ' ; '.join(impls), 'hist/' + cname, meta=m, nontrivial=nt)


def check_hist(c):
    m = c.meta
    if m['op'] == 'derive':
        return check_derive(c)
    cname = c.clause.split('/', 1)[1]
    changed, stale = False, None
    for i, tr in enumerate(m.get('_trace') or []):
        if 'side' in tr:
            if tr['container_changed']:
                return Failure('%s/aliasing/%s/container-changed-by-operation-on-derived-object' % (cname, tr['side']['make']),
                               'step %d of a history: an object made from the %s (%s) was changed in place (%s: %s) and the %s itself changed  [op: %s]'
                               % (i + 1, cname, tr['side']['make'], tr['side']['op'], tr['note'], cname, c.line[:300]), {'meta': m}, case=c)
            changed = True      # (for the wording / classification of a lookup that goes wrong afterwards)
            continue
        if 'chg' in tr:
            ch = tr['chg']
            derived = ch['route'].startswith('derived')
            word = 'derive' if derived else 'inplace'
            if tr.get('operand_changed'):
                return Failure('%s/derive/%s/operand-axis-changed' % (cname, ch['c']),
                               'step %d of a history: arithmetic that makes a new object (%s) changed the axis it was applied to  [op: %s]'
                               % (i + 1, ch, c.line[:300]), {'meta': m}, case=c)
            if tr['impl'] != tr['want'] or not tr['samples_ok']:
                if stale is not None:
                    return stale        # a consequence of the stale attributes reported there
                # (a series built on a derived axis takes t0 / interval from its attributes: wrong attributes show as wrong samples)
                attrs = derived and tr['impl'].startswith('ok') and (tr['samples_ok'] or cname == 'series')
                f = Failure('%s/%s/%s/%s' % (cname, word, ch['c'], 'attributes-do-not-describe-samples' if attrs else ch['route'] + '/contents-wrong'),
                            'step %d of a history: %s %s left %s%s, want %s  [op: %s]'
                            % (i + 1, 'the arithmetic' if derived else 'the in-place change', ch, tr['impl'][:160],
                               '' if tr['samples_ok'] else ' (samples differ)', tr['want'][:160], c.line[:300]), {'meta': m}, case=c)
                if derived and tr['samples_ok'] and tr['impl'].startswith('ok U:'):
                    stale = stale or f      # go on: the lookups on this axis are the failing inputs
                    continue
                return f
            changed = True
            continue
        sm = tr['look']
        f = check_case(Case(sm['_line'], sm['_impl'], sm['_clause'], meta=sm))
        after = ' after an in-place change' if changed else ''
        if f is not None and stale is not None and not f.key.endswith('-mutated'):
            return Failure('%s/axis-attributes-stale' % sm['_clause'],
                           'step %d of a history, on an axis made by ordinary arithmetic (%s): %s' % (i + 1, stale.what[:200], f.what), {'meta': m}, case=c)
        if f is not None:
            key = f.key
            if i > 0 and not key.endswith('-mutated') and tr['fresh'] is not None and tr['fresh'] != sm['_impl']:
                fr = run_case(clean_step(sm))
                if fr is not None and check_case(fr) is None:
                    key = '%s/%s' % (sm['_clause'], 'stale-after-inplace-change' if changed else 'depends-on-earlier-lookups')
            return Failure(key, 'step %d of a history on one %s object%s: %s' % (i + 1, cname, after, f.what), {'meta': m}, case=c)
        if stale is None and tr['fresh'] is not None and tr['fresh'] != sm['_impl']:
            return Failure('%s/history/fresh-container-differs' % sm['_clause'],
                           'step %d of a history on one %s object%s: the lookup answers %s, a fresh container holding the same samples answers %s  [op: %s]'
                           % (i + 1, cname, after, sm['_impl'][:160], tr['fresh'][:160], sm['_line'][:240]), {'meta': m}, case=c)
    return stale



# ------------------------------------------------------------------ class L8: programs over several live objects that may share parts
def _sh_times(ax):
    return [ax['t0'] + i * ax['dt'] for i in range(ax['n'])]


def _sh_data_map(d, f):
    return {'shape': list(d['shape']), 'vals': [f(v) for v in d['vals']]}


def _sh_data_sel(d, idx):
    n = d['shape'][-1]
    rows = int(np.prod(d['shape'][:-1])) if len(d['shape']) > 1 else 1
    vals = [d['vals'][r * n + i] for r in range(rows) for i in idx]
    return {'shape': list(d['shape'][:-1]) + [len(idx)], 'vals': vals}


class ShadowStore:
    """the property's own account of the objects of a program (plain integers; no model): an in-place operator changes the axis
    object it is applied to and nothing else; every constructor, copy, arithmetic result and `.time` read makes / hands out an
    object of its own"""

    def __init__(self, ax):
        self.axes, self.series = [dict(ax)], []

    def time_id(self, sid):
        s = self.series[sid]
        if s['time'] is None:
            self.axes.append(dict(s['own']))
            s['time'] = len(self.axes) - 1
            return s['time'], True
        return s['time'], False

    def axis_of(self, sid):
        s = self.series[sid]
        return s['own'] if s['time'] is None else self.axes[s['time']]


def _own_of(ax):
    return {k: v for k, v in ax.items() if k != 'how'} | {'ctor': 'length'}


def gen_share(rng):
    """a program: series built on one caller axis, copies / arithmetic / during results / sibling series, reads of `.time`, in-place
    operators on every axis object and on the `.time` of every series, lookups on everything — generated against the shadow"""
    for _ in range(50):
        ax = gen_axis(rng, 14)
        if ax['ctor'] == 'length':
            break
    sh = ShadowStore(ax)
    cmds = []

    def add_series(axid):
        a = sh.axes[axid]
        d = gen_data(rng, a['n'])
        sh.series.append({'data': d, 'own': _own_of(a), 'time': None})
        cmds.append({'c': 'N', 'ax': axid, 'data': d})

    def look(sid):
        if sh.axis_of(sid)['n'] < 1:
            return
        cont = {'axis': sh.axis_of(sid), 'data': sh.series[sid]['data']}
        cmds.append({'c': 'L', 'sid': sid, 'look': gen_hlook(rng, 'series', cont)})
    add_series(0)
    if rng.random() < 0.4:
        add_series(0)
    if rng.random() < 0.6:
        sh.time_id(0)
        cmds.append({'c': 'T', 'sid': 0})
    for _ in range(rng.randint(0, 2)):
        look(0)
    for _ in range(rng.randint(3, 9)):
        r = rng.random()
        sid = rng.randrange(len(sh.series))
        if r < 0.14:
            sh.time_id(sid)
            a = sh.axis_of(sid)
            sh.series.append({'data': sh.series[sid]['data'], 'own': _own_of(a), 'time': None})
            cmds.append({'c': 'Y', 'sid': sid})
        elif r < 0.26:
            k = rng.randint(-9, 9)
            sh.time_id(sid)
            a = sh.axis_of(sid)
            sh.series.append({'data': _sh_data_map(sh.series[sid]['data'], lambda v: v + k), 'own': _own_of(a), 'time': None})
            cmds.append({'c': 'A', 'sid': sid, 'k': k, 'how': rng.choice(['add', 'sub', 'radd'])})
        elif r < 0.34:
            a = sh.axis_of(sid)
            if a['dt'] <= 0 or a['n'] < 2:
                continue
            e = gen_uepoch(rng, a)
            ea = epoch_actual(e)
            if ea[0] != 'ok' or not ea[3]:
                continue
            idx = [i for i, t in enumerate(_sh_times(a)) if ea[1][0] <= t < ea[2][0]]
            if not idx or abs(ea[4]) + (len(idx) + 1) * a['dt'] >= LIM // 8:
                continue
            sh.time_id(sid)
            own = dict(_own_of(a), t0=ea[4], n=len(idx), dt=sh.series[sid]['own']['dt'])     # (`sampling_rate=self.sampling_rate`: the series' OWN attribute)
            sh.series.append({'data': _sh_data_sel(sh.series[sid]['data'], idx), 'own': own, 'time': None})
            cmds.append({'c': 'D', 'sid': sid, 'e': e})
        elif r < 0.42:
            axid = rng.randrange(len(sh.axes))
            sh.axes.append(dict(sh.axes[axid]))
            cmds.append({'c': 'X', 'id': axid, 'how': rng.choice(['copy', 'rebuild'])})
        elif r < 0.5:
            sh.time_id(sid)
            cmds.append({'c': 'T', 'sid': sid})
        elif r < 0.56:
            add_series(rng.randrange(len(sh.axes)))
        elif r < 0.74:
            axid = rng.randrange(len(sh.axes))
            ch = gen_uchange(rng, sh.axes[axid], 'uaxis', derived=False)
            res = expect_uchange(sh.axes[axid], ch)
            if res[0] == 'ok':
                sh.axes[axid] = res[1]
            cmds.append({'c': 'IA', 'id': axid, 'ch': ch})
        elif r < 0.9:
            pid, _ = sh.time_id(sid)
            ch = gen_uchange(rng, sh.axes[pid], 'series', derived=False)
            res = expect_uchange(sh.axes[pid], ch)
            if res[0] == 'ok':
                sh.axes[pid] = res[1]
            cmds.append({'c': 'IT', 'sid': sid, 'ch': ch})
        else:
            look(sid)
        if rng.random() < 0.35:
            look(rng.choice([0, 0, rng.randrange(len(sh.series))]))
    for sid in sorted({0, len(sh.series) - 1, rng.randrange(len(sh.series))}):
        for _ in range(rng.randint(1, 2)):
            sh.time_id(sid) if False else None
            look(sid)
    return {'op': 'share', 'kind': 'share', 'axis': ax, 'cmds': cmds}


def _u_tok(a):
    t = ts()
    if not isinstance(a, t.UniformTime):
        return 'not-a-uniform-axis:%s' % type(a).__name__
    return 'U:%s:%d:%d:%d:%d' % (a.time_unit, int(a.t0), int(a.sampling_interval), len(a), int(a.duration))


def run_share(m):
    import operator
    t = ts()
    ax = m['axis']
    a0 = build_axis(ax)
    if a0 is None:
        return None
    sh = ShadowStore(ax)
    axes, series = [a0], []          # the real objects (None: the construction raised), at the positions the INTENDED allocation gives them
    toks, outs, trace = [], [], []
    iops = {'uadd': operator.iadd, 'usub': operator.isub, 'umul': operator.imul, 'udiv': operator.itruediv}

    def attempt(f):
        try:
            return f(), 'ok'
        except Exception as e:  # noqa
            from common import err_kind
            return None, 'err ' + err_kind(e)

    def read_time(sid):
        """the axis object `series[sid].time` hands out, registered at the position the intended allocation gives it"""
        pid, first = sh.time_id(sid)
        o, _ = attempt(lambda: series[sid].time)
        if first:
            axes.append(o)
        return pid, o

    def utok(a):
        return 'U:%s:%d:%d:%d:%d' % (a['unit'], a['t0'], a['dt'], a['n'], a['n'] * a['dt'])
    for cm in m['cmds']:
        c = cm['c']
        rec = {'cmd': cm}
        if c == 'N':
            d, a = cm['data'], sh.axes[cm['ax']]
            toks.append('N %d %s' % (cm['ax'], data_tok(d)))
            obj, out = attempt(lambda: t.TimeSeries(np.array(d['vals'], dtype=np.int64).reshape(d['shape']), time=axes[cm['ax']],
                                                    time_unit=axes[cm['ax']].time_unit))
            series.append(obj)
            sh.series.append({'data': d, 'own': _own_of(a), 'time': None})
        elif c == 'T':
            toks.append('T %d' % cm['sid'])
            _, o = read_time(cm['sid'])
            out = 'err missing-object' if o is None else 'ok ' + _u_tok(o)
            rec['want'] = 'ok ' + utok(sh.axis_of(cm['sid']))
        elif c in ('Y', 'A', 'D'):
            sid = cm['sid']
            k = cm.get('k', 0)
            read_time(sid)
            a = sh.axis_of(sid)
            src = series[sid]
            if c == 'Y':
                toks.append('Y %d' % sid)
                obj, out = attempt(lambda: src.copy())
                sh.series.append({'data': sh.series[sid]['data'], 'own': _own_of(a), 'time': None})
            elif c == 'A':
                toks.append('A %d %d' % (sid, k))
                obj, out = attempt({'add': lambda: src + k, 'sub': lambda: src - (-k), 'radd': lambda: src + np.int64(k)}[cm['how']])
                sh.series.append({'data': _sh_data_map(sh.series[sid]['data'], lambda v: v + k), 'own': _own_of(a), 'time': None})
            else:
                e = cm['e']
                toks.append('D %d %s' % (sid, epoch_toks(e)))
                ea = epoch_actual(e)
                idx = [i for i, tt in enumerate(_sh_times(a)) if ea[1][0] <= tt < ea[2][0]]
                obj, out = attempt(lambda: src.during(build_epoch(e)))
                if obj is not None:     # the attributes the result's axis will be built from (read without touching its `.time` cache)
                    rec['own'] = [int(obj.t0), int(obj.sampling_interval), int(obj.data.shape[-1])]
                    rec['want_own'] = [ea[4], sh.series[sid]['own']['dt'], len(idx)]
                sh.series.append({'data': _sh_data_sel(sh.series[sid]['data'], idx), 'time': None,
                                  'own': dict(_own_of(a), t0=ea[4], n=len(idx), dt=sh.series[sid]['own']['dt'])})
            series.append(obj)
        elif c == 'X':
            toks.append('X %d' % cm['id'])
            obj, out = attempt(lambda: axes[cm['id']].copy() if cm['how'] == 'copy' else t.UniformTime(axes[cm['id']]))
            axes.append(obj)
            sh.axes.append(dict(sh.axes[cm['id']]))
        elif c in ('IA', 'IT'):
            ch = cm['ch']
            if c == 'IA':
                tid = cm['id']
                toks.append('IA %d %s' % (tid, uchange_tok(ch).split(' ', 2)[2]))
                tgt = axes[tid]
            else:
                sid = cm['sid']
                toks.append('IT %d %s' % (sid, uchange_tok(ch).split(' ', 1)[1]))
                tid, tgt = read_time(sid)
            unit = sh.axes[tid]['unit']

            def f():
                x = uchange_operand(ch, unit)
                if c == 'IT' and ch['route'] == 'attr':
                    series[sid].time = iops[ch['c']](series[sid].time, x)
                else:
                    iops[ch['c']](tgt, x)
                return 'ok ' + _u_tok(tgt)
            out = 'err missing-object' if tgt is None else call(f)
            res = expect_uchange(sh.axes[tid], ch)
            if res[0] == 'ok':
                sh.axes[tid] = res[1]
                rec['want'] = 'ok ' + utok(res[1])
            else:
                rec['want'] = 'err ' + res[1]
        elif c == 'L':
            sid = cm['sid']
            cont = {'axis': dict(sh.axis_of(sid)), 'data': sh.series[sid]['data']}
            sm = dict(cont, **cm['look'])
            sm.update(kind='series', share={'obj': 'S%d' % sid})
            probe = run_case(clean_step(sm))          # (a fresh twin; also gives the tokens of the line)
            if probe is None:
                return None
            lt = probe.line.split(' ')[1:]
            toks.append('L %d ' % sid + ' '.join([lt[0]] + lt[4:]))
            if series[sid] is None:
                out = 'err missing-object'
            else:
                cc = run_case(sm, {'S%d' % sid: series[sid]})
                if cc is None:
                    return None
                read_time(sid)
                sm['_impl'], sm['_line'], sm['_clause'] = cc.impl, cc.line, cc.clause
                out = cc.impl
                rec.update(look=sm, fresh=probe.impl)
        else:
            raise ValueError(c)
        if out.startswith('err') and c != 'L':
            out = 'err ' + out.split(' ')[1]
        rec['impl'] = out
        outs.append(out)
        trace.append(rec)
    # identities: which axis object every series holds (position of the first registered object that IS it)
    ids = []
    for so in series:
        o = None if so is None else so.__dict__.get('time')
        ids.append('-' if o is None else str(next((j for j, a in enumerate(axes) if a is o), 'x')))
    outs.append('ids ' + (','.join(ids) if ids else '-'))
    m['_trace'] = trace
    m['_ids'] = ids
    m['_want_ids'] = ['-' if s_['time'] is None else str(s_['time']) for s_ in sh.series]
    return Case('C03 share %s | %s' % (axis_tok(ax, a0), ' | '.join(toks)), ' ; '.join(outs), 'share/series', meta=m,
                nontrivial=ax['n'] >= 2)


def check_share(c):
    m = c.meta
    later = False
    for i, tr in enumerate(m.get('_trace') or []):
        cm = tr['cmd']
        k = cm['c']
        if k in ('IA', 'IT', 'T'):
            if 'want' in tr and tr['impl'] != tr['want']:
                return Failure('share/%s/%s' % ({'IA': 'inplace-axis', 'IT': 'inplace-series-time', 'T': 'series-time'}[k],
                                                'axis-wrong' if k == 'T' else cm['ch']['c'] + '/contents-wrong'),
                               'command %d of a program over several live objects: %s gives %s, want %s  [op: %s]'
                               % (i + 1, cm, tr['impl'][:160], tr['want'][:160], c.line[:300]), {'meta': m}, case=c)
            later = later or k != 'T'
            continue
        if k == 'D' and tr.get('own') is not None and tr['own'] != tr['want_own']:
            sym = 't0-not-the-offset' if tr['own'][0] != tr['want_own'][0] else ('interval-changed' if tr['own'][1] != tr['want_own'][1] else 'count')
            return Failure('series/during/result-axis/' + sym, 'command %d of a program over several live objects: the series returned by `during` starts at / is sampled every / holds '
                           '%s (ps, ps, samples), the epoch offset / the source interval / the selection say %s  [op: %s]' % (i + 1, tr['own'], tr['want_own'], c.line[:300]), {'meta': m}, case=c)
        if k in ('N', 'Y', 'A', 'D', 'X'):
            if tr['impl'] != 'ok':
                return Failure('share/construct/%s/raises' % k, 'command %d of a program over several live objects: %s raised: %s  [op: %s]'
                               % (i + 1, cm, tr['impl'][:160], c.line[:300]), {'meta': m}, case=c)
            continue
        if k == 'L' and 'look' in tr:
            sm = tr['look']
            f = check_case(Case(sm['_line'], sm['_impl'], sm['_clause'], meta=sm))
            if f is not None:
                key = f.key
                if not key.endswith('-mutated') and tr['fresh'] is not None and tr['fresh'] != sm['_impl']:
                    fr = run_case(clean_step(sm))
                    if fr is not None and check_case(fr) is None:
                        key = '%s/aliasing/answer-changed-by-operation-on-another-object' % sm['_clause']
                return Failure(key, 'command %d of a program over several live objects (series %d): %s' % (i + 1, cm['sid'], f.what), {'meta': m}, case=c)
            if tr['fresh'] is not None and tr['fresh'] != sm['_impl']:
                return Failure('%s/aliasing/fresh-twin-differs' % sm['_clause'],
                               'command %d of a program over several live objects: the lookup on series %d answers %s, an untouched twin holding the same '
                               'samples answers %s  [op: %s]' % (i + 1, cm['sid'], sm['_impl'][:160], tr['fresh'][:160], sm['_line'][:240]), {'meta': m}, case=c)
    if m.get('_ids') != m.get('_want_ids'):
        return Failure('share/series-hold-one-axis-object', 'after the program the series hold the axis objects %s (position of the first registered object '
                       'that IS the cached `.time`), every series must hold an object of its own: %s  [op: %s]'
                       % (m.get('_ids'), m.get('_want_ids'), c.line[:300]), {'meta': m}, case=c)
    return None

# ------------------------------------------------------------------ generators
def gen_uquery(rng, ax, array=False):
    t0, dt, n, g = ax['t0'], ax['dt'], ax['n'], ax['g']
    end = t0 + n * dt
    ad = abs(dt)
    sg = 1 if dt > 0 else -1
    # the covered instants: [t0, end) on a forward axis, (end, t0] on a reversed one
    lo, hi = (t0, end - 1) if dt > 0 else (end + 1, t0)

    def one(inside=False):
        c = rng.random()
        i = rng.randrange(n)
        if c < 0.25:
            return t0 + i * dt
        if c < 0.5:     # inside the bin of sample i (the bin extends in the direction of dt)
            return t0 + i * dt + sg * rng.choice([1, ad - 1, ad // 2, rng.randint(0, ad - 1), (ad // g // 2) * g])
        if c < 0.6:     # bin edges +- 1 ps
            return t0 + i * dt + dt * rng.choice([0, 1]) - rng.choice([0, 1, -1])
        if c < 0.7 or inside:
            return rng.randint(lo, hi)
        if c < 0.85:
            return rng.choice([lo - 1, lo - ad, lo - rng.randint(1, 3 * ad), lo - g])
        return rng.choice([hi + 1, hi + 2, hi + ad, hi + 1 + rng.randint(0, 3 * ad)])
    if not array:
        return gen_rep(rng, one(), ax['unit'])
    k = rng.randint(1, 5)
    inside = rng.random() < 0.75
    return gen_rep_arr(rng, [one(inside) for _ in range(k)], ax['unit'])


def gen_uepoch(rng, ax, array=False):
    t0, dt, n, g = ax['t0'], ax['dt'], ax['n'], ax['g']
    times = [t0 + i * dt for i in range(n)]
    ad = abs(dt)
    lo, hi = (t0, t0 + n * dt) if dt > 0 else (t0 + n * dt + 1, t0 + 1)     # [lo, hi) holds every sample
    off = rng.choice([0, 0, g, -g, dt, rng.randint(-5, 5) * g])
    if not array:
        a, b = gen_span(rng, lo, hi, max(g, 2), times)
        return gen_epoch_args(rng, a, b, off, rng.choice([ax['unit'], ax['unit'], None, rng.choice(UNITS)]))
    k = rng.randint(1, 4)
    c = rng.random()
    if c < 0.6:         # equal durations, starts aligned with the grid phase: equal counts
        w = rng.randint(0, n) * ad + rng.choice([0, 0, 1, ad // 2])
        ph = rng.choice([0, 0, 1, ad // 2, -1])
        starts = [t0 + rng.randint(-1, n) * dt + ph for _ in range(k)]
        stops = [s + w for s in starts]
    elif c < 0.8:       # equal durations, arbitrary phases (blocks may be ragged)
        w = rng.randint(0, n * ad)
        starts = [rng.randint(lo - ad, hi) for _ in range(k)]
        stops = [s + w for s in starts]
    else:               # unequal durations
        sp = [gen_span(rng, lo, hi, max(g, 2), times) for _ in range(k)]
        starts, stops = [s[0] for s in sp], [s[1] for s in sp]
    return gen_epoch_args(rng, starts, stops, off, rng.choice([ax['unit'], ax['unit'], None]))


def gen_tquery(rng, t, array=False):
    ps, g = t['ps'], t['g']

    def one():
        c = rng.random()
        if c < 0.5:
            return rng.choice(ps) + rng.choice([0, 0, 0, 1, -1, 2, -2, g // 2, -(g // 2)])
        return rng.randint(min(ps) - 2 * g - 2, max(ps) + 2 * g + 2)
    if not array:
        return gen_rep(rng, one(), t['unit'])
    return gen_rep_arr(rng, [one() for _ in range(len(ps) if rng.random() < 0.85 or len(ps) < 2 else len(ps) + 1)], t['unit'])


def gen_tol(rng, t):
    g = t['g']
    c = rng.random()
    if c < 0.25:
        return None
    p = rng.choice([0, 1, 2, g // 2, g, 2 * g, 3 * g, -1])
    return gen_rep(rng, p, t['unit'])


def gen_tepoch(rng, t):
    ps, g = t['ps'], t['g']
    a, b = gen_span(rng, min(ps), max(ps) + 1, max(g, 2), ps)
    if rng.random() < 0.3:      # edges exactly on (possibly repeated) samples
        a, b = sorted([rng.choice(ps), rng.choice(ps) + rng.choice([0, 0, 1, g // 2])])
    off = rng.choice([0, 0, g, -g])
    return gen_epoch_args(rng, a, b, off, rng.choice([t['unit'], t['unit'], None, rng.choice(UNITS)]))


def gen_bad_epoch(rng):
    """malformed / edge constructor calls"""
    u = rng.choice(UNITS + [None])
    f = FACTOR[u or 's']
    def r(p, arr=False):
        return gen_rep_arr(rng, [p * f, (p + 1) * f][:rng.choice([1, 2, 2])], u) if arr else gen_rep(rng, p * f, u)
    e = {'unit': u, 't0': None, 'stop': None, 'offset': None, 'start': None, 'duration': None}
    for k in ('t0', 'stop', 'offset', 'start', 'duration'):
        if rng.random() < 0.45:
            e[k] = r(rng.randint(-5, 5), arr=rng.random() < 0.35)
    return e


def gen_step(rng, kind, cont):
    """one random lookup on the described container"""
    c = rng.random()
    if kind in ('uaxis', 'series'):
        ax = cont['axis']
        if kind == 'uaxis':
            if c < 0.15:
                return dict(cont, op='index_at', kind=kind, q=gen_uquery(rng, ax, array=rng.random() < 0.5))
            if c < 0.3:
                return dict(cont, op='at', kind=kind, q=gen_uquery(rng, ax, array=rng.random() < 0.5))
            if c < 0.55:
                return dict(cont, op='slice_during', kind=kind, e=gen_uepoch(rng, ax))
            if c < 0.75:
                return dict(cont, op='during', kind=kind, e=gen_uepoch(rng, ax))
            if c < 0.85:
                return dict(cont, op='getitem', kind=kind, key='q', q=gen_rep(rng, ax['t0'] + rng.randrange(ax['n']) * ax['dt'], ax['unit'], kinds=('time', 'pyfloat')))
            return dict(cont, op='getitem', kind=kind, key='ep', e=gen_uepoch(rng, ax))
        if c < 0.3:
            return dict(cont, op='at', kind=kind, q=gen_uquery(rng, ax, array=rng.random() < 0.5))
        if c < 0.7:
            return dict(cont, op='during', kind=kind, e=gen_uepoch(rng, ax, array=rng.random() < 0.5))
        if c < 0.8:
            arr = rng.random() < 0.5
            return dict(cont, op='getitem', kind=kind, key='q', q={'k': 'time', 'unit': rng.choice(UNITS), 'sc': not arr,
                        'ps': [ax['t0'] + rng.randrange(ax['n']) * ax['dt'] + rng.choice([0, 1]) for _ in range(2 if arr else 1)]})
        return dict(cont, op='getitem', kind=kind, key='ep', e=gen_uepoch(rng, ax, array=rng.random() < 0.4))
    t = cont['t']
    if kind == 'tarray':
        if c < 0.25:
            mode = rng.choice(['closest', 'before', 'after'])
            return dict(cont, op='index_at', kind=kind, mode=mode, q=gen_tquery(rng, t, array=rng.random() < 0.5), tol=gen_tol(rng, t) if mode == 'closest' else None)
        if c < 0.4:
            return dict(cont, op='at', kind=kind, q=gen_tquery(rng, t, array=rng.random() < 0.4), tol=gen_tol(rng, t))
        if c < 0.6:
            return dict(cont, op='slice_during', kind=kind, e=gen_tepoch(rng, t))
        if c < 0.75:
            return dict(cont, op='during', kind=kind, e=gen_tepoch(rng, t))
        if c < 0.85:
            return dict(cont, op='getitem', kind=kind, key='q', q={'k': 'pyfloat', 'v': float(Fr(rng.choice(t['ps']) + rng.choice([0, 0, 1]), FACTOR[t['unit']]))})
        return dict(cont, op='getitem', kind=kind, key='ep', e=gen_tepoch(rng, t))
    if c < 0.4:
        return dict(cont, op='getitem', kind=kind, key='q', q={'k': 'pyfloat', 'v': float(Fr(rng.choice(t['ps']) + rng.choice([0, 0, 1]), FACTOR[t['unit']]))})
    return dict(cont, op='getitem', kind=kind, key='ep', e=gen_tepoch(rng, t))


def transfer(step, kind2, cont2):
    """the lookup of `step` (same argument descriptions) on another container, or None when that makes no sense"""
    k1, op = step['kind'], step['op']
    args = {k: step[k] for k in ('q', 'e', 'tol', 'mode', 'key') if k in step}
    if k1 == kind2:
        return dict(cont2, op=op, kind=kind2, **args)
    if (k1, kind2) in (('uaxis', 'series'), ('series', 'uaxis')):
        if 'e' in args:
            args.pop('key', None)
            return dict(cont2, op='during', kind=kind2, e=args['e'])
        if 'q' in args:
            return dict(cont2, op='at', kind=kind2, q=args['q'])
        return None
    if (k1, kind2) == ('tarray', 'events'):
        if 'e' in args:
            return dict(cont2, op='getitem', kind=kind2, key='ep', e=args['e'])
        if op == 'getitem' and args.get('key') == 'q':
            return dict(cont2, op='getitem', kind=kind2, key='q', q=args['q'])
    return None


def gen_seq(rng, nmax):
    """sequences: the same lookup twice with the same objects; one argument object on two containers"""
    kind = rng.choice(['uaxis', 'uaxis', 'series', 'series', 'tarray', 'events'])

    def cont_of(kind, like=None):
        if kind in ('uaxis', 'series'):
            ax = dict(like['axis']) if like else gen_axis(rng, nmax)
            if like and rng.random() < 0.7:     # a neighbouring axis: shifted start, other length
                ax['t0'] += rng.choice([-2, -1, 1, 2, 3]) * rng.choice([ax['dt'], ax['g']])
                ax['n'] = max(1, ax['n'] + rng.randint(-3, 3))
            return {'axis': ax} if kind == 'uaxis' else {'axis': ax, 'data': gen_data(rng, ax['n'])}
        if like:
            ps = sorted(p + rng.choice([0, 0, like['t']['g'], -like['t']['g']]) for p in like['t']['ps'])
            t = dict(like['t'], ps=ps)       # same length: an array query of the first container stays admissible
        else:
            t = gen_tarray(rng, min(nmax, 20), sorted_=True)
        return {'t': t} if kind == 'tarray' else {'t': t, 'vals': [[rng.randint(-99, 99) for _ in t['ps']] for _ in range(rng.randint(1, 2))]}
    c1 = cont_of(kind)
    s1 = gen_step(rng, kind, c1)
    names = [k for k in ('q', 'e', 'tol') if s1.get(k) is not None]
    if rng.random() < 0.45:
        sh = dict({k: k.upper() for k in names}, obj='X')
        n_rep = rng.choice([2, 2, 3])
        return {'op': 'seq', 'kind': 'seq', 'seqkind': 'same-twice', 'steps': [dict(clean_step(s1), share=sh) for _ in range(n_rep)]}
    kind2 = {'uaxis': rng.choice(['uaxis', 'series']), 'series': rng.choice(['series', 'uaxis']),
             'tarray': rng.choice(['tarray', 'events']), 'events': 'events'}[kind]
    s2 = transfer(s1, kind2, cont_of(kind2, like=c1))
    if s2 is None:
        s2 = transfer(s1, kind, cont_of(kind, like=c1))
    sh = {k: k.upper() for k in names}
    steps = [dict(clean_step(s1), share=sh), dict(clean_step(s2), share=sh)]
    if rng.random() < 0.3:      # and back on the first container, same objects
        steps.append(dict(clean_step(s1), share=sh))
    return {'op': 'seq', 'kind': 'seq', 'seqkind': 'argument-on-two-containers', 'steps': steps}


def gen_tchange(rng, t, born_view=False):
    """an in-place change of the time array described by `t` (its current contents) and the route it takes"""
    ps, g, n = list(t['ps']), t['g'], len(t['ps'])
    lo, hi = min(ps), max(ps)
    w = (hi - lo) + g
    srt = is_sorted(ps)
    if n < 2:
        goal = rng.choice(['shift', 'scale', 'any', 'set'])
    elif srt:
        goal = rng.choice(['unsort', 'unsort', 'unsort', 'unsort', 'dup', 'shift', 'scale', 'any'])
    else:
        goal = rng.choice(['sort', 'sort', 'sort', 'dup', 'shift', 'scale', 'any', 'set'])
    ch = None
    if goal == 'unsort':
        k = rng.random()
        if k < 0.35:        # one sample jumps over its neighbours
            if rng.random() < 0.5:
                i = rng.randrange(1, n)
                v = rng.choice([ps[0] - rng.randint(1, 3) * g, ps[i - 1] - 1, ps[0] - 1, (ps[0] + ps[i - 1]) // 2 - 1])
            else:
                i = rng.randrange(0, n - 1)
                v = rng.choice([ps[-1] + rng.randint(1, 3) * g, ps[i + 1] + 1, ps[-1] + 1])
            ch = {'c': 'set', 'i': i, 'v': v}
        elif k < 0.55:      # a correction of some time stamps
            xs = [0] * n
            xs[0] = w + rng.randint(0, 2) * g
            if rng.random() < 0.5:
                xs[-1] = -(w + rng.randint(0, 2) * g)
            if rng.random() < 0.3:
                xs = [-x for x in xs[::-1]]
            ch = {'c': rng.choice(['add', 'sub']), 'xs': xs, 'sc': False}
        elif k < 0.7:
            ch = {'c': 'mul', 'k': rng.choice([-1, -1, -2])}
        elif k < 0.8:
            ch = {'c': 'reverse'}
        elif k < 0.88:
            ch = {'c': 'sortdesc'}
        else:
            xs = list(ps)
            rng.shuffle(xs)
            ch = {'c': 'assign', 'xs': xs, 'sc': False}
    elif goal == 'sort':
        ch = {'c': 'sort'} if rng.random() < 0.7 else {'c': 'assign', 'xs': sorted(ps), 'sc': False}
    elif goal == 'dup':
        i = rng.randrange(n)
        j = min(max(i + rng.choice([-1, 1]), 0), n - 1)
        ch = {'c': 'set', 'i': i, 'v': ps[j]}
    elif goal == 'set':
        ch = {'c': 'set', 'i': rng.randrange(n), 'v': rng.randint(lo - g, hi + g)}
    elif goal == 'shift':
        d = rng.randint(-5, 5) * g + rng.choice([0, 0, 1])
        full = rng.random() < 0.4
        ch = {'c': rng.choice(['add', 'sub']), 'xs': [d] * n if full else [d], 'sc': (not full) and rng.random() < 0.5}
    elif goal == 'scale':
        ch = {'c': 'mul', 'k': rng.choice([2, -1, -2, 3])}
    else:
        spread = max(2, n)
        ch = {'c': 'assign', 'xs': [lo + rng.randint(0, spread) * g for _ in range(n)], 'sc': False}
    new = expect_tchange(ps, ch)
    if new is None or max(abs(x) for x in new) >= BIG or max(abs(x) for x in ch.get('xs', [0])) >= BIG:
        ch = {'c': 'sort'}
    routes = [r for r in T_ROUTES[ch['c']] if (r != 'parent' or born_view) and (r != 'negative-out' or ch.get('k') == -1)]
    ch['route'] = rng.choice(routes)
    if ch['route'] == 'view-setitem':
        ch['lo'] = rng.randint(0, ch['i'])
    ch['ounit'] = rng.choice(UNITS)
    return ch


def gen_uoperand(rng, ax, derived, bare=False):
    """a shift or a ramp for + / - on the axis: (xs in ps, 0-d?, how the operand is written).  `bare`: python numbers /
    lists / float arrays only (the reflected operations `x + axis`, `x - axis` reach the axis only then: a time object on
    the left answers itself, with an ordinary time array)"""
    t0, dt, n, g = ax['t0'], ax['dt'], ax['n'], ax['g']
    f = FACTOR[ax['unit']]
    if rng.random() < 0.5:  # a shift: 0-d time object, python number in the axis unit, or a one-element array
        d = rng.choice([rng.randint(-5, 5) * g, dt, -dt, -t0, rng.randint(-3, 3) * dt + rng.choice([0, 1, -1])])
        form = 'pyint' if d % f == 0 and (bare or rng.random() < 0.4) else 'time'
        out = {'xs': [d], 'sc': form == 'pyint' or rng.random() < 0.7, 'form': form}
        if derived and (rng.random() < 0.3 or (bare and form == 'time')):
            r = {'k': 'pyfloat', 'v': float(Fr(d, f))}      # a bare float (ordinary arithmetic rounds it to whole base units)
            out = {'xs': rep_actual(r, ax['unit'])[0], 'sc': True, 'form': 'rep', 'rep': r}
        return out
    # a ramp: changes the interval (possibly its sign); one that cancels it would collapse the axis
    d = rng.choice([g, -g, dt, 2 * dt, -2 * dt, 2 * dt, -3 * dt, 3 * dt, -dt, dt, rng.randint(-4, 4) * g])
    s0 = rng.choice([0, 0, g, -t0, rng.randint(-3, 3) * g])
    ln = n if rng.random() < 0.9 else n + rng.choice([1, -1, 2])
    xs = [s0 + i * d for i in range(max(ln, 1))]      # (an empty time object cannot be built: constructor, C01)
    if len(xs) >= 3 and rng.random() < 0.08:
        xs[rng.randrange(1, len(xs))] += rng.choice([1, -1, g])     # not uniform
    out = {'xs': xs, 'sc': False, 'form': 'time'}
    if derived and (bare or rng.random() < 0.3):          # a bare list / float array in the axis unit
        r = gen_rep_arr(rng, xs, ax['unit'])
        if r['k'] == 'time' and bare:
            r = {'k': 'floatarr', 'v': [float(Fr(p, f)) for p in xs]}
        if r['k'] != 'time':
            out = {'xs': rep_actual(r, ax['unit'])[0], 'sc': False, 'form': 'rep', 'rep': r}
    return out


def gen_uchange(rng, ax, kind, derived=None):
    t0, dt, n, g = ax['t0'], ax['dt'], ax['n'], ax['g']
    k = rng.random()
    reach = (abs(t0) + (n + 1) * abs(dt)) * 8
    derived = rng.random() < 0.3 if derived is None else derived
    rroute, mroute = False, None
    if derived and rng.random() < 0.3:      # axis * k, k * axis, -axis
        kk = rng.choice([-1, -1, 2, -2, 3, 0])
        if reach * max(1, abs(kk)) >= LIM:
            kk = -1
        ch = {'c': 'umul', 'k': kk}
        mroute = 'derived-neg' if kk == -1 and rng.random() < 0.6 else rng.choice(['derived', 'derived-r'])
    elif derived:           # ordinary arithmetic: the result is a new axis, the old one stays
        c = rng.choice(['uadd', 'uadd', 'usub', 'ursub'])
        rroute = c == 'uadd' and rng.random() < 0.4
        ch = dict(gen_uoperand(rng, ax, True, bare=rroute or c == 'ursub'), c=c)
    elif k < 0.6:
        ch = dict(gen_uoperand(rng, ax, False), c=rng.choice(['uadd', 'usub']))
    elif k < 0.85:
        kk = rng.choice([-1, -1, 2, -2, 3, 0])
        if reach * max(1, abs(kk)) >= LIM:
            kk = -1
        ch = {'c': 'umul', 'k': kk}
    else:
        import math
        gd = math.gcd(abs(t0), abs(dt))
        good = [d for d in (2, -2, 4, 5, 10, -1, 3, 1000) if gd % abs(d) == 0]
        ch = {'c': 'udiv', 'k': rng.choice(good) if good and rng.random() < 0.8 else rng.choice([2, 3, 7, 0, -3])}
    r = expect_uchange(ax, ch)
    if r[0] == 'ok' and (abs(r[1]['t0']) + (n + 1) * abs(r[1]['dt'])) * 8 >= LIM:
        ch, derived = {'c': 'umul', 'k': -1}, False
    if derived:
        ch['route'] = mroute or ('derived-r' if rroute else 'derived')
    else:
        ch['route'] = 'op' if kind == 'uaxis' else rng.choice(['attr', 'alias'])
    ch['ounit'] = rng.choice(UNITS)
    return ch


def gen_derive(rng, nmax):
    """one-shot: axis ∘ x as a new object (uniform, non-uniform, collapsing and ill-shaped operands)"""
    ax = gen_axis(rng, nmax)
    ch = gen_uchange(rng, ax, 'uaxis', derived=True)
    if not ch['route'].startswith('derived'):
        ch = dict(gen_uoperand(rng, ax, True), c='uadd', route='derived', ounit='ps')
    return {'op': 'derive', 'kind': 'uaxis', 'axis': ax, 'd': ch}


def gen_hlook(rng, kind, cont):
    """a lookup on the container as it is now (description without the container)"""
    if kind in ('uaxis', 'series') and rng.random() < 0.25:
        ax = cont['axis']       # the time of EVERY sample (as one array query) must map to its own position
        st = {'op': 'index_at' if kind == 'uaxis' else 'at',
              'q': {'k': 'time', 'unit': rng.choice(UNITS), 'sc': False, 'ps': [ax['t0'] + i * ax['dt'] for i in range(ax['n'])]}}
    elif kind == 'tarray' and rng.random() < 0.45:
        t = cont['t']
        st = {'op': 'index_at', 'mode': rng.choice(['before', 'after']), 'q': gen_tquery(rng, t), 'tol': None}
    elif kind == 'tarray' and rng.random() < 0.3:
        st = {'op': rng.choice(['slice_during', 'during']), 'e': gen_tepoch(rng, cont['t'])}
    else:
        st = gen_step(rng, kind, cont)
    return {k: v for k, v in st.items() if k not in CONT_KEYS and k != 'kind'}


def gen_hist(rng, nmax):
    kind = rng.choice(['tarray', 'tarray', 'tarray', 'tarray', 'events', 'uaxis', 'uaxis', 'series'])
    m = {'op': 'hist', 'kind': kind}
    if kind in ('tarray', 'events'):
        while True:
            t = gen_tarray(rng, min(nmax, 20), sorted_=rng.random() < 0.75)
            if len(t['ps']) >= 2 or rng.random() < 0.1:
                break
        m['t'] = t
        if kind == 'events':
            m['vals'] = [[rng.randint(-99, 99) for _ in t['ps']] for _ in range(rng.randint(1, 2))]
        elif rng.random() < 0.12:       # the array is what `uniform axis + non-uniform operand` gives
            for _ in range(20):
                ax = gen_axis(rng, min(nmax, 20))
                c = rng.choice(['uadd', 'usub', 'ursub'])
                ch = dict(gen_uoperand(rng, ax, True, bare=c == 'ursub'), c=c, route='derived', ounit=rng.choice(UNITS))
                new = derive_samples(ax, ch)
                if ax['n'] >= 2 and new is not None and expect_uchange(ax, ch)[0] == 'err':
                    m['t'] = {'unit': ax['unit'], 'ps': new, 'g': ax['g']}
                    m['born'] = {'derive': ch, 'axis': ax}
                    break
        elif rng.random() < 0.25:       # the array is itself a view of a longer one
            g = t['g']
            m['born'] = {'pre': [min(t['ps']) - rng.randint(0, 3) * g for _ in range(rng.randint(0, 3))],
                         'post': [max(t['ps']) + rng.randint(0, 3) * g for _ in range(rng.randint(0, 3))]}
    else:
        ax = gen_axis(rng, min(nmax, 30))
        m['axis'] = ax
        if kind == 'series':
            m['data'] = gen_data(rng, ax['n'])
    cur = {k: m[k] for k in CONT_KEYS if k in m}
    steps = []
    if kind in ('uaxis', 'series') and rng.random() < 0.35:
        # the axis under study is BORN by ordinary arithmetic on another one
        ch = gen_uchange(rng, cur['axis'], kind, derived=True)
        r = expect_uchange(cur['axis'], ch)
        if r[0] == 'ok' and ch['route'].startswith('derived'):
            cur = dict(cur, axis=r[1])
            steps.append({'chg': ch})
    for _ in range(rng.choice([1, 1, 1, 2, 3])):
        for _ in range(rng.choice([0, 1, 1, 2, 3])):
            steps.append({'look': gen_hlook(rng, kind, cur)})
        for _ in range(rng.choice([1, 1, 2])):
            if kind in ('tarray', 'events'):
                ch = gen_tchange(rng, cur['t'], born_view='pre' in (m.get('born') or {}))
                new = expect_tchange(list(cur['t']['ps']), ch)
                if new is not None:
                    cur = dict(cur, t=dict(cur['t'], ps=new))
            else:
                ch = gen_uchange(rng, cur['axis'], kind)
                r = expect_uchange(cur['axis'], ch)
                if r[0] == 'ok':
                    cur = dict(cur, axis=r[1])
                elif ch['route'].startswith('derived'):
                    continue        # a refused operand makes a plain time array (one-shot `derive` cases, `born` arrays)
            steps.append({'chg': ch})
    if rng.random() < 0.6:
        for _ in range(rng.choice([1, 1, 2, 3])):
            steps.append({'side': gen_side(rng, kind)})
    for _ in range(rng.randint(2, 4)):
        steps.append({'look': gen_hlook(rng, kind, cur)})
        if rng.random() < 0.15:
            steps.append({'side': gen_side(rng, kind)})
    looks = [i for i, st in enumerate(steps) if 'look' in st]
    if rng.random() < 0.3 and looks:
        # an earlier lookup is asked again at the end with the SAME query / epoch / tolerance objects
        i = rng.choice(looks)
        lk = steps[i]['look']
        sh = {k: '%s%d' % (k.upper(), i) for k in ('q', 'e', 'tol') if lk.get(k) is not None}
        steps[i] = {'look': dict(lk, share=sh)}
        steps.append({'look': dict(lk, share=sh)})
    m['steps'] = steps
    return m


def gen_epochs_getitem(rng):
    n = rng.randint(2, 5)
    u = rng.choice(UNITS)
    g = FACTOR[u] >> rng.randint(0, min(V2[u], 3))
    top = max(1, min(20, LIM // g // 64))
    starts = [rng.randint(-top, top) * g for _ in range(n)]
    stops = [a + rng.randint(0, 9) * g for a in starts]        # unequal durations
    e = gen_epoch_args(rng, starts, stops, rng.choice([0, g, -g]), u)
    kk = rng.choice(['rev', 'list', 'list', 'array'])
    pos = list(range(n - 1, -1, -1)) if kk == 'rev' else [rng.randrange(n) for _ in range(rng.randint(1, 5))]
    return {'op': 'epochs_getitem', 'kind': 'epochs', 'e': e, 'keykind': kk, 'pos': pos, 'read_duration': rng.random() < 0.8}


def cases(rng, tier, seed):
    scale = {'quick': 1, 'thorough': 30}[tier]
    nmax = 50
    metas = []

    def add(m):
        metas.append(m)
    for _ in range(260 * scale):                      # uniform axis
        ax = gen_axis(rng, nmax)
        add({'op': 'index_at', 'kind': 'uaxis', 'axis': ax, 'q': gen_uquery(rng, ax, array=rng.random() < 0.3)})
        if rng.random() < 0.25:
            add({'op': 'index_at_bool', 'kind': 'uaxis', 'axis': ax, 'q': gen_uquery(rng, ax, array=rng.random() < 0.6)})
        e = gen_uepoch(rng, ax)
        add({'op': 'slice_during', 'kind': 'uaxis', 'axis': ax, 'e': e})
        if rng.random() < 0.4 and ax['dt'] > 0:
            add({'op': 'slice_during_cur', 'kind': 'uaxis', 'axis': ax, 'e': e})
        c = rng.random()
        if c < 0.3:
            add({'op': 'at', 'kind': 'uaxis', 'axis': ax, 'q': gen_uquery(rng, ax, array=rng.random() < 0.3)})
        elif c < 0.55:
            add({'op': 'during', 'kind': 'uaxis', 'axis': ax, 'e': gen_uepoch(rng, ax, array=rng.random() < 0.1)})
        elif c < 0.7:
            add({'op': 'getitem', 'kind': 'uaxis', 'axis': ax, 'key': 'int', 'k': rng.randint(-ax['n'] - 1, ax['n'])})
        elif c < 0.85:
            q = gen_uquery(rng, ax)
            if q['k'] != 'pyint':
                add({'op': 'getitem', 'kind': 'uaxis', 'axis': ax, 'key': 'q', 'q': q})
        else:
            add({'op': 'getitem', 'kind': 'uaxis', 'axis': ax, 'key': 'ep', 'e': gen_uepoch(rng, ax)})
    for _ in range(40 * scale):                       # duration-only axes
        ax = gen_axis(rng, nmax, duration_only=True)
        if ax['ctor'] != 'duration':
            continue
        q = gen_uquery(rng, ax)
        if rng.random() < 0.5:
            last = ax['t0'] + (ax['n'] - 1) * ax['dt']
            q = gen_rep(rng, rng.randint(last, last + ax['dt'] - 1), ax['unit'])
        add({'op': 'index_at', 'kind': 'uaxis', 'axis': ax, 'q': q})
        add({'op': 'index_at_cur', 'kind': 'uaxis', 'axis': ax, 'q': q})
        add({'op': 'slice_during', 'kind': 'uaxis', 'axis': ax, 'e': gen_uepoch(rng, ax)})
    for _ in range(230 * scale):                      # arbitrary time arrays
        t = gen_tarray(rng, nmax, sorted_=rng.random() < 0.4)
        mode = rng.choice(['closest', 'before', 'after'])
        add({'op': 'index_at', 'kind': 'tarray', 't': t, 'mode': mode, 'q': gen_tquery(rng, t, array=rng.random() < 0.2),
             'tol': gen_tol(rng, t) if mode == 'closest' else None})
        c = rng.random()
        if c < 0.4:
            add({'op': 'at', 'kind': 'tarray', 't': t, 'q': gen_tquery(rng, t, array=rng.random() < 0.15), 'tol': gen_tol(rng, t)})
        elif c < 0.6:
            add({'op': 'getitem', 'kind': 'tarray', 't': t, 'key': 'int', 'k': rng.randint(-len(t['ps']) - 1, len(t['ps']))})
        elif c < 0.8:
            f = FACTOR[t['unit']]
            add({'op': 'getitem', 'kind': 'tarray', 't': t, 'key': 'q', 'q': {'k': 'pyfloat', 'v': float(Fr(rng.choice(t['ps']) + rng.choice([0, 0, 1, -1, 2]), f))}})
        ts_ = gen_tarray(rng, nmax, sorted_=True)     # sorted (with duplicates) for epoch selection
        e = gen_tepoch(rng, ts_)
        add({'op': 'slice_during', 'kind': 'tarray', 't': ts_, 'e': e})
        if rng.random() < 0.4:
            add({'op': 'slice_during_cur', 'kind': 'tarray', 't': ts_, 'e': e})
        c = rng.random()
        if c < 0.3:
            add({'op': 'during', 'kind': 'tarray', 't': ts_, 'e': gen_tepoch(rng, ts_)})
        elif c < 0.5:
            add({'op': 'getitem', 'kind': 'tarray', 't': ts_, 'key': 'ep', 'e': gen_tepoch(rng, ts_)})
    for _ in range(170 * scale):                      # time series
        ax = gen_axis(rng, nmax)
        d = gen_data(rng, ax['n'])
        add({'op': 'at', 'kind': 'series', 'axis': ax, 'data': d, 'q': gen_uquery(rng, ax, array=rng.random() < 0.3)})
        add({'op': 'during', 'kind': 'series', 'axis': ax, 'data': d, 'e': gen_uepoch(rng, ax, array=rng.random() < 0.35)})
        c = rng.random()
        if c < 0.3:
            add({'op': 'getitem', 'kind': 'series', 'axis': ax, 'data': d, 'key': 'int', 'k': rng.randint(-ax['n'] - 1, ax['n'])})
        elif c < 0.6:
            q = gen_uquery(rng, ax, array=rng.random() < 0.3)
            if q['k'] == 'time':
                add({'op': 'getitem', 'kind': 'series', 'axis': ax, 'data': d, 'key': 'q', 'q': q})
        else:
            add({'op': 'getitem', 'kind': 'series', 'axis': ax, 'data': d, 'key': 'ep', 'e': gen_uepoch(rng, ax, array=rng.random() < 0.3)})
    for _ in range(130 * scale):                      # events
        t = gen_tarray(rng, 20, sorted_=True)
        vals = [[rng.randint(-99, 99) for _ in t['ps']] for _ in range(rng.randint(1, 3))]
        c = rng.random()
        if c < 0.3:
            add({'op': 'getitem', 'kind': 'events', 't': t, 'vals': vals, 'key': 'int', 'k': rng.randint(-len(t['ps']) - 1, len(t['ps']))})
        elif c < 0.6:
            f = FACTOR[t['unit']]
            add({'op': 'getitem', 'kind': 'events', 't': t, 'vals': vals, 'key': 'q',
                 'q': {'k': 'pyfloat', 'v': float(Fr(rng.choice(t['ps']) + rng.choice([0, 0, 1, -1, 2, 5]), f))}})
        else:
            add({'op': 'getitem', 'kind': 'events', 't': t, 'vals': vals, 'key': 'ep', 'e': gen_tepoch(rng, t)})
    for _ in range(150 * scale):                      # the Epochs constructor itself
        if rng.random() < 0.5:
            add({'op': 'epochs', 'kind': 'epochs', 'e': gen_bad_epoch(rng)})
        else:
            ax = gen_axis(rng, 10)
            add({'op': 'epochs', 'kind': 'epochs', 'e': gen_uepoch(rng, ax, array=rng.random() < 0.5)})
    for _ in range(320 * scale):                      # arguments / containers unchanged and reusable
        add(gen_seq(rng, nmax))
    for _ in range(60 * scale):                       # Epochs[key] with reordering / repeating keys
        add(gen_epochs_getitem(rng))
    for _ in range(500 * scale):                      # histories: lookups, in-place changes by every route, lookups again
        add(gen_hist(rng, nmax))
    for _ in range(150 * scale):                      # axis + x, x - axis, … as new objects
        add(gen_derive(rng, 30))
    for _ in range(220 * scale):                      # class L8: programs over several live objects (series sharing / not sharing axis objects)
        add(gen_share(rng))
    for u_, iv_ in (('D', 4050000000000000), ('h', 4050000000000000), ('W', 4725000000000000)):
        # finding 6 (fixed 53d4d93): the result of `during` keeps the source's exact interval (67.5 min: the binary64 rate gave 1 ps more); lookups ON the result
        ax_ = {'unit': u_, 't0': 0, 'dt': iv_, 'n': 6, 'ctor': 'length', 'g': iv_ // 6}
        d_ = {'shape': [6], 'vals': [10, 11, 12, 13, 14, 15]}
        ep_ = {'unit': 'ps', 't0': None, 'stop': {'k': 'time', 'unit': 'ps', 'sc': True, 'ps': [4 * iv_]}, 'offset': None,
               'start': {'k': 'time', 'unit': 'ps', 'sc': True, 'ps': [0]}, 'duration': None}
        q_ = {'k': 'time', 'unit': 'ps', 'sc': False, 'ps': [0, iv_, 2 * iv_, 3 * iv_]}
        add({'op': 'share', 'kind': 'share', 'axis': ax_, 'cmds': [{'c': 'N', 'ax': 0, 'data': d_}, {'c': 'D', 'sid': 0, 'e': ep_},
                                                                  {'c': 'L', 'sid': 1, 'look': {'op': 'at', 'q': q_}}, {'c': 'T', 'sid': 1}]})
    out, skipped = [], 0
    for m in CORPUS + metas:
        c = run_case(dict(m))
        if c is None:
            skipped += 1
        else:
            out.append(c)
    cases.skipped = skipped
    return out


def _T(unit, ps):
    return {'unit': unit, 'ps': ps, 'g': 1}


def _num(v):
    return {'k': 'pyint', 'v': v} if isinstance(v, int) else {'k': 'pyfloat', 'v': v}


def _E(unit='s', **kw):
    e = {'unit': unit, 't0': None, 'stop': None, 'offset': None, 'start': None, 'duration': None}
    e.update({k: _num(v) for k, v in kw.items()})
    return e


S = 10**12
_AX = {'unit': 's', 't0': 0, 'dt': 3 * S, 'n': 4, 'ctor': 'duration', 'D': 10 * S, 'g': S}
_AXL = {'unit': 'ms', 't0': -3 * 10**9, 'dt': 2 * 10**9, 'n': 5, 'ctor': 'length', 'g': 10**9}
_AXM = {'unit': 'ms', 't0': 0, 'dt': 2 * 10**9, 'n': 4, 'ctor': 'length', 'g': 10**9}
_AXM2 = {'unit': 'ms', 't0': 2 * 10**9, 'dt': 2 * 10**9, 'n': 4, 'ctor': 'length', 'g': 10**9}
_TIMES2 = {'c': 'umul', 'k': 2, 'route': 'derived', 'ounit': 'ms'}
_PLUS5 = {'c': 'uadd', 'xs': [5 * 10**9], 'sc': True, 'form': 'pyint', 'route': 'derived', 'ounit': 'ms'}


def _TQ(ps, sc):
    return {'k': 'time', 'unit': 'ms', 'sc': sc, 'ps': ps}


CORPUS = [   # minimal inputs of the recorded findings + boundary cases, run first on every run
    {'op': 'slice_during', 'kind': 'tarray', 't': _T('s', [S, S, 2 * S]), 'e': _E(start=1, stop=1.5)},
    {'op': 'slice_during_cur', 'kind': 'tarray', 't': _T('s', [S, S, 2 * S]), 'e': _E(start=1, stop=1.5)},
    {'op': 'slice_during', 'kind': 'tarray', 't': _T('s', [S, 2 * S, 2 * S, 3 * S]), 'e': _E(start=1, stop=2)},
    {'op': 'slice_during', 'kind': 'tarray', 't': _T('s', [S, 2 * S, 2 * S, 3 * S]), 'e': _E(start=2, stop=3)},
    {'op': 'index_at', 'kind': 'uaxis', 'axis': _AX, 'q': _num(10.5)},
    {'op': 'index_at_cur', 'kind': 'uaxis', 'axis': _AX, 'q': _num(10.5)},
    {'op': 'slice_during', 'kind': 'uaxis', 'axis': _AXL, 'e': _E('ms', start=-4, stop=2)},
    {'op': 'slice_during_cur', 'kind': 'uaxis', 'axis': _AXL, 'e': _E('ms', start=-4, stop=2)},
    {'op': 'slice_during', 'kind': 'uaxis', 'axis': _AXL, 'e': _E('ms', start=-3, stop=7)},
    {'op': 'slice_during', 'kind': 'uaxis', 'axis': _AXL, 'e': _E('ms', start=-3, stop=2)},
    {'op': 'during', 'kind': 'series', 'axis': _AXL, 'data': {'shape': [2, 5], 'vals': list(range(10))}, 'e': _E('ms', start=1, stop=8)},
    {'op': 'getitem', 'kind': 'events', 't': _T('s', [S, S, 2 * S, 5 * S]), 'vals': [[10, 20, 30, 40]], 'key': 'ep', 'e': _E(start=1, stop=1.5)},
    # axes made by ordinary arithmetic (finding 4): v = u + 5; v.index_at(v[1]); 5 - u; a series on v
    {'op': 'derive', 'kind': 'uaxis', 'axis': _AXM, 'd': dict(_PLUS5)},
    {'op': 'derive', 'kind': 'uaxis', 'axis': _AXM, 'd': dict(_PLUS5, c='ursub')},
    {'op': 'hist', 'kind': 'uaxis', 'axis': _AXM, 'steps': [{'chg': dict(_PLUS5)}, {'look': {'op': 'index_at', 'q': _TQ([7 * 10**9], True)}},
                                                            {'look': {'op': 'index_at', 'q': _TQ([5 * 10**9, 7 * 10**9, 9 * 10**9, 11 * 10**9], False)}},
                                                            {'look': {'op': 'slice_during', 'e': _E('ms', start=5, stop=8)}}]},
    {'op': 'hist', 'kind': 'series', 'axis': _AXM, 'data': {'shape': [4], 'vals': [0, 1, 2, 3]},
     'steps': [{'chg': dict(_PLUS5)}, {'look': {'op': 'at', 'q': _TQ([7 * 10**9], True)}}, {'look': {'op': 'during', 'e': _E('ms', start=5, stop=8)}}]},
    # finding 5: u * 2, 2 * u, -u
    {'op': 'derive', 'kind': 'uaxis', 'axis': _AXM2, 'd': dict(_TIMES2)},
    {'op': 'derive', 'kind': 'uaxis', 'axis': _AXM2, 'd': dict(_TIMES2, route='derived-r')},
    {'op': 'derive', 'kind': 'uaxis', 'axis': _AXM2, 'd': dict(_TIMES2, k=-1, route='derived-neg')},
    {'op': 'derive', 'kind': 'uaxis', 'axis': _AXM2, 'd': dict(_TIMES2, k=0)},
    {'op': 'hist', 'kind': 'uaxis', 'axis': _AXM2, 'steps': [{'chg': dict(_TIMES2)}, {'look': {'op': 'index_at', 'q': _TQ([8 * 10**9], True)}},
                                                             {'look': {'op': 'index_at', 'q': _TQ([4 * 10**9, 8 * 10**9, 12 * 10**9, 16 * 10**9], False)}}]},
    {'op': 'hist', 'kind': 'uaxis', 'axis': _AXM2, 'steps': [{'chg': dict(_TIMES2, k=-1, route='derived-neg')}, {'look': {'op': 'index_at', 'q': _TQ([-4 * 10**9], True)}},
                                                             {'look': {'op': 'slice_during', 'e': _E('ms', start=-6, stop=-2)}}]},
    # a sorted array, looked up, negated in place, looked up again (seeded change C03-6 and its class)
    {'op': 'hist', 'kind': 'tarray', 't': _T('s', [S, 2 * S, 3 * S, 4 * S]),
     'steps': [{'look': {'op': 'index_at', 'mode': 'before', 'q': _num(2.5), 'tol': None}}, {'chg': {'c': 'mul', 'k': -1, 'route': 'imul', 'ounit': 'ps'}},
               {'look': {'op': 'index_at', 'mode': 'before', 'q': _num(-2.5), 'tol': None}}, {'look': {'op': 'index_at', 'mode': 'after', 'q': _num(-2.5), 'tol': None}}]},
]


def oracle(rng, tier, seed, focus, cases=None):
    fails, n = [], 0
    for c in (cases or []):
        if c.meta:
            n += 1
            f = check_case(c)
            if f:
                fails.append(f)
    keys = {}
    for f in fails:
        keys[f.key] = keys.get(f.key, 0) + 1
    return fails, {'judged': n, 'failed': len(fails), 'focus': len(focus), 'by_key': keys,
                   'containers_skipped_not_exact': getattr(globals()['cases'], 'skipped', 0)}


def replay(d):
    c = run_case(dict(d['meta']))
    if c is None:
        return None
    return check_case(c)
