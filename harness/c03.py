"""C03 — indexing by time agrees with indexing by sample position.

Correspondence: index_at / slice_during / at / during / __getitem__ of UniformTime, TimeArray,
TimeSeries, Events and the Epochs constructor on the real classes vs the Lean model `Nitime.C03`
(exact integer picoseconds; the model follows the INTENDED behaviour, see notes/C03.md).
Oracle (independent of the Lean model): brute force over sample positions with python ints /
Fractions.
"""
from fractions import Fraction as Fr
import numpy as np
from common import Case, Failure, f2x, call

PID = 'C03'
LEAN_TARGETS = ['Nitime.Props.C03']
RULE = ('(container, query/epoch) pairs from one PRNG state: uniform axes (all 9 units, t0 of both signs, lengths 1..50, exact-picosecond '
        'parameters), sorted/unsorted time arrays with duplicates, 1-/2-/3-d integer series data, event collections; queries on / between / '
        'before / after samples given as time objects in another unit, python ints, floats, arrays; epochs inside, between samples, partly and '
        'wholly outside, scalar and 1-d, all constructor forms; distinct = distinct protocol line; non-trivial = container with >= 2 samples')
ASSUMPTIONS = ['uniform axes are built with parameters that are exact in picoseconds (checked on the real object; C02 owns the inexact ones)',
               'magnitudes stay below 2^61 ps', 'no in-place shifts before a lookup (C17)',
               'sampling interval/rate of the TimeSeries returned by `during` is not compared (C02: Frequency.to_period)']
TRUSTED_EXTRA = ['numpy semantics modelled, not verified: np.where, argmax/argmin (first extremum), floor_divide on int64, fancy/slice indexing on the last axis, '
                 'np.array refusing ragged blocks (ValueError)',
                 'bare-number queries are read through the C01 constructor model (rint(fmul x factor)); the oracle recomputes them with hardware binary64 + Fractions']

UNITS = ['ps', 'ns', 'us', 'ms', 's', 'm', 'h', 'D', 'W']
FACTOR = {'ps': 1, 'ns': 10**3, 'us': 10**6, 'ms': 10**9, 's': 10**12, 'm': 60 * 10**12,
          'h': 3600 * 10**12, 'D': 86400 * 10**12, 'W': 604800 * 10**12}
V2 = {'ps': 0, 'ns': 3, 'us': 6, 'ms': 9, 's': 12, 'm': 14, 'h': 16, 'D': 19, 'W': 19}
LIM = 2**61


def ts():
    import nitime.timeseries as t
    return t


# ------------------------------------------------------------------ representations of instants
def bare_ps(v, unit):
    """what `TimeArray(v, time_unit=unit)` denotes for one bare number, computed with hardware
    binary64 and Fractions (independent of the Lean model)"""
    f = FACTOR[unit or 's']
    if isinstance(v, int):
        return v * f
    return int(round(Fr(float(v) * float(f))))      # round(Fraction) is half-to-even


def rep_actual(r, unit):
    """(list of ps, 0-d?) denoted by a representation read in `unit`"""
    k = r['k']
    if k == 'time':
        return list(r['ps']), r['sc']
    if k in ('pyint', 'pyfloat'):
        return [bare_ps(r['v'], unit)], True
    if k == 'intlist':
        return [bare_ps(v, unit) for v in r['v']], False
    if k == 'floatarr':
        return [bare_ps(float(v), unit) for v in r['v']], False
    raise ValueError(k)


def rep_tok(r):
    if r is None:
        return '_'
    k = r['k']
    if k == 'time':
        return 'T:%s:%s:%s' % (r['unit'], '1' if r['sc'] else '0', ','.join(str(p) for p in r['ps']) if r['ps'] else '-')
    if k == 'pyint':
        return 'N:1:i%d' % r['v']
    if k == 'pyfloat':
        return 'N:1:' + f2x(r['v'])
    if k == 'intlist':
        return 'N:0:' + ','.join('i%d' % v for v in r['v'])
    if k == 'floatarr':
        return 'N:0:' + ','.join(f2x(v) for v in r['v'])


def mk_T(unit, scalar, ps):
    T = ts().TimeArray
    t = T(np.int64(ps[0]), time_unit='ps') if scalar else T(np.array(ps, dtype=np.int64), time_unit='ps')
    t.convert_unit(unit)
    return t


def rep_build(r):
    k = r['k']
    if k == 'time':
        return mk_T(r['unit'], r['sc'], r['ps'])
    if k == 'pyint':
        return int(r['v'])
    if k == 'pyfloat':
        return float(r['v'])
    if k == 'intlist':
        return [int(v) for v in r['v']]
    if k == 'floatarr':
        return np.array(r['v'], dtype=np.float64)


def gen_rep(rng, p, unit, kinds=('time', 'pyint', 'pyfloat')):
    """a scalar representation aiming at the instant p (ps), bare numbers being read in `unit`"""
    f = FACTOR[unit or 's']
    k = rng.choice(kinds)
    if k == 'pyint' and p % f == 0:
        return {'k': 'pyint', 'v': p // f}
    if k == 'pyfloat' or (k == 'pyint' and rng.random() < 0.5):
        return {'k': 'pyfloat', 'v': float(Fr(p, f))}
    return {'k': 'time', 'unit': rng.choice(UNITS), 'sc': True, 'ps': [p]}


def gen_rep_arr(rng, ps, unit):
    f = FACTOR[unit or 's']
    k = rng.choice(['time', 'intlist', 'floatarr'])
    if k == 'intlist' and all(p % f == 0 for p in ps):
        return {'k': 'intlist', 'v': [p // f for p in ps]}
    if k == 'floatarr':
        return {'k': 'floatarr', 'v': [float(Fr(p, f)) for p in ps]}
    return {'k': 'time', 'unit': rng.choice(UNITS), 'sc': False, 'ps': list(ps)}


# ------------------------------------------------------------------ containers
def gen_axis(rng, nmax, duration_only=False):
    u = rng.choice(UNITS)
    f = FACTOR[u]
    while True:
        k = rng.randint(0, min(V2[u], 12))
        g = f >> k
        cap = LIM // (g * 8 * (nmax + 1))
        if cap >= 1:
            break
    m = rng.randint(1, max(1, min(12, cap // 4)))
    dt = m * g
    n = rng.choice([1, 1, 2, 2, 3, 5]) if rng.random() < 0.25 else rng.randint(1, nmax)
    span = max(1, min(40, cap))
    c = rng.random()
    t0 = 0 if c < 0.2 else rng.randint(-span, span) * g
    if c > 0.8:
        t0 = -rng.randint(0, n) * dt + rng.choice([0, g])     # straddles zero
    ax = {'unit': u, 't0': t0, 'dt': dt, 'n': n, 'ctor': 'length', 'g': g}
    if not duration_only and rng.random() < 0.13:
        # a reversed axis (negative sampling interval), born as HEAD allows: a negative `sampling_interval`,
        # `axis *= -1`, or `+=` with a descending ramp
        ax.update(dt=-dt, t0=t0 + rng.choice([0, 0, (n - 1) * dt]), how=rng.choice(['negative-interval', 'imul', 'ramp']))
    if duration_only:
        # duration is not a multiple of the interval: n = ceil(D/dt) samples
        if dt < 2:
            dt = ax['dt'] = 2 * dt if dt * 2 * (nmax + 1) * 8 < LIM else dt
        if dt < 2:
            return ax
        r = rng.choice([1, dt // 2, dt - 1, max(1, (dt // g // 2) * g)])
        r = min(max(1, r), dt - 1)
        ax.update(ctor='duration', D=(n - 1) * dt + r)
    return ax


def num_arg(p, f):
    """an instant/extent p (ps) as a bare number in the unit with factor f"""
    return p // f if p % f == 0 else float(Fr(p, f))


def build_axis(ax):
    """the real UniformTime, or None when its parameters turn out not to be exact in ps"""
    U = ts().UniformTime
    f = FACTOR[ax['unit']]
    how = ax.get('how', 'negative-interval')
    if ax['ctor'] == 'length' and ax['dt'] < 0 and how == 'imul':
        a = U(length=ax['n'], sampling_interval=num_arg(-ax['dt'], f), t0=num_arg(-ax['t0'], f), time_unit=ax['unit'])
        a *= -1
    elif ax['ctor'] == 'length' and ax['dt'] < 0 and how == 'ramp' and ax['n'] >= 2:
        a = U(length=ax['n'], sampling_interval=num_arg(-ax['dt'], f), t0=num_arg(ax['t0'], f), time_unit=ax['unit'])
        a += ts().TimeArray(np.array([2 * i * ax['dt'] for i in range(ax['n'])], dtype=np.int64), time_unit='ps')
    elif ax['ctor'] == 'length':
        a = U(length=ax['n'], sampling_interval=num_arg(ax['dt'], f), t0=num_arg(ax['t0'], f), time_unit=ax['unit'])
    else:
        a = U(duration=num_arg(ax['D'], f), sampling_interval=num_arg(ax['dt'], f), t0=num_arg(ax['t0'], f), time_unit=ax['unit'])
    want = [ax['t0'] + i * ax['dt'] for i in range(ax['n'])]
    if [int(v) for v in np.asarray(a)] != want or int(a.sampling_interval) != ax['dt'] or int(a.t0) != ax['t0']:
        return None
    if ax['ctor'] == 'length' and int(a.duration) != ax['n'] * ax['dt']:
        return None
    return a


def axis_tok(ax, a):
    return 'U:%s:%d:%d:%d:%d' % (ax['unit'], ax['t0'], ax['dt'], ax['n'], int(a.duration))


def gen_tarray(rng, nmax, sorted_=True):
    u = rng.choice(UNITS)
    # grids up to beyond 2^53 ps (odd multiples: not representable in binary64), so that a regression to
    # float arithmetic on instants shows up
    g = rng.choice([1, 1, 7, 10**3, 10**9, 5 * 10**11, 10**12, 2**53 + 1, 10**16 + 1])
    n = rng.choice([1, 2, 2, 3, 3, 4]) if rng.random() < 0.35 else rng.randint(1, nmax)
    spread = max(2, int(n * rng.choice([0.3, 0.6, 1.0, 3.0])))
    base = rng.randint(-spread, spread)
    ps = [(base + rng.randint(0, spread)) * g for _ in range(n)]
    if sorted_:
        ps.sort()
    return {'unit': u, 'ps': ps, 'g': g}


def tarr_tok(t):
    return 'T:%s:0:%s' % (t['unit'], ','.join(str(p) for p in t['ps']) if t['ps'] else '-')


def gen_data(rng, n):
    lead = rng.choice([(), (), (2,), (3,), (1,), (2, 2), (3, 2)])
    size = int(np.prod(lead + (n,)))
    vals = [rng.randint(-1000, 1000) for _ in range(size)]
    return {'shape': list(lead + (n,)), 'vals': vals}


def data_tok(d):
    n = d['shape'][-1]
    rows = int(np.prod(d['shape'][:-1])) if len(d['shape']) > 1 else 1
    return 'D:%d:%d:%s' % (rows, n, ','.join(str(v) for v in d['vals']) if d['vals'] else '-')


def data_rows(d):
    n = d['shape'][-1]
    rows = int(np.prod(d['shape'][:-1])) if len(d['shape']) > 1 else 1
    return [d['vals'][r * n:(r + 1) * n] for r in range(rows)]


def build_series(ax, d):
    f = FACTOR[ax['unit']]
    s = ts().TimeSeries(np.array(d['vals'], dtype=np.int64).reshape(d['shape']), t0=num_arg(ax['t0'], f),
                        sampling_interval=num_arg(ax['dt'], f), time_unit=ax['unit'])
    want = [ax['t0'] + i * ax['dt'] for i in range(ax['n'])]
    if [int(v) for v in np.asarray(s.time)] != want or int(s.time.duration) != ax['n'] * ax['dt']:
        return None
    return s


# ------------------------------------------------------------------ epochs
def gen_epoch_args(rng, start, stop, offset, unit, scalar=True):
    """constructor arguments denoting the epoch(s) [start, stop) with the given offset.
    start/stop are ints (scalar epoch) or equally long lists"""
    form = rng.choice(['start-stop', 'start-duration', 't0-offset-duration', 't0-offset-stop', 't0-duration'])
    if form == 't0-duration':
        offset = 0
    e = {'unit': unit, 't0': None, 'stop': None, 'offset': None, 'start': None, 'duration': None}

    def r(p):
        if isinstance(p, list):
            return gen_rep_arr(rng, p, unit)
        return gen_rep(rng, p, unit)
    if form.startswith('start'):
        e['start'] = r(start)
        if offset and rng.random() < 0.5:
            e['offset'] = gen_rep(rng, offset, unit)
        elif offset:
            offset = 0
    else:
        e['t0'] = r([s + offset for s in start] if isinstance(start, list) else start + offset)
        if form != 't0-duration':
            e['offset'] = gen_rep(rng, offset, unit)
    if form.endswith('stop'):
        e['stop'] = r(stop)
    else:
        if isinstance(start, list):
            durs = [b - a for a, b in zip(start, stop)]
            e['duration'] = gen_rep(rng, durs[0], unit) if len(set(durs)) == 1 and rng.random() < 0.6 else r(durs)
        else:
            e['duration'] = r(stop - start)
    return e


def epoch_actual(e):
    """independent evaluation of the constructor arguments: ('ok', starts, stops, scalar, offset, unit) or ('err', kind)"""
    u = e['unit']

    def val(name):
        r = e[name]
        return None if r is None else rep_actual(r, u)

    def unit_of(name):
        r = e[name]
        return u or (r['unit'] if r['k'] == 'time' else 's')
    t0, stop, off, start, dur = (val(k) for k in ('t0', 'stop', 'offset', 'start', 'duration'))
    if t0 is None and start is None:
        return ('err', 'ValueError')
    if (stop is None) == (dur is None):
        return ('err', 'ValueError')
    if off is None:
        off = ([0], True)
    if not off[1]:
        return ('err', 'ValueError')

    def bcast(a, b, fn):
        (x, sx), (y, sy) = a, b
        if len(x) == len(y):
            return [fn(p, q) for p, q in zip(x, y)], sx and sy
        if len(x) == 1:
            return [fn(x[0], q) for q in y], False
        if len(y) == 1:
            return [fn(p, y[0]) for p in x], False
        return None
    if start is None:
        st = bcast(t0, off, lambda a, b: a - b)
        eu = unit_of('t0')
    else:
        st = start
        eu = unit_of('start')
    if stop is None:
        sp = bcast(st, dur, lambda a, b: a + b)
        if sp is None:
            return ('err', 'ValueError')
    else:
        sp = stop
    if st[1] != sp[1] or len(st[0]) != len(sp[0]):
        return ('err', 'ValueError')
    return ('ok', st[0], sp[0], st[1], off[0][0], eu)


def epoch_toks(e):
    return ' '.join([e['unit'] or 'none'] + ['_' if e[k] is None else rep_tok(e[k]) for k in ('t0', 'stop', 'offset', 'start', 'duration')])


def build_epoch(e):
    kw = {k: rep_build(e[k]) for k in ('t0', 'stop', 'offset', 'start', 'duration') if e[k] is not None}
    return ts().Epochs(time_unit=e['unit'], **kw)


def gen_span(rng, lo, hi, g, times):
    """an interval [a, b) placed relative to the container's range [lo, hi] (granule g)"""
    w = max(hi - lo, g)
    c = rng.random()

    def pt(inside=False):
        k = rng.random()
        if times and k < 0.45:
            p = rng.choice(times) + rng.choice([0, 0, 0, 1, -1, g // 2, -(g // 2)])
        elif inside:
            p = rng.randint(lo, max(lo, hi - 1))
        else:
            p = lo + rng.randint(-w // 4 - g, w + w // 4 + g)
        return min(max(p, lo), max(lo, hi - 1)) if inside else p
    if c < 0.55:
        a, b = sorted([pt(True), pt(True)])
    elif c < 0.65:      # between two samples / empty
        a = pt()
        b = a + rng.choice([0, 1, max(1, g // 3)])
    elif c < 0.75:      # starts before the container
        a, b = lo - rng.randint(1, w // 2 + g), pt()
    elif c < 0.85:      # reaches or passes the end
        a, b = pt(), hi + rng.choice([0, 1, g, rng.randint(0, w // 2 + g)])
    elif c < 0.9:       # wholly outside
        a = hi + rng.randint(1, w + g) if rng.random() < 0.5 else lo - 2 * w - 2 * g
        b = a + rng.randint(1, w + g)
    elif c < 0.95:      # everything
        a, b = lo - rng.randint(0, g), hi + rng.randint(1, g + 1)
    else:               # reversed
        b, a = sorted([pt(), pt()])
    return a, b


# ------------------------------------------------------------------ canonicalisation
def ilist(v):
    v = [int(x) for x in v]
    return ','.join(str(x) for x in v) if v else '-'


def canon_T(t):
    a = np.asarray(t)
    if not isinstance(t, ts().TimeInterface):
        return 'not-a-time-object:%s' % type(t).__name__
    if a.ndim > 1:
        return 'ndim%d' % a.ndim
    if a.dtype != np.int64:
        return 'dtype:%s' % a.dtype
    return 'ok T:%s:%s:%s' % (t.time_unit, '1' if a.ndim == 0 else '0', ilist(a.reshape(-1)))


def canon_idx(r):
    if isinstance(r, ts().TimeInterface):
        return 'time-object-returned'
    a = np.asarray(r)
    if a.dtype.kind not in 'iu':
        return 'dtype:%s' % a.dtype
    return ('ok i:%d' % int(a)) if a.ndim == 0 else 'ok a:' + ilist(a)


def canon_slice(sl, n):
    if not isinstance(sl, slice):
        return 'not-a-slice:%s' % type(sl).__name__
    return 'ok P:' + ilist(range(*sl.indices(n)))


def canon_data(r, ne, k):
    a = np.asarray(r)
    if a.dtype.kind not in 'iu':
        return 'dtype:%s' % a.dtype
    return 'D:%s:%s:%s' % (ne, k, ilist(a.reshape(-1)))


def canon_events(ev):
    keys = sorted(ev.data)
    return 'ok EV:%s:%s' % (ev.time_unit, ilist(np.asarray(ev.time))) + ''.join('|' + ilist(ev.data[k]) for k in keys)


# ------------------------------------------------------------------ brute-force expectations (oracle side)
def in_bin(ax, i, t):
    """the bin convention, stated explicitly: on a forward axis sample i owns [t_i, t_i + dt); on a reversed axis
    (dt < 0) it owns (t_i + dt, t_i] — the instants at or before the sample and after the next (earlier) one"""
    ti = ax['t0'] + i * ax['dt']
    return ti <= t < ti + ax['dt'] if ax['dt'] > 0 else ti + ax['dt'] < t <= ti


def exp_uniform_index(ax, q, sc, end=None):
    end = ax['t0'] + ax['n'] * ax['dt'] if end is None else end
    out = []
    for t in q:
        if not ((ax['t0'] <= t < end) if ax['dt'] > 0 else (end < t <= ax['t0'])):
            return 'err ValueError', None
        hit = [i for i in range(ax['n']) if in_bin(ax, i, t)]
        out.append(hit[0])
    return (('ok i:%d' % out[0]) if sc else 'ok a:' + ilist(out)), out


def positions(times, a, b):
    return [i for i, t in enumerate(times) if a <= t < b]


def exp_tarray_index(tsl, mode, q, tol):
    n = len(tsl)
    if len(q) == 1:
        q = q * n
    elif len(q) != n:
        return 'err ValueError', None
    if mode == 'closest':
        hit = [i for i in range(n) if abs(tsl[i] - q[i]) <= tol]
        return 'ok a:' + ilist(hit), hit
    if mode == 'before':
        cand = [i for i in range(n) if tsl[i] <= q[i]]
        best = max([tsl[i] for i in cand], default=None)
    else:
        cand = [i for i in range(n) if q[i] <= tsl[i]]
        best = min([tsl[i] for i in cand], default=None)
    if not cand:
        return 'ok a:-', []
    ok = [i for i in cand if tsl[i] == best]
    return 'ok i:%d' % ok[0], ok


# ------------------------------------------------------------------ one case from its description
def snap(o):
    """a bit-for-bit description of an argument / container object (hashable, comparable)"""
    t = ts()
    if o is None or isinstance(o, (bool, int, float, str)):
        return (type(o).__name__, repr(o))
    if isinstance(o, (list, tuple)):
        return (type(o).__name__,) + tuple(snap(x) for x in o)
    if isinstance(o, t.Epochs):
        d = o.__dict__
        # one-time properties (`duration`) may be computed and cached by a lookup: that is not a change of the
        # argument; a value cached BEFORE the lookup must still be the same afterwards (see `differs`)
        return ('Epochs', o.data.dtype.str, o.data.shape, np.asarray(o.data).tobytes(), o.time_unit, snap(o.offset),
                tuple(sorted(k for k in d if k != 'duration')), ('cache', snap(d['duration']) if 'duration' in d else None))
    if isinstance(o, t.TimeSeries):
        d = o.__dict__
        return ('TimeSeries', snap(np.asarray(o.data)), o.time_unit, snap(o.t0), snap(o.sampling_interval), snap(o.duration),
                repr(float(o.sampling_rate)), ('cache', snap(d['time']) if 'time' in d else None))
    if isinstance(o, t.Events):
        return ('Events', snap(o.time), o.time_unit, tuple((k, snap(o.data[k])) for k in sorted(o.data)))
    if isinstance(o, np.ndarray):
        extra = ()
        if isinstance(o, t.TimeInterface):
            extra = (getattr(o, 'time_unit', None), getattr(o, '_conversion_factor', None))
        if isinstance(o, t.UniformTime):
            extra += tuple(snap(np.asarray(getattr(o, a))) if hasattr(o, a) and a != 'sampling_rate' else repr(float(getattr(o, a, 0.0)))
                           for a in ('t0', 'sampling_interval', 'duration', 'sampling_rate'))
        return (type(o).__name__, o.dtype.str, o.shape, np.asarray(o).tobytes()) + extra
    return (type(o).__name__, repr(o))


def differs(before, after):
    """snapshots differ; a `('cache', None)` entry (one-time property not yet computed) may become computed"""
    if isinstance(before, tuple) and isinstance(after, tuple):
        if len(before) == 2 and before[0] == 'cache' and len(after) == 2 and after[0] == 'cache':
            return before[1] is not None and differs(before[1], after[1])
        if len(before) != len(after):
            return True
        return any(differs(b, a) for b, a in zip(before, after))
    return before != after


class Args:
    """argument / container objects of one lookup: built once (shared across the steps of a sequence when
    the description says so), snapshotted before the lookup, compared after it"""

    def __init__(self, m, pool):
        self.share, self.pool, self.seen = m.get('share') or {}, pool, {}

    def get(self, name, build):
        key = self.share.get(name)
        if key is None:
            o = build()
        else:
            if key not in self.pool:
                self.pool[key] = build()
            o = self.pool[key]
        if name not in self.seen:
            self.seen[name] = (o, snap(o))
        return o

    def changed(self):
        return sorted(name for name, (o, before) in self.seen.items() if differs(before, snap(o)))


def run_case(m, pool=None):
    """build the real objects from the JSON-able description `m`, run the operation, return the Case
    (None when the container cannot be built exactly — not C03's business).  Every argument object and the
    container are snapshotted around the lookup; `m['mutated']` names those that changed."""
    if m['op'] == 'seq':
        return run_seq(m)
    A = Args(m, {} if pool is None else pool)
    c = _run_case(m, A)
    if c is not None:
        m['mutated'] = A.changed()
    return c


def run_seq(m):
    """a sequence of lookups sharing argument objects / containers as the steps' `share` maps say"""
    pool, subs = {}, []
    for sm in m['steps']:
        c = run_case(sm, pool)
        if c is None:
            return None
        sm['_impl'], sm['_line'], sm['_clause'] = c.impl, c.line, c.clause
        subs.append(c)
    return Case('C03 seq ' + ' ; '.join(c.line[4:] for c in subs), ' ; '.join(c.impl for c in subs),
                'seq/' + m['seqkind'], meta=m, nontrivial=all(c.nontrivial for c in subs))


def epoch_canon(e, with_duration=False):
    s = 'ok E:%s:%s:%s:%s:%d' % (e.time_unit, '1' if e.data.ndim == 0 else '0', ilist(np.asarray(e.start).reshape(-1)),
                                 ilist(np.asarray(e.stop).reshape(-1)), int(e.offset))
    return s + ':' + ilist(np.asarray(e.duration).reshape(-1)) if with_duration else s


def _run_case(m, A):
    t = ts()
    op, kind = m['op'], m['kind']
    if op == 'epochs_getitem':
        def f():
            e = A.get('e', lambda: build_epoch(m['e']))
            if m.get('read_duration', True):
                e.duration                      # the one-time property is computed (and cached) before the selection
            key = {'rev': slice(None, None, -1), 'list': list(m['pos']), 'array': np.array(m['pos'], dtype=np.int64)}[m['keykind']]
            return epoch_canon(e[key], with_duration=True)
        return Case('C03 epochs_getitem %s %s' % (epoch_toks(m['e']), ilist(m['pos'])), call(f), 'epochs/getitem', meta=m)
    if op == 'epochs':
        return Case('C03 epochs ' + epoch_toks(m['e']), call(lambda: epoch_canon(A.get('e', lambda: build_epoch(m['e'])))), 'epochs/ctor', meta=m)
    # ---- container
    if kind in ('uaxis', 'series'):
        ax = m['axis']
        obj = A.get('obj', lambda: build_axis(ax) if kind == 'uaxis' else build_series(ax, m['data']))
        if obj is None:
            return None
        axobj = obj if kind == 'uaxis' else obj.time
        otok = axis_tok(ax, axobj) + ('' if kind == 'uaxis' else ' ' + data_tok(m['data']))
        m['dur'] = int(axobj.duration)
        n = ax['n']
        nt = n >= 2
        dsuffix = '/duration-only' if ax['ctor'] == 'duration' else ('/reversed' if ax['dt'] < 0 else '')
    elif kind == 'tarray':
        obj = A.get('obj', lambda: mk_T(m['t']['unit'], False, m['t']['ps']))
        otok = tarr_tok(m['t'])
        n = len(m['t']['ps'])
        nt, dsuffix = n >= 2, ''
    else:
        obj = A.get('obj', lambda: t.Events(mk_T(m['t']['unit'], False, m['t']['ps']), **{'k%d' % i: np.array(v, dtype=np.int64) for i, v in enumerate(m['vals'])}))
        otok = tarr_tok(m['t']) + ' D:%d:%d:%s' % (len(m['vals']), len(m['t']['ps']), ilist([x for v in m['vals'] for x in v]))
        n = len(m['t']['ps'])
        nt, dsuffix = n >= 2, ''

    def series_out(r, ne):
        if not isinstance(r, t.TimeSeries):
            return 'not-a-series:%s' % type(r).__name__
        m['impl_shape'] = list(r.data.shape)
        return 'ok TS:%s:%d:%s' % (r.time_unit, int(r.t0), canon_data(r.data, ne, r.data.shape[-1]))

    def ne_of(e):
        return 's' if e.data.ndim == 0 else str(len(e))
    if op == 'index_at_bool':
        def f():
            r = obj.index_at(A.get('q', lambda: rep_build(m['q'])), boolean=True)
            if np.asarray(r).dtype != bool:
                return 'dtype:%s' % np.asarray(r).dtype
            return 'ok B:' + (','.join('1' if v else '0' for v in r) if len(r) else '-')
        return Case('C03 index_at_bool uaxis %s %s' % (otok, rep_tok(m['q'])), call(f), 'uniform/index_at/boolean', meta=m, nontrivial=nt)
    if op in ('index_at', 'index_at_cur'):
        q = m['q']
        if kind == 'uaxis':
            impl = call(lambda: canon_idx(obj.index_at(A.get('q', lambda: rep_build(m['q'])))))
            return Case('C03 %s uaxis %s %s' % (op, otok, rep_tok(q)), impl,
                        'uniform/index_at' + dsuffix + ('/current-model' if op.endswith('cur') else ''),
                        cmp=cmp_cur(m) if op.endswith('cur') else None, meta=m, nontrivial=nt)
        kw = {} if m['tol'] is None else {'tol': A.get('tol', lambda: rep_build(m['tol']))}
        impl = call(lambda: canon_idx(obj.index_at(A.get('q', lambda: rep_build(m['q'])), mode=m['mode'], **kw)))
        return Case('C03 index_at tarray %s %s %s %s' % (otok, m['mode'], rep_tok(q), '_' if m['tol'] is None else rep_tok(m['tol'])),
                    impl, 'tarray/index_at/' + m['mode'], meta=m, nontrivial=nt)
    if op in ('slice_during', 'slice_during_cur'):
        impl = call(lambda: canon_slice(obj.slice_during(A.get('e', lambda: build_epoch(m['e']))), n))
        cl = ('uniform' if kind == 'uaxis' else 'tarray') + '/slice_during' + dsuffix
        return Case('C03 %s %s %s %s' % (op, kind, otok, epoch_toks(m['e'])), impl, cl + ('/current-model' if op.endswith('cur') else ''),
                    cmp=cmp_cur(m) if op.endswith('cur') else None, meta=m, nontrivial=nt)
    if op == 'at':
        q = m['q']
        if kind == 'uaxis':
            impl = call(lambda: canon_T(obj.at(A.get('q', lambda: rep_build(m['q'])))))
            return Case('C03 at uaxis %s %s' % (otok, rep_tok(q)), impl, 'uniform/at', meta=m, nontrivial=nt)
        if kind == 'tarray':
            kw = {} if m['tol'] is None else {'tol': A.get('tol', lambda: rep_build(m['tol']))}
            impl = call(lambda: canon_T(obj.at(A.get('q', lambda: rep_build(m['q'])), **kw)))
            return Case('C03 at tarray %s %s %s' % (otok, rep_tok(q), '_' if m['tol'] is None else rep_tok(m['tol'])), impl, 'tarray/at', meta=m, nontrivial=nt)
        sc = rep_actual(q, ax['unit'])[1]

        def f():
            r = np.asarray(obj.at(A.get('q', lambda: rep_build(m['q']))))
            m['impl_shape'] = list(r.shape)
            return 'ok ' + canon_data(r, 's', 's' if sc else r.shape[-1])
        return Case('C03 at series %s %s' % (otok, rep_tok(q)), call(f), 'series/at', meta=m, nontrivial=nt)
    if op == 'during':
        if kind == 'series':
            def f():
                e = A.get('e', lambda: build_epoch(m['e']))
                return series_out(obj.during(e), ne_of(e))
            arr = epoch_actual(m['e'])
            cl = 'series/during' + ('/array-epochs' if arr[0] == 'ok' and not arr[3] else '')
            return Case('C03 during series %s %s' % (otok, epoch_toks(m['e'])), call(f), cl, meta=m, nontrivial=nt)
        impl = call(lambda: canon_T(obj.during(A.get('e', lambda: build_epoch(m['e'])))))
        return Case('C03 during %s %s %s' % (kind, otok, epoch_toks(m['e'])), impl, ('uniform' if kind == 'uaxis' else 'tarray') + '/during', meta=m, nontrivial=nt)
    if op == 'getitem':
        kk = m['key']
        cname = {'uaxis': 'uniform', 'tarray': 'tarray', 'series': 'series', 'events': 'events'}[kind]
        if kk == 'int':
            key, ktok, sub = int(m['k']), 'int %d' % m['k'], 'int'
        elif kk == 'q':
            key, ktok = A.get('q', lambda: rep_build(m['q'])), 'q ' + rep_tok(m['q'])
            sub = 'float' if m['q']['k'] == 'pyfloat' else 'time'
        else:
            key, ktok, sub = None, 'ep ' + epoch_toks(m['e']), 'epoch'

        def f():
            k = A.get('e', lambda: build_epoch(m['e'])) if kk == 'ep' else key
            r = obj[k]
            if kind == 'events':
                return canon_events(r)
            if kind in ('uaxis', 'tarray'):
                return canon_T(r)
            if kk == 'ep':
                return series_out(r, ne_of(k))
            a = np.asarray(r)
            m['impl_shape'] = list(a.shape)
            if kk == 'int':
                return 'ok ' + canon_data(a, 's', 's')
            sc = rep_actual(m['q'], ax['unit'])[1]
            return 'ok ' + canon_data(a, 's', 's' if sc else a.shape[-1])
        return Case('C03 getitem %s %s %s' % (kind, otok, ktok), call(f), '%s/getitem/%s' % (cname, sub), meta=m, nontrivial=nt)
    raise ValueError(op)


def cmp_cur(m):
    """tie of the `current` model variants: today's code must equal the current-variant model; a tree in
    which the defect has been repaired (implementation == brute-force expectation) is accepted too"""
    def cmp(impl, model):
        if impl == model:
            return True
        e = expectation(m)
        return e is not None and impl == e[0]
    return cmp


# ------------------------------------------------------------------ property-level judgement
def expectation(m):
    """(expected canonical string, extra) for the operation described by m, by brute force"""
    op, kind = m['op'].replace('_cur', ''), m['kind']
    if op == 'epochs_getitem':
        r = epoch_actual(m['e'])
        if r[0] == 'err':
            return 'err ' + r[1], None
        st, sp = [r[1][i] for i in m['pos']], [r[2][i] for i in m['pos']]
        return 'ok E:%s:0:%s:%s:%d:%s' % (r[5], ilist(st), ilist(sp), r[4], ilist([b - a for a, b in zip(st, sp)])), None
    if op == 'epochs':
        r = epoch_actual(m['e'])
        if r[0] == 'err':
            return 'err ' + r[1], None
        return 'ok E:%s:%s:%s:%s:%d' % (r[5], '1' if r[3] else '0', ilist(r[1]), ilist(r[2]), r[4]), None
    if kind in ('uaxis', 'series'):
        ax = m['axis']
        times = [ax['t0'] + i * ax['dt'] for i in range(ax['n'])]
        unit = ax['unit']
        rows = data_rows(m['data']) if kind == 'series' else None
    else:
        times = list(m['t']['ps'])
        unit = m['t']['unit']
        rows = m.get('vals')
    n = len(times)

    def T(ps, sc=False):
        return 'ok T:%s:%s:%s' % (unit, '1' if sc else '0', ilist(ps))

    def epoch_scalar():
        r = epoch_actual(m['e'])
        if r[0] == 'err':
            return 'err ' + r[1]
        if not r[3]:
            return 'err NotImplementedError'
        return r

    def int_key():
        k = m['k']
        return None if not (-n <= k < n) else k % n
    if op == 'index_at_bool':
        q, sc = rep_actual(m['q'], unit)
        st, idx = exp_uniform_index(ax, q, sc)
        if idx is None:
            return st, None
        return 'ok B:' + ','.join('1' if any(in_bin(ax, i, t) for t in q) else '0' for i in range(n)), None
    if op == 'index_at':
        if kind == 'uaxis':
            q, sc = rep_actual(m['q'], unit)
            return exp_uniform_index(ax, q, sc)
        q, _ = rep_actual(m['q'], unit)
        tol = 1 if m['tol'] is None else rep_actual(m['tol'], unit)[0][0]
        return exp_tarray_index(times, m['mode'], q, tol)
    if op == 'slice_during':
        r = epoch_scalar()
        if isinstance(r, str):
            return r, None
        return 'ok P:' + ilist(positions(times, r[1][0], r[2][0])), None
    if op == 'at' or (op == 'getitem' and m['key'] == 'q'):
        q, sc = rep_actual(m['q'], unit)
        if kind == 'uaxis':
            s, idx = exp_uniform_index(ax, q, sc)
            return (s if idx is None else T([times[i] for i in idx], sc)), None
        if kind == 'series':
            s, idx = exp_uniform_index(ax, q, sc)
            if idx is None:
                return s, None
            flat = [row[i] for row in rows for i in idx]
            return 'ok D:s:%s:%s' % ('s' if sc else len(idx), ilist(flat)), {'shape': m['data']['shape'][:-1] + ([] if sc else [len(idx)])}
        tol = 1 if m.get('tol') is None else rep_actual(m['tol'], unit)[0][0]
        s, idx = exp_tarray_index(times, 'closest', q, tol)
        if idx is None:
            return s, None
        if kind == 'events':
            return 'ok EV:%s:%s' % (unit, ilist([times[i] for i in idx])) + ''.join('|' + ilist([v[i] for i in idx]) for v in rows), None
        return T([times[i] for i in idx]), None
    if op == 'during' or (op == 'getitem' and m['key'] == 'ep'):
        if kind == 'series':
            r = epoch_actual(m['e'])
            if r[0] == 'err':
                return 'err ' + r[1], None
            _, starts, stops, sc, off, _ = r
            if not sc and len({b - a for a, b in zip(starts, stops)}) != 1:
                return 'err ValueError', None
            blocks = [positions(times, a, b) for a, b in zip(starts, stops)]
            if len({len(b) for b in blocks}) != 1:
                return 'err ValueError', None          # ragged blocks cannot form an array
            flat = [row[i] for b in blocks for row in rows for i in b]
            k = len(blocks[0])
            return ('ok TS:%s:%d:D:%s:%d:%s' % (unit, off, 's' if sc else len(blocks), k, ilist(flat)),
                    {'shape': ([] if sc else [len(blocks)]) + m['data']['shape'][:-1] + [k]})
        r = epoch_scalar()
        if isinstance(r, str):
            return r, None
        pos = positions(times, r[1][0], r[2][0])
        if kind == 'events':
            return 'ok EV:%s:%s' % (unit, ilist([times[i] for i in pos])) + ''.join('|' + ilist([v[i] for i in pos]) for v in rows), None
        return T([times[i] for i in pos]), None
    if op == 'getitem':     # integer key
        i = int_key()
        if i is None:
            return 'err IndexError', None
        if kind == 'series':
            return 'ok D:s:s:' + ilist([row[i] for row in rows]), {'shape': m['data']['shape'][:-1]}
        if kind == 'events':
            return 'ok EV:%s:%d' % (unit, times[i]) + ''.join('|%d' % v[i] for v in rows), None
        return T([times[i]], True), None
    return None


def sel_times(canon, times):
    """the selected instants named by a canonical result string (positions, time object or events)"""
    try:
        if canon.startswith('ok P:'):
            return [times[int(p)] for p in canon[5:].split(',')] if canon[5:] != '-' else []
        if canon.startswith('ok T:'):
            ps = canon.split(':')[3]
        elif canon.startswith('ok EV:'):
            ps = canon.split(':', 2)[2].split('|')[0]
        else:
            return None
        return [] if ps == '-' else [int(p) for p in ps.split(',')]
    except (ValueError, IndexError):
        return None


def clean_step(sm):
    import json
    d = json.loads(json.dumps({k: v for k, v in sm.items() if k not in ('share', 'mutated', 'impl_shape', 'dur') and not k.startswith('_')}))
    return d


def check_seq(c):
    m = c.meta
    for i, sm in enumerate(m['steps']):
        f = check_case(Case(sm['_line'], sm['_impl'], sm['_clause'], meta=sm))
        if f is None:
            continue
        key = f.key
        if i > 0 and not key.endswith('-mutated'):
            # does the same lookup with FRESH equal arguments on a fresh container satisfy the property?
            fresh = run_case(clean_step(sm))
            if fresh is not None and check_case(fresh) is None:
                key = '%s/%s' % (sm['_clause'], 'second-use-differs' if m['seqkind'] == 'same-twice' else 'reused-argument-differs')
        return Failure(key, 'step %d of a sequence sharing %s: %s' % (i + 1, sorted((sm.get('share') or {}).keys()), f.what), {'meta': m}, case=c)
    return None


def check_case(c):
    m = c.meta
    if not m:
        return None
    if m['op'] == 'seq':
        return check_seq(c)
    mut = m.get('mutated') or []
    if mut:
        sym = 'container-mutated' if 'obj' in mut else 'argument-mutated'
        return Failure('%s/%s' % (c.clause.replace('/current-model', ''), sym),
                       '%s: the lookup changed its %s (%s); arguments and containers must be bit-for-bit unchanged and reusable  [op: %s] impl=%s'
                       % (c.clause, 'container' if 'obj' in mut else 'argument object(s)', ','.join(mut), c.line[:240], c.impl[:120]), {'meta': m}, case=c)
    e = expectation(m)
    if e is None:
        return None
    want, extra = e
    got = c.impl
    clause = c.clause.replace('/current-model', '')

    def fail(sym, what):
        return Failure('%s/%s' % (clause, sym), '%s: %s  [op: %s] impl=%s want=%s' % (clause, what, c.line[:240], got[:160], want[:160]),
                       {'meta': m}, case=c)
    if got == want:
        if extra and 'shape' in extra and m.get('impl_shape') is not None and list(m['impl_shape']) != list(extra['shape']):
            return fail('shape', 'selected data has shape %s, want %s' % (m['impl_shape'], extra['shape']))
        return None
    op, kind = m['op'].replace('_cur', ''), m['kind']
    if op == 'epochs_getitem' and got.startswith('ok E:') and got.rsplit(':', 1)[0] == want.rsplit(':', 1)[0]:
        return fail('duration-stale', 'start/stop are those of the selected rows but .duration is not stop - start of the selection')
    # lookups that may legitimately name another position holding the same extreme value
    if op == 'index_at' and kind == 'tarray' and m['mode'] in ('before', 'after') and got.startswith('ok i:') and extra:
        if int(got[5:]) in extra:
            return fail('not-first-of-equal-times', 'returned a later position of the same instant')
    # --- classification of the known defect families
    uses_epoch = op in ('slice_during', 'during') or (op == 'getitem' and m.get('key') == 'ep')
    if uses_epoch and kind in ('uaxis', 'series') and got == 'err ValueError' and want.startswith('ok'):
        r = epoch_actual(m['e'])
        ax = m['axis']
        lo, hi = ax['t0'], ax['t0'] + m.get('dur', ax['n'] * ax['dt'])
        if ax['dt'] > 0 and r[0] == 'ok' and any(not (lo <= t < hi) for t in list(r[1]) + list(r[2])):
            return fail('raises-epoch-outside-axis', 'epoch [%s, %s) starts before the axis or ends at/after its end [%d, %d): ValueError instead of clipping'
                        % (r[1], r[2], lo, hi))
    if uses_epoch and kind in ('tarray', 'events') and want.startswith('ok') and got.startswith('ok'):
        times = m['t']['ps']
        gt, wt = sel_times(got, times), sel_times(want, times)
        # signature of the recorded defect: a proper, non-empty prefix is returned and every dropped sample
        # repeats the instant of the last one kept
        if (gt is not None and wt is not None and 0 < len(gt) < len(wt) and wt[:len(gt)] == gt
                and all(t == gt[-1] for t in wt[len(gt):])):
            return fail('duplicates-under-selected', 'sorted array with repeated instants: fewer samples selected than satisfy start <= t < stop')
    if op in ('index_at', 'index_at_bool', 'at', 'getitem') and kind in ('uaxis', 'series') and got == 'err ValueError' and want.startswith('ok'):
        ax = m['axis']
        q, _ = rep_actual(m['q'], ax['unit']) if 'q' in m and m.get('key', 'q') == 'q' else ([], True)
        last = ax['t0'] + (ax['n'] - 1) * ax['dt']
        if ax['dt'] > 0 and q and all(ax['t0'] <= t < last + ax['dt'] for t in q) and any(t >= ax['t0'] + m.get('dur', 0) for t in q):
            return fail('refuses-inside-last-bin', 'instant inside the last bin refused: reported duration %d ps < n*dt = %d ps' % (m.get('dur', 0), ax['n'] * ax['dt']))
        return fail('refuses-inside', 'instant inside the covered range refused')
    if got.startswith('err') and want.startswith('ok'):
        return fail('raises', 'operation raised (%s)' % got)
    if want.startswith('err') and got.startswith('ok'):
        return fail('accepts', 'operation should be refused (%s)' % want)
    if want.startswith('err'):
        return fail('error-kind', 'wrong error kind')
    return fail('wrong-selection', 'positions / values / data differ from the brute-force selection')


# ------------------------------------------------------------------ generators
def gen_uquery(rng, ax, array=False):
    t0, dt, n, g = ax['t0'], ax['dt'], ax['n'], ax['g']
    end = t0 + n * dt
    ad = abs(dt)
    sg = 1 if dt > 0 else -1
    # the covered instants: [t0, end) on a forward axis, (end, t0] on a reversed one
    lo, hi = (t0, end - 1) if dt > 0 else (end + 1, t0)

    def one(inside=False):
        c = rng.random()
        i = rng.randrange(n)
        if c < 0.25:
            return t0 + i * dt
        if c < 0.5:     # inside the bin of sample i (the bin extends in the direction of dt)
            return t0 + i * dt + sg * rng.choice([1, ad - 1, ad // 2, rng.randint(0, ad - 1), (ad // g // 2) * g])
        if c < 0.6:     # bin edges +- 1 ps
            return t0 + i * dt + dt * rng.choice([0, 1]) - rng.choice([0, 1, -1])
        if c < 0.7 or inside:
            return rng.randint(lo, hi)
        if c < 0.85:
            return rng.choice([lo - 1, lo - ad, lo - rng.randint(1, 3 * ad), lo - g])
        return rng.choice([hi + 1, hi + 2, hi + ad, hi + 1 + rng.randint(0, 3 * ad)])
    if not array:
        return gen_rep(rng, one(), ax['unit'])
    k = rng.randint(1, 5)
    inside = rng.random() < 0.75
    return gen_rep_arr(rng, [one(inside) for _ in range(k)], ax['unit'])


def gen_uepoch(rng, ax, array=False):
    t0, dt, n, g = ax['t0'], ax['dt'], ax['n'], ax['g']
    times = [t0 + i * dt for i in range(n)]
    ad = abs(dt)
    lo, hi = (t0, t0 + n * dt) if dt > 0 else (t0 + n * dt + 1, t0 + 1)     # [lo, hi) holds every sample
    off = rng.choice([0, 0, g, -g, dt, rng.randint(-5, 5) * g])
    if not array:
        a, b = gen_span(rng, lo, hi, max(g, 2), times)
        return gen_epoch_args(rng, a, b, off, rng.choice([ax['unit'], ax['unit'], None, rng.choice(UNITS)]))
    k = rng.randint(1, 4)
    c = rng.random()
    if c < 0.6:         # equal durations, starts aligned with the grid phase: equal counts
        w = rng.randint(0, n) * ad + rng.choice([0, 0, 1, ad // 2])
        ph = rng.choice([0, 0, 1, ad // 2, -1])
        starts = [t0 + rng.randint(-1, n) * dt + ph for _ in range(k)]
        stops = [s + w for s in starts]
    elif c < 0.8:       # equal durations, arbitrary phases (blocks may be ragged)
        w = rng.randint(0, n * ad)
        starts = [rng.randint(lo - ad, hi) for _ in range(k)]
        stops = [s + w for s in starts]
    else:               # unequal durations
        sp = [gen_span(rng, lo, hi, max(g, 2), times) for _ in range(k)]
        starts, stops = [s[0] for s in sp], [s[1] for s in sp]
    return gen_epoch_args(rng, starts, stops, off, rng.choice([ax['unit'], ax['unit'], None]))


def gen_tquery(rng, t, array=False):
    ps, g = t['ps'], t['g']

    def one():
        c = rng.random()
        if c < 0.5:
            return rng.choice(ps) + rng.choice([0, 0, 0, 1, -1, 2, -2, g // 2, -(g // 2)])
        return rng.randint(min(ps) - 2 * g - 2, max(ps) + 2 * g + 2)
    if not array:
        return gen_rep(rng, one(), t['unit'])
    return gen_rep_arr(rng, [one() for _ in range(len(ps) if rng.random() < 0.85 or len(ps) < 2 else len(ps) + 1)], t['unit'])


def gen_tol(rng, t):
    g = t['g']
    c = rng.random()
    if c < 0.25:
        return None
    p = rng.choice([0, 1, 2, g // 2, g, 2 * g, 3 * g, -1])
    return gen_rep(rng, p, t['unit'])


def gen_tepoch(rng, t):
    ps, g = t['ps'], t['g']
    a, b = gen_span(rng, min(ps), max(ps) + 1, max(g, 2), ps)
    if rng.random() < 0.3:      # edges exactly on (possibly repeated) samples
        a, b = sorted([rng.choice(ps), rng.choice(ps) + rng.choice([0, 0, 1, g // 2])])
    off = rng.choice([0, 0, g, -g])
    return gen_epoch_args(rng, a, b, off, rng.choice([t['unit'], t['unit'], None, rng.choice(UNITS)]))


def gen_bad_epoch(rng):
    """malformed / edge constructor calls"""
    u = rng.choice(UNITS + [None])
    f = FACTOR[u or 's']
    def r(p, arr=False):
        return gen_rep_arr(rng, [p * f, (p + 1) * f][:rng.choice([1, 2, 2])], u) if arr else gen_rep(rng, p * f, u)
    e = {'unit': u, 't0': None, 'stop': None, 'offset': None, 'start': None, 'duration': None}
    for k in ('t0', 'stop', 'offset', 'start', 'duration'):
        if rng.random() < 0.45:
            e[k] = r(rng.randint(-5, 5), arr=rng.random() < 0.35)
    return e


def gen_step(rng, kind, cont):
    """one random lookup on the described container"""
    c = rng.random()
    if kind in ('uaxis', 'series'):
        ax = cont['axis']
        if kind == 'uaxis':
            if c < 0.15:
                return dict(cont, op='index_at', kind=kind, q=gen_uquery(rng, ax, array=rng.random() < 0.5))
            if c < 0.3:
                return dict(cont, op='at', kind=kind, q=gen_uquery(rng, ax, array=rng.random() < 0.5))
            if c < 0.55:
                return dict(cont, op='slice_during', kind=kind, e=gen_uepoch(rng, ax))
            if c < 0.75:
                return dict(cont, op='during', kind=kind, e=gen_uepoch(rng, ax))
            if c < 0.85:
                return dict(cont, op='getitem', kind=kind, key='q', q=gen_rep(rng, ax['t0'] + rng.randrange(ax['n']) * ax['dt'], ax['unit'], kinds=('time', 'pyfloat')))
            return dict(cont, op='getitem', kind=kind, key='ep', e=gen_uepoch(rng, ax))
        if c < 0.3:
            return dict(cont, op='at', kind=kind, q=gen_uquery(rng, ax, array=rng.random() < 0.5))
        if c < 0.7:
            return dict(cont, op='during', kind=kind, e=gen_uepoch(rng, ax, array=rng.random() < 0.5))
        if c < 0.8:
            arr = rng.random() < 0.5
            return dict(cont, op='getitem', kind=kind, key='q', q={'k': 'time', 'unit': rng.choice(UNITS), 'sc': not arr,
                        'ps': [ax['t0'] + rng.randrange(ax['n']) * ax['dt'] + rng.choice([0, 1]) for _ in range(2 if arr else 1)]})
        return dict(cont, op='getitem', kind=kind, key='ep', e=gen_uepoch(rng, ax, array=rng.random() < 0.4))
    t = cont['t']
    if kind == 'tarray':
        if c < 0.25:
            mode = rng.choice(['closest', 'before', 'after'])
            return dict(cont, op='index_at', kind=kind, mode=mode, q=gen_tquery(rng, t, array=rng.random() < 0.5), tol=gen_tol(rng, t) if mode == 'closest' else None)
        if c < 0.4:
            return dict(cont, op='at', kind=kind, q=gen_tquery(rng, t, array=rng.random() < 0.4), tol=gen_tol(rng, t))
        if c < 0.6:
            return dict(cont, op='slice_during', kind=kind, e=gen_tepoch(rng, t))
        if c < 0.75:
            return dict(cont, op='during', kind=kind, e=gen_tepoch(rng, t))
        if c < 0.85:
            return dict(cont, op='getitem', kind=kind, key='q', q={'k': 'pyfloat', 'v': float(Fr(rng.choice(t['ps']) + rng.choice([0, 0, 1]), FACTOR[t['unit']]))})
        return dict(cont, op='getitem', kind=kind, key='ep', e=gen_tepoch(rng, t))
    if c < 0.4:
        return dict(cont, op='getitem', kind=kind, key='q', q={'k': 'pyfloat', 'v': float(Fr(rng.choice(t['ps']) + rng.choice([0, 0, 1]), FACTOR[t['unit']]))})
    return dict(cont, op='getitem', kind=kind, key='ep', e=gen_tepoch(rng, t))


def transfer(step, kind2, cont2):
    """the lookup of `step` (same argument descriptions) on another container, or None when that makes no sense"""
    k1, op = step['kind'], step['op']
    args = {k: step[k] for k in ('q', 'e', 'tol', 'mode', 'key') if k in step}
    if k1 == kind2:
        return dict(cont2, op=op, kind=kind2, **args)
    if (k1, kind2) in (('uaxis', 'series'), ('series', 'uaxis')):
        if 'e' in args:
            args.pop('key', None)
            return dict(cont2, op='during', kind=kind2, e=args['e'])
        if 'q' in args:
            return dict(cont2, op='at', kind=kind2, q=args['q'])
        return None
    if (k1, kind2) == ('tarray', 'events'):
        if 'e' in args:
            return dict(cont2, op='getitem', kind=kind2, key='ep', e=args['e'])
        if op == 'getitem' and args.get('key') == 'q':
            return dict(cont2, op='getitem', kind=kind2, key='q', q=args['q'])
    return None


def gen_seq(rng, nmax):
    """sequences: the same lookup twice with the same objects; one argument object on two containers"""
    kind = rng.choice(['uaxis', 'uaxis', 'series', 'series', 'tarray', 'events'])

    def cont_of(kind, like=None):
        if kind in ('uaxis', 'series'):
            ax = dict(like['axis']) if like else gen_axis(rng, nmax)
            if like and rng.random() < 0.7:     # a neighbouring axis: shifted start, other length
                ax['t0'] += rng.choice([-2, -1, 1, 2, 3]) * rng.choice([ax['dt'], ax['g']])
                ax['n'] = max(1, ax['n'] + rng.randint(-3, 3))
            return {'axis': ax} if kind == 'uaxis' else {'axis': ax, 'data': gen_data(rng, ax['n'])}
        if like:
            ps = sorted(p + rng.choice([0, 0, like['t']['g'], -like['t']['g']]) for p in like['t']['ps'])
            t = dict(like['t'], ps=ps)       # same length: an array query of the first container stays admissible
        else:
            t = gen_tarray(rng, min(nmax, 20), sorted_=True)
        return {'t': t} if kind == 'tarray' else {'t': t, 'vals': [[rng.randint(-99, 99) for _ in t['ps']] for _ in range(rng.randint(1, 2))]}
    c1 = cont_of(kind)
    s1 = gen_step(rng, kind, c1)
    names = [k for k in ('q', 'e', 'tol') if s1.get(k) is not None]
    if rng.random() < 0.45:
        sh = dict({k: k.upper() for k in names}, obj='X')
        n_rep = rng.choice([2, 2, 3])
        return {'op': 'seq', 'kind': 'seq', 'seqkind': 'same-twice', 'steps': [dict(clean_step(s1), share=sh) for _ in range(n_rep)]}
    kind2 = {'uaxis': rng.choice(['uaxis', 'series']), 'series': rng.choice(['series', 'uaxis']),
             'tarray': rng.choice(['tarray', 'events']), 'events': 'events'}[kind]
    s2 = transfer(s1, kind2, cont_of(kind2, like=c1))
    if s2 is None:
        s2 = transfer(s1, kind, cont_of(kind, like=c1))
    sh = {k: k.upper() for k in names}
    steps = [dict(clean_step(s1), share=sh), dict(clean_step(s2), share=sh)]
    if rng.random() < 0.3:      # and back on the first container, same objects
        steps.append(dict(clean_step(s1), share=sh))
    return {'op': 'seq', 'kind': 'seq', 'seqkind': 'argument-on-two-containers', 'steps': steps}


def gen_epochs_getitem(rng):
    n = rng.randint(2, 5)
    u = rng.choice(UNITS)
    g = FACTOR[u] >> rng.randint(0, min(V2[u], 3))
    top = max(1, min(20, LIM // g // 64))
    starts = [rng.randint(-top, top) * g for _ in range(n)]
    stops = [a + rng.randint(0, 9) * g for a in starts]        # unequal durations
    e = gen_epoch_args(rng, starts, stops, rng.choice([0, g, -g]), u)
    kk = rng.choice(['rev', 'list', 'list', 'array'])
    pos = list(range(n - 1, -1, -1)) if kk == 'rev' else [rng.randrange(n) for _ in range(rng.randint(1, 5))]
    return {'op': 'epochs_getitem', 'kind': 'epochs', 'e': e, 'keykind': kk, 'pos': pos, 'read_duration': rng.random() < 0.8}


def cases(rng, tier, seed):
    scale = {'quick': 1, 'thorough': 30}[tier]
    nmax = 50
    metas = []

    def add(m):
        metas.append(m)
    for _ in range(260 * scale):                      # uniform axis
        ax = gen_axis(rng, nmax)
        add({'op': 'index_at', 'kind': 'uaxis', 'axis': ax, 'q': gen_uquery(rng, ax, array=rng.random() < 0.3)})
        if rng.random() < 0.25:
            add({'op': 'index_at_bool', 'kind': 'uaxis', 'axis': ax, 'q': gen_uquery(rng, ax, array=rng.random() < 0.6)})
        e = gen_uepoch(rng, ax)
        add({'op': 'slice_during', 'kind': 'uaxis', 'axis': ax, 'e': e})
        if rng.random() < 0.4 and ax['dt'] > 0:
            add({'op': 'slice_during_cur', 'kind': 'uaxis', 'axis': ax, 'e': e})
        c = rng.random()
        if c < 0.3:
            add({'op': 'at', 'kind': 'uaxis', 'axis': ax, 'q': gen_uquery(rng, ax, array=rng.random() < 0.3)})
        elif c < 0.55:
            add({'op': 'during', 'kind': 'uaxis', 'axis': ax, 'e': gen_uepoch(rng, ax, array=rng.random() < 0.1)})
        elif c < 0.7:
            add({'op': 'getitem', 'kind': 'uaxis', 'axis': ax, 'key': 'int', 'k': rng.randint(-ax['n'] - 1, ax['n'])})
        elif c < 0.85:
            q = gen_uquery(rng, ax)
            if q['k'] != 'pyint':
                add({'op': 'getitem', 'kind': 'uaxis', 'axis': ax, 'key': 'q', 'q': q})
        else:
            add({'op': 'getitem', 'kind': 'uaxis', 'axis': ax, 'key': 'ep', 'e': gen_uepoch(rng, ax)})
    for _ in range(40 * scale):                       # duration-only axes
        ax = gen_axis(rng, nmax, duration_only=True)
        if ax['ctor'] != 'duration':
            continue
        q = gen_uquery(rng, ax)
        if rng.random() < 0.5:
            last = ax['t0'] + (ax['n'] - 1) * ax['dt']
            q = gen_rep(rng, rng.randint(last, last + ax['dt'] - 1), ax['unit'])
        add({'op': 'index_at', 'kind': 'uaxis', 'axis': ax, 'q': q})
        add({'op': 'index_at_cur', 'kind': 'uaxis', 'axis': ax, 'q': q})
        add({'op': 'slice_during', 'kind': 'uaxis', 'axis': ax, 'e': gen_uepoch(rng, ax)})
    for _ in range(230 * scale):                      # arbitrary time arrays
        t = gen_tarray(rng, nmax, sorted_=rng.random() < 0.4)
        mode = rng.choice(['closest', 'before', 'after'])
        add({'op': 'index_at', 'kind': 'tarray', 't': t, 'mode': mode, 'q': gen_tquery(rng, t, array=rng.random() < 0.2),
             'tol': gen_tol(rng, t) if mode == 'closest' else None})
        c = rng.random()
        if c < 0.4:
            add({'op': 'at', 'kind': 'tarray', 't': t, 'q': gen_tquery(rng, t, array=rng.random() < 0.15), 'tol': gen_tol(rng, t)})
        elif c < 0.6:
            add({'op': 'getitem', 'kind': 'tarray', 't': t, 'key': 'int', 'k': rng.randint(-len(t['ps']) - 1, len(t['ps']))})
        elif c < 0.8:
            f = FACTOR[t['unit']]
            add({'op': 'getitem', 'kind': 'tarray', 't': t, 'key': 'q', 'q': {'k': 'pyfloat', 'v': float(Fr(rng.choice(t['ps']) + rng.choice([0, 0, 1, -1, 2]), f))}})
        ts_ = gen_tarray(rng, nmax, sorted_=True)     # sorted (with duplicates) for epoch selection
        e = gen_tepoch(rng, ts_)
        add({'op': 'slice_during', 'kind': 'tarray', 't': ts_, 'e': e})
        if rng.random() < 0.4:
            add({'op': 'slice_during_cur', 'kind': 'tarray', 't': ts_, 'e': e})
        c = rng.random()
        if c < 0.3:
            add({'op': 'during', 'kind': 'tarray', 't': ts_, 'e': gen_tepoch(rng, ts_)})
        elif c < 0.5:
            add({'op': 'getitem', 'kind': 'tarray', 't': ts_, 'key': 'ep', 'e': gen_tepoch(rng, ts_)})
    for _ in range(170 * scale):                      # time series
        ax = gen_axis(rng, nmax)
        d = gen_data(rng, ax['n'])
        add({'op': 'at', 'kind': 'series', 'axis': ax, 'data': d, 'q': gen_uquery(rng, ax, array=rng.random() < 0.3)})
        add({'op': 'during', 'kind': 'series', 'axis': ax, 'data': d, 'e': gen_uepoch(rng, ax, array=rng.random() < 0.35)})
        c = rng.random()
        if c < 0.3:
            add({'op': 'getitem', 'kind': 'series', 'axis': ax, 'data': d, 'key': 'int', 'k': rng.randint(-ax['n'] - 1, ax['n'])})
        elif c < 0.6:
            q = gen_uquery(rng, ax, array=rng.random() < 0.3)
            if q['k'] == 'time':
                add({'op': 'getitem', 'kind': 'series', 'axis': ax, 'data': d, 'key': 'q', 'q': q})
        else:
            add({'op': 'getitem', 'kind': 'series', 'axis': ax, 'data': d, 'key': 'ep', 'e': gen_uepoch(rng, ax, array=rng.random() < 0.3)})
    for _ in range(130 * scale):                      # events
        t = gen_tarray(rng, 20, sorted_=True)
        vals = [[rng.randint(-99, 99) for _ in t['ps']] for _ in range(rng.randint(1, 3))]
        c = rng.random()
        if c < 0.3:
            add({'op': 'getitem', 'kind': 'events', 't': t, 'vals': vals, 'key': 'int', 'k': rng.randint(-len(t['ps']) - 1, len(t['ps']))})
        elif c < 0.6:
            f = FACTOR[t['unit']]
            add({'op': 'getitem', 'kind': 'events', 't': t, 'vals': vals, 'key': 'q',
                 'q': {'k': 'pyfloat', 'v': float(Fr(rng.choice(t['ps']) + rng.choice([0, 0, 1, -1, 2, 5]), f))}})
        else:
            add({'op': 'getitem', 'kind': 'events', 't': t, 'vals': vals, 'key': 'ep', 'e': gen_tepoch(rng, t)})
    for _ in range(150 * scale):                      # the Epochs constructor itself
        if rng.random() < 0.5:
            add({'op': 'epochs', 'kind': 'epochs', 'e': gen_bad_epoch(rng)})
        else:
            ax = gen_axis(rng, 10)
            add({'op': 'epochs', 'kind': 'epochs', 'e': gen_uepoch(rng, ax, array=rng.random() < 0.5)})
    for _ in range(320 * scale):                      # arguments / containers unchanged and reusable
        add(gen_seq(rng, nmax))
    for _ in range(60 * scale):                       # Epochs[key] with reordering / repeating keys
        add(gen_epochs_getitem(rng))
    out, skipped = [], 0
    for m in CORPUS + metas:
        c = run_case(dict(m))
        if c is None:
            skipped += 1
        else:
            out.append(c)
    cases.skipped = skipped
    return out


def _T(unit, ps):
    return {'unit': unit, 'ps': ps, 'g': 1}


def _num(v):
    return {'k': 'pyint', 'v': v} if isinstance(v, int) else {'k': 'pyfloat', 'v': v}


def _E(unit='s', **kw):
    e = {'unit': unit, 't0': None, 'stop': None, 'offset': None, 'start': None, 'duration': None}
    e.update({k: _num(v) for k, v in kw.items()})
    return e


S = 10**12
_AX = {'unit': 's', 't0': 0, 'dt': 3 * S, 'n': 4, 'ctor': 'duration', 'D': 10 * S, 'g': S}
_AXL = {'unit': 'ms', 't0': -3 * 10**9, 'dt': 2 * 10**9, 'n': 5, 'ctor': 'length', 'g': 10**9}
CORPUS = [   # minimal inputs of the recorded findings + boundary cases, run first on every run
    {'op': 'slice_during', 'kind': 'tarray', 't': _T('s', [S, S, 2 * S]), 'e': _E(start=1, stop=1.5)},
    {'op': 'slice_during_cur', 'kind': 'tarray', 't': _T('s', [S, S, 2 * S]), 'e': _E(start=1, stop=1.5)},
    {'op': 'slice_during', 'kind': 'tarray', 't': _T('s', [S, 2 * S, 2 * S, 3 * S]), 'e': _E(start=1, stop=2)},
    {'op': 'slice_during', 'kind': 'tarray', 't': _T('s', [S, 2 * S, 2 * S, 3 * S]), 'e': _E(start=2, stop=3)},
    {'op': 'index_at', 'kind': 'uaxis', 'axis': _AX, 'q': _num(10.5)},
    {'op': 'index_at_cur', 'kind': 'uaxis', 'axis': _AX, 'q': _num(10.5)},
    {'op': 'slice_during', 'kind': 'uaxis', 'axis': _AXL, 'e': _E('ms', start=-4, stop=2)},
    {'op': 'slice_during_cur', 'kind': 'uaxis', 'axis': _AXL, 'e': _E('ms', start=-4, stop=2)},
    {'op': 'slice_during', 'kind': 'uaxis', 'axis': _AXL, 'e': _E('ms', start=-3, stop=7)},
    {'op': 'slice_during', 'kind': 'uaxis', 'axis': _AXL, 'e': _E('ms', start=-3, stop=2)},
    {'op': 'during', 'kind': 'series', 'axis': _AXL, 'data': {'shape': [2, 5], 'vals': list(range(10))}, 'e': _E('ms', start=1, stop=8)},
    {'op': 'getitem', 'kind': 'events', 't': _T('s', [S, S, 2 * S, 5 * S]), 'vals': [[10, 20, 30, 40]], 'key': 'ep', 'e': _E(start=1, stop=1.5)},
]


def oracle(rng, tier, seed, focus, cases=None):
    fails, n = [], 0
    for c in (cases or []):
        if c.meta:
            n += 1
            f = check_case(c)
            if f:
                fails.append(f)
    keys = {}
    for f in fails:
        keys[f.key] = keys.get(f.key, 0) + 1
    return fails, {'judged': n, 'failed': len(fails), 'focus': len(focus), 'by_key': keys,
                   'containers_skipped_not_exact': getattr(globals()['cases'], 'skipped', 0)}


def replay(d):
    c = run_case(dict(d['meta']))
    if c is None:
        return None
    return check_case(c)
