"""Translator pass for C04/C06: the spectral index formulas of nitime/algorithms/spectral.py.

Extracted by pure `ast` walking (no repo code is executed):
  periodogram, periodogram_csd, mtm_cross_spectrum :  Fn = N // 2 + 1,  Fl = (N + 1) // 2
  multi_taper_psd, multi_taper_csd                :  last_freq = NFFT // 2 + 1 if sides == 'onesided' else NFFT
  get_spectra (Welch branch)                      :  fxy_len (complex / real), default n_overlap
into `lean/Nitime/Generated/SpecIdx.lean` as `Nat → Nat` functions which the C04 model uses
directly (so the model's index arithmetic IS the source's) and which `Props/C04.lean` proves equal
to the textbook values (`index_formulas`).  Supported fragment: integer constants, one variable,
+ - * //, `int(.)`, `np.ceil(.)` of an integer expression, and the conditional
`a if sides == 'onesided' else b`.  Anything else is emitted as 0 (the theorem then fails: broken
obligation, not a violation).
"""
import ast
import translate as tr


class Unsupported(Exception):
    pass


def lean_nat(node, var, cond=None):
    """python integer expression over the single variable `var` -> Lean Nat term"""
    if isinstance(node, ast.Constant) and isinstance(node.value, int) and not isinstance(node.value, bool) and node.value >= 0:
        return str(node.value)
    if isinstance(node, ast.Name) and node.id == var:
        return 'N'
    if isinstance(node, ast.BinOp):
        a, b = lean_nat(node.left, var, cond), lean_nat(node.right, var, cond)
        op = {ast.Add: '+', ast.Sub: '-', ast.Mult: '*', ast.FloorDiv: '/'}.get(type(node.op))
        if op is None:
            raise Unsupported(ast.dump(node.op))
        return '(%s %s %s)' % (a, op, b)
    if isinstance(node, ast.Call):
        fn = node.func
        name = fn.id if isinstance(fn, ast.Name) else (fn.attr if isinstance(fn, ast.Attribute) else None)
        if name in ('int', 'ceil') and len(node.args) == 1 and not node.keywords:
            return lean_nat(node.args[0], var, cond)     # identity on integer-valued expressions
        raise Unsupported('call ' + str(name))
    if isinstance(node, ast.IfExp) and cond is not None:
        t = node.test
        if (isinstance(t, ast.Compare) and len(t.ops) == 1 and isinstance(t.ops[0], ast.Eq)
                and isinstance(t.left, ast.Name) and t.left.id == cond[0]
                and isinstance(t.comparators[0], ast.Constant) and t.comparators[0].value == cond[1]):
            return '(if b then %s else %s)' % (lean_nat(node.body, var, cond), lean_nat(node.orelse, var, cond))
        raise Unsupported('if-test')
    raise Unsupported(type(node).__name__)


def assigns(fn, name):
    out = []
    for node in ast.walk(fn):
        if isinstance(node, ast.Assign) and len(node.targets) == 1 and isinstance(node.targets[0], ast.Name) \
                and node.targets[0].id == name:
            out.append(node)
    out.sort(key=lambda n: n.lineno)
    return out


def gen_specidx():
    tree = tr.parse('nitime/algorithms/spectral.py')
    echo, defs = {}, []

    def emit(lean_name, fn_name, py_name, var, cond=None, doc='', which=0, inside=None):
        src, term = None, None
        fn = tr.find_func(tree, fn_name)
        try:
            if fn is None:
                raise Unsupported('function %s not found' % fn_name)
            nodes = assigns(fn, py_name)
            if inside is not None:
                nodes = [n for n in nodes if inside(fn, n)]
            if len(nodes) <= which:
                raise Unsupported('assignment %s not found in %s' % (py_name, fn_name))
            # all assignments of the name in that function must agree (one-/two-sided branches)
            terms = {lean_nat(n.value, var, cond) for n in nodes} if which == 0 and inside is None else {lean_nat(nodes[which].value, var, cond)}
            if len(terms) != 1:
                raise Unsupported('conflicting assignments of %s in %s' % (py_name, fn_name))
            term = terms.pop()
            src = ast.unparse(nodes[which].value)
        except Unsupported as e:
            echo[lean_name] = {'unparsed': str(e)}
            term = '0'
        else:
            echo[lean_name] = {'source': '%s: %s = %s' % (fn_name, py_name, src), 'lean': term}
        sig = '(N : Nat) (b : Bool)' if cond else '(N : Nat)'
        defs.append('/-- %s -/\nabbrev %s %s : Nat := %s\n' % (doc or ('`%s` in `%s`' % (py_name, fn_name)), lean_name, sig, term))

    for f in ('periodogram', 'periodogram_csd'):
        emit(f + '_Fn', f, 'Fn', 'N')
        emit(f + '_Fl', f, 'Fl', 'N')
    emit('mtm_Fn', 'mtm_cross_spectrum', 'Fn', 'N')
    emit('mtm_Fl', 'mtm_cross_spectrum', 'Fl', 'N')
    emit('mt_psd_last_freq', 'multi_taper_psd', 'last_freq', 'NFFT', cond=('sides', 'onesided'),
         doc='`last_freq` in `multi_taper_psd` (b = one-sided)')
    emit('mt_csd_last_freq', 'multi_taper_csd', 'last_freq', 'NFFT', cond=('sides', 'onesided'),
         doc='`last_freq` in `multi_taper_csd` (b = one-sided)')

    # get_spectra: fxy_len is assigned twice (complex: NFFT, real: NFFT // 2 + 1) under `if np.iscomplexobj`
    fn = tr.find_func(tree, 'get_spectra')
    cplx, real = '0', '0'
    try:
        found = False
        for node in ast.walk(fn):
            if isinstance(node, ast.If) and isinstance(node.test, ast.Call) and \
                    isinstance(node.test.func, ast.Attribute) and node.test.func.attr == 'iscomplexobj':
                a = [n for n in node.body if isinstance(n, ast.Assign) and n.targets[0].id == 'fxy_len']
                b = [n for n in node.orelse if isinstance(n, ast.Assign) and n.targets[0].id == 'fxy_len']
                if len(a) == 1 and len(b) == 1:
                    cplx, real = lean_nat(a[0].value, 'NFFT'), lean_nat(b[0].value, 'NFFT')
                    echo['welch_fxy_len'] = {'complex': ast.unparse(a[0].value), 'real': ast.unparse(b[0].value)}
                    found = True
        if not found:
            raise Unsupported('fxy_len branches not found')
    except (Unsupported, AttributeError) as e:
        echo['welch_fxy_len'] = {'unparsed': str(e)}
        cplx, real = '0', '0'
    defs.append('/-- `fxy_len` in `get_spectra` (b = complex input) -/\nabbrev welch_fxy_len (N : Nat) (b : Bool) : Nat := if b then %s else %s\n' % (cplx, real))

    text = ('-- GENERATED by harness/translate_c04.py from nitime/algorithms/spectral.py (index formulas). DO NOT EDIT.\n'
            'namespace Nitime.Generated.SpecIdx\n\n' + '\n'.join(defs) + '\nend Nitime.Generated.SpecIdx\n')
    return 'SpecIdx.lean', text, echo


GENERATORS = [gen_specidx]

if __name__ == '__main__':
    n, t, e = gen_specidx()
    print(t)
    print(e)
