"""Translator pass for C04/C06: the spectral index formulas of nitime/algorithms/spectral.py.

Extracted by pure `ast` walking (no repo code is executed):
  periodogram, periodogram_csd, mtm_cross_spectrum :  Fn = N // 2 + 1,  Fl = (N + 1) // 2
  multi_taper_psd, multi_taper_csd                :  last_freq = NFFT // 2 + 1 if sides == 'onesided' else NFFT
  get_spectra (Welch branch)                      :  fxy_len (complex / real), default n_overlap
into `lean/Nitime/Generated/SpecIdx.lean` as `Nat → Nat` functions which the C04 model uses
directly (so the model's index arithmetic IS the source's) and which `Props/C04.lean` proves equal
to the textbook values (`index_formulas`).  Supported fragment: integer constants, one variable,
+ - * //, `int(.)`, `np.ceil(.)` of an integer expression, and the conditional
`a if sides == 'onesided' else b`.  Anything else is emitted as 0 (the theorem then fails: broken
obligation, not a violation).
"""
import ast
import translate as tr


class Unsupported(Exception):
    pass


def lean_nat(node, var, cond=None):
    """python integer expression over the single variable `var` -> Lean Nat term"""
    if isinstance(node, ast.Constant) and isinstance(node.value, int) and not isinstance(node.value, bool) and node.value >= 0:
        return str(node.value)
    if isinstance(node, ast.Name) and node.id == var:
        return 'N'
    if isinstance(node, ast.BinOp):
        a, b = lean_nat(node.left, var, cond), lean_nat(node.right, var, cond)
        op = {ast.Add: '+', ast.Sub: '-', ast.Mult: '*', ast.FloorDiv: '/'}.get(type(node.op))
        if op is None:
            raise Unsupported(ast.dump(node.op))
        return '(%s %s %s)' % (a, op, b)
    if isinstance(node, ast.Call):
        fn = node.func
        name = fn.id if isinstance(fn, ast.Name) else (fn.attr if isinstance(fn, ast.Attribute) else None)
        if name in ('int', 'ceil') and len(node.args) == 1 and not node.keywords:
            return lean_nat(node.args[0], var, cond)     # identity on integer-valued expressions
        raise Unsupported('call ' + str(name))
    if isinstance(node, ast.IfExp) and cond is not None:
        t = node.test
        if (isinstance(t, ast.Compare) and len(t.ops) == 1 and isinstance(t.ops[0], ast.Eq)
                and isinstance(t.left, ast.Name) and t.left.id == cond[0]
                and isinstance(t.comparators[0], ast.Constant) and t.comparators[0].value == cond[1]):
            return '(if b then %s else %s)' % (lean_nat(node.body, var, cond), lean_nat(node.orelse, var, cond))
        raise Unsupported('if-test')
    raise Unsupported(type(node).__name__)


def assigns(fn, name):
    out = []
    for node in ast.walk(fn):
        if isinstance(node, ast.Assign) and len(node.targets) == 1 and isinstance(node.targets[0], ast.Name) \
                and node.targets[0].id == name:
            out.append(node)
    out.sort(key=lambda n: n.lineno)
    return out


def gen_specidx():
    tree = tr.parse('nitime/algorithms/spectral.py')
    echo, defs = {}, []

    def emit(lean_name, fn_name, py_name, var, cond=None, doc='', which=0, inside=None):
        src, term = None, None
        fn = tr.find_func(tree, fn_name)
        try:
            if fn is None:
                raise Unsupported('function %s not found' % fn_name)
            nodes = assigns(fn, py_name)
            if inside is not None:
                nodes = [n for n in nodes if inside(fn, n)]
            if len(nodes) <= which:
                raise Unsupported('assignment %s not found in %s' % (py_name, fn_name))
            # all assignments of the name in that function must agree (one-/two-sided branches)
            terms = {lean_nat(n.value, var, cond) for n in nodes} if which == 0 and inside is None else {lean_nat(nodes[which].value, var, cond)}
            if len(terms) != 1:
                raise Unsupported('conflicting assignments of %s in %s' % (py_name, fn_name))
            term = terms.pop()
            src = ast.unparse(nodes[which].value)
        except Unsupported as e:
            echo[lean_name] = {'unparsed': str(e)}
            term = '0'
        else:
            echo[lean_name] = {'source': '%s: %s = %s' % (fn_name, py_name, src), 'lean': term}
        sig = '(N : Nat) (b : Bool)' if cond else '(N : Nat)'
        defs.append('/-- %s -/\nabbrev %s %s : Nat := %s\n' % (doc or ('`%s` in `%s`' % (py_name, fn_name)), lean_name, sig, term))

    for f in ('periodogram', 'periodogram_csd'):
        emit(f + '_Fn', f, 'Fn', 'N')
        emit(f + '_Fl', f, 'Fl', 'N')
    emit('mtm_Fn', 'mtm_cross_spectrum', 'Fn', 'N')
    emit('mtm_Fl', 'mtm_cross_spectrum', 'Fl', 'N')
    emit('mt_psd_last_freq', 'multi_taper_psd', 'last_freq', 'NFFT', cond=('sides', 'onesided'),
         doc='`last_freq` in `multi_taper_psd` (b = one-sided)')
    emit('mt_csd_last_freq', 'multi_taper_csd', 'last_freq', 'NFFT', cond=('sides', 'onesided'),
         doc='`last_freq` in `multi_taper_csd` (b = one-sided)')

    # get_spectra: fxy_len is assigned twice (complex: NFFT, real: NFFT // 2 + 1) under `if np.iscomplexobj`
    fn = tr.find_func(tree, 'get_spectra')
    cplx, real = '0', '0'
    try:
        found = False
        for node in ast.walk(fn):
            if isinstance(node, ast.If) and isinstance(node.test, ast.Call) and \
                    isinstance(node.test.func, ast.Attribute) and node.test.func.attr == 'iscomplexobj':
                a = [n for n in node.body if isinstance(n, ast.Assign) and n.targets[0].id == 'fxy_len']
                b = [n for n in node.orelse if isinstance(n, ast.Assign) and n.targets[0].id == 'fxy_len']
                if len(a) == 1 and len(b) == 1:
                    cplx, real = lean_nat(a[0].value, 'NFFT'), lean_nat(b[0].value, 'NFFT')
                    echo['welch_fxy_len'] = {'complex': ast.unparse(a[0].value), 'real': ast.unparse(b[0].value)}
                    found = True
        if not found:
            raise Unsupported('fxy_len branches not found')
    except (Unsupported, AttributeError) as e:
        echo['welch_fxy_len'] = {'unparsed': str(e)}
        cplx, real = '0', '0'
    defs.append('/-- `fxy_len` in `get_spectra` (b = complex input) -/\nabbrev welch_fxy_len (N : Nat) (b : Bool) : Nat := if b then %s else %s\n' % (cplx, real))

    text = ('-- GENERATED by harness/translate_c04.py from nitime/algorithms/spectral.py (index formulas). DO NOT EDIT.\n'
            'namespace Nitime.Generated.SpecIdx\n\n' + '\n'.join(defs) + '\nend Nitime.Generated.SpecIdx\n')
    return 'SpecIdx.lean', text, echo


# ----------------------------------------------------------------------------------------------------------------
# Write-sets and parameter aliases of the estimators (session 3): which local names are modified IN PLACE
# (aug-assignment, subscript / attribute store, mutating method, out=, np.copyto …) and which names may hold a VIEW of
# a parameter (plain assignment, reshape, slicing, .T/.real, np.asarray, np.rollaxis …; flow-insensitive fixpoint).
# `Props/C04.lean: estimators_do_not_write_parameters` is `decide` over these tables; the history theorems of the
# precomputed-transform branch (`skRun_eq_map`: csd(Sk); csd(Sk) give equal results) use
# `writesAlias "periodogram_csd" "Sk" = false`, so a source edit that scales `Sk_loc` in place re-opens them.
VIEW_METHODS = {'reshape', 'view', 'squeeze', 'ravel', 'transpose', 'swapaxes', 'diagonal', '__array__'}
VIEW_ATTRS = {'T', 'real', 'imag', 'flat', 'data'}
VIEW_FUNCS = {'asarray', 'asanyarray', 'atleast_1d', 'atleast_2d', 'atleast_3d', 'ravel', 'reshape', 'squeeze', 'transpose',
              'rollaxis', 'moveaxis', 'swapaxes', 'real', 'imag', 'ascontiguousarray', 'asfortranarray', 'broadcast_to',
              'expand_dims', 'require'}
MUTATORS = {'fill', 'sort', 'resize', 'put', 'itemset', 'setfield', 'partition', 'byteswap', 'pop', 'update', 'setdefault',
            'clear', 'append', 'extend', 'insert', 'remove', 'popitem', 'reverse'}
MUT_FUNCS = {'copyto', 'put', 'place', 'putmask', 'fill_diagonal', 'put_along_axis'}
WRITE_FUNCS = [('nitime/algorithms/spectral.py', f) for f in
               ('periodogram', 'periodogram_csd', 'mtm_cross_spectrum', 'multi_taper_psd', 'multi_taper_csd', 'get_spectra',
                'get_spectra_bi')] + [('nitime/utils.py', 'tapered_spectra')]


def base_name(node):
    """x, x[...], x.attr, x[...][...] -> 'x' ('self.attr' for attributes of self)"""
    while isinstance(node, (ast.Subscript, ast.Attribute, ast.Starred)):
        if isinstance(node, ast.Attribute) and isinstance(node.value, ast.Name) and node.value.id == 'self':
            return 'self.' + node.attr
        node = node.value
    return node.id if isinstance(node, ast.Name) else None


def may_alias(e, al):
    """names of `al` (name -> set of parameters it may view) that the value of expression `e` may be a view of"""
    if isinstance(e, ast.Name):
        return set(al.get(e.id, ()))
    if isinstance(e, ast.Attribute):
        return may_alias(e.value, al) if e.attr in VIEW_ATTRS else set()
    if isinstance(e, (ast.Subscript, ast.Starred)):
        return may_alias(e.value, al)
    if isinstance(e, ast.IfExp):
        return may_alias(e.body, al) | may_alias(e.orelse, al)
    if isinstance(e, ast.BoolOp):
        return set().union(*[may_alias(v, al) for v in e.values])
    if isinstance(e, ast.Call):
        f = e.func
        if isinstance(f, ast.Attribute) and f.attr in VIEW_METHODS:
            return may_alias(f.value, al)
        name = f.attr if isinstance(f, ast.Attribute) else (f.id if isinstance(f, ast.Name) else None)
        if name in VIEW_FUNCS and e.args:
            return may_alias(e.args[0], al)
    return set()


def write_sets(fn):
    params = [a.arg for a in fn.args.args + fn.args.kwonlyargs if a.arg != 'self']
    al = {p: {p} for p in params}
    changed = True
    while changed:
        changed = False

        def bind(t, v):
            nonlocal changed
            if isinstance(t, ast.Name):
                new = may_alias(v, al) if v is not None else set()
                if not new <= al.get(t.id, set()):
                    al.setdefault(t.id, set()).update(new)
                    changed = True
            elif isinstance(t, (ast.Tuple, ast.List)):
                if isinstance(v, (ast.Tuple, ast.List)) and len(v.elts) == len(t.elts):
                    for a, b in zip(t.elts, v.elts):
                        bind(a, b)
        for node in ast.walk(fn):
            if isinstance(node, ast.Assign):
                for t in node.targets:
                    bind(t, node.value)
            elif isinstance(node, ast.For):
                bind(node.target, node.iter)          # rows of a view are views
            elif isinstance(node, ast.NamedExpr):
                bind(node.target, node.value)
    writes = set()

    def store(t):
        if isinstance(t, (ast.Tuple, ast.List)):
            for x in t.elts:
                store(x)
        elif isinstance(t, (ast.Subscript, ast.Attribute)):
            b = base_name(t)
            if b:
                writes.add(b)
    for node in ast.walk(fn):
        if isinstance(node, ast.AugAssign):
            b = base_name(node.target)
            if b:
                writes.add(b)
        elif isinstance(node, ast.Assign):
            for t in node.targets:
                store(t)
        elif isinstance(node, ast.For):
            store(node.target)
        elif isinstance(node, ast.Call):
            f = node.func
            if isinstance(f, ast.Attribute) and f.attr in MUTATORS:
                b = base_name(f.value)
                if b:
                    writes.add(b)
            name = f.attr if isinstance(f, ast.Attribute) else (f.id if isinstance(f, ast.Name) else None)
            if name in MUT_FUNCS and node.args:
                b = base_name(node.args[0])
                if b:
                    writes.add(b)
            for kw in node.keywords:
                if kw.arg == 'out':
                    b = base_name(kw.value)
                    if b:
                        writes.add(b)
    # AugAssign on a plain local NUMBER (N += 1) is harmless but indistinguishable here: it is reported too, which only
    # matters when that name may alias a parameter (then the obligation re-opens and a human looks)
    views = {p: sorted(n for n, ps in al.items() if p in ps) for p in params}
    return params, sorted(writes), views


def lean_str_list(xs):
    return '[' + ', '.join('"%s"' % x for x in xs) + ']'


def gen_specwrites():
    echo, w_lines, a_lines, p_lines = {}, [], [], []
    for path, name in WRITE_FUNCS:
        try:
            fn = tr.find_func(tr.parse(path), name)
            if fn is None:
                raise Unsupported('function %s not found' % name)
            params, writes, views = write_sets(fn)
        except Exception as e:           # noqa
            echo['writes_' + name] = {'unparsed': str(e)}
            # unknown: every parameter counts as written (the theorem then fails: broken obligation)
            params, writes, views = ['?'], ['?'], {'?': ['?']}
        echo['writes_' + name] = {'writes': writes, 'views': {p: v for p, v in views.items() if v != [p]}}
        w_lines.append('  | "%s" => %s' % (name, lean_str_list(writes)))
        p_lines.append('  | "%s" => %s' % (name, lean_str_list(params)))
        for p in params:
            a_lines.append('  | "%s", "%s" => %s' % (name, p, lean_str_list(views[p])))
    text = ('-- GENERATED by harness/translate_c04.py from nitime/algorithms/spectral.py, nitime/utils.py (in-place write sets and\n'
            '-- parameter views of the spectral estimators). DO NOT EDIT.\n'
            'namespace Nitime.Generated.SpecWrites\n\n'
            '/-- the estimator entry points analysed -/\ndef functions : List String := %s\n\n'
            '/-- parameters of each function -/\ndef params : String → List String\n%s\n  | _ => []\n\n'
            '/-- local names modified in place (aug-assignment, subscript / attribute store, mutating method, out=) -/\n'
            'def writes : String → List String\n%s\n  | _ => []\n\n'
            '/-- local names that may hold the parameter or a view of it -/\n'
            'def views : String → String → List String\n%s\n  | _, _ => []\n\n'
            '/-- does the function modify, in place, a name that may be (a view of) the parameter? -/\n'
            'def writesAlias (fn p : String) : Bool := (views fn p).any fun a => (writes fn).contains a\n\n'
            'end Nitime.Generated.SpecWrites\n') % (lean_str_list([n for _, n in WRITE_FUNCS]), '\n'.join(p_lines), '\n'.join(w_lines), '\n'.join(a_lines))
    return 'SpecWrites.lean', text, echo



# ------------------------------------------------------------------ SpectralAnalyzer: which object each getter takes the sampling rate from
AN_GETTERS = [('psd', 'psd'), ('cpsd', 'cpsd'), ('periodogram', 'periodogram'), ('multiTaper', 'spectrum_multi_taper'), ('fourier', 'spectrum_fourier')]
RATE_NAMES = ('Fs', 'sampling_rate')


def _u(n):
    try:
        return ast.unparse(n)
    except Exception:
        return '?'


def classify_rate(e):
    t = _u(e).replace('"', "'")
    if t == 'self.input.sampling_rate':
        return 'heldInput'
    if t == "self.method.get('Fs', self.input.sampling_rate)":
        return 'methodEntryOrHeld'
    if t in ("self.method['Fs']", "self.method.get('Fs')"):
        return 'methodEntry'
    return 'unknown'


def getter_spec(fn):
    """(src, writesMethodFs, echo): every expression that reaches a `Fs=` / `sampling_rate=` argument, a positional rate of get_freqs, or a
    local named Fs / sampling_rate; stores into ['Fs'] of self.method (or an alias of it); the method dict handed to a callee"""
    if fn is None:
        return 'unknown', False, 'NOT FOUND'
    aliases = {'self.method'}
    for n in ast.walk(fn):
        if isinstance(n, ast.Assign) and _u(n.value) in aliases:
            for t in n.targets:
                aliases.add(_u(t))
    local = {}
    for n in ast.walk(fn):
        if isinstance(n, ast.Assign) and len(n.targets) == 1 and isinstance(n.targets[0], ast.Name) and n.targets[0].id in RATE_NAMES:
            local.setdefault(n.targets[0].id, []).append(n.value)
    cands, writes, bad_write, passes_dict = [], False, False, False
    for n in ast.walk(fn):
        if isinstance(n, ast.Assign):
            for t in n.targets:
                if isinstance(t, ast.Subscript) and _u(t.value) in aliases and isinstance(t.slice, ast.Constant) and t.slice.value == 'Fs':
                    if classify_rate(n.value) == 'heldInput':
                        writes = True
                    else:
                        bad_write = True
        if isinstance(n, ast.Call):
            for kw in n.keywords:
                if kw.arg in RATE_NAMES:
                    cands.append(kw.value)
                if kw.arg == 'method' and _u(kw.value) in aliases:
                    passes_dict = True
            if _u(n.func).endswith('get_freqs') and n.args:
                cands.append(n.args[0])
    for v in local.values():
        cands += v
    kinds = set()
    for c in cands:
        if isinstance(c, ast.Name) and c.id in local:
            continue                                  # a local: its own assignment is a candidate already
        kinds.add(classify_rate(c))
    if passes_dict:
        kinds.add('methodEntry')
    if bad_write or len(kinds) != 1:
        return 'unknown', writes, 'rate expressions: %s' % sorted(_u(c) for c in cands)
    return kinds.pop(), writes, 'rate expressions: %s%s' % (sorted({_u(c) for c in cands}), '; method dict handed on' if passes_dict else '')


def ctor_fs(fn):
    """what SpectralAnalyzer.__init__ stores under 'Fs' in self.method: in the `method is None` branch / in the other branch"""
    if fn is None:
        return 'unknown', 'NOT FOUND'
    ifs = [n for n in ast.walk(fn) if isinstance(n, ast.If) and _u(n.test) == 'method is None']
    if len(ifs) != 1:
        return 'unknown', '%d tests of `method is None`' % len(ifs)

    def stores(body):
        out = []
        for st in body:
            for n in ast.walk(st):
                if isinstance(n, ast.Assign):
                    for t in n.targets:
                        if _u(t) == 'self.method' and isinstance(n.value, ast.Dict):
                            for k, v in zip(n.value.keys, n.value.values):
                                if isinstance(k, ast.Constant) and k.value == 'Fs':
                                    out.append(classify_rate(v))
                        if isinstance(t, ast.Subscript) and _u(t.value) == 'self.method' and isinstance(t.slice, ast.Constant) and t.slice.value == 'Fs':
                            out.append(classify_rate(n.value))
        return out
    a, b = stores(ifs[0].body), stores(ifs[0].orelse)
    # stores after the if statement apply to both branches
    after = []
    seen = False
    for st in fn.body:
        if st is ifs[0]:
            seen = True
        elif seen:
            after += stores([st])
    a, b = a + after, b + after
    how = 'method None: %s; method given: %s' % (a, b)
    if any(x != 'heldInput' for x in a + b):
        return 'unknown', how
    if a and b:
        return 'always', how
    if a and not b:
        return 'onlyWhenMethodNone', how
    if not a and not b:
        return 'never', how
    return 'unknown', how


def gen_ansess():
    tree = tr.parse('nitime/analysis/spectral.py')
    rows, echo = [], {}
    for lean, name in AN_GETTERS:
        src, w, how = getter_spec(tr.find_func(tree, name, cls='SpectralAnalyzer'))
        rows.append((lean, name, src, w, how))
        echo[name] = {'rate_from': src, 'writes_method_Fs_from_held_input': w, 'how': how}
    c, chow = ctor_fs(tr.find_func(tree, '__init__', cls='SpectralAnalyzer'))
    echo['__init__'] = {'stores_Fs': c, 'how': chow}
    # BaseAnalyzer.set_input must not touch self.method (the session model's set_input swaps the input and clears the memo only)
    base = tr.parse('nitime/analysis/base.py')
    si = tr.find_func(base, 'set_input', cls='BaseAnalyzer')
    own = tr.find_func(tree, 'set_input', cls='SpectralAnalyzer')
    touches = own is not None or si is None or any('method' in _u(n) for n in ast.walk(si) if isinstance(n, (ast.Assign, ast.AugAssign, ast.Call)))
    echo['set_input'] = {'touches_method_or_overridden': bool(touches)}
    lines = ['-- GENERATED by harness/translate_c04.py (gen_ansess) from SpectralAnalyzer (nitime/analysis/spectral.py, analysis/base.py). DO NOT EDIT.',
             'import Nitime.Model.C04Sess', 'namespace Nitime.Generated.AnalyzerFs', 'open Nitime.C04.Sess', '']
    for lean, name, src, w, how in rows:
        lines += ['/-- `SpectralAnalyzer.%s`: %s -/' % (name, how.replace('-/', '- /')),
                  'def %s : GetterSpec := ⟨.%s, %s⟩' % (lean, src, 'true' if w else 'false'), '']
    lines += ['def table : Getter → GetterSpec', '  | .psd => psd', '  | .cpsd => cpsd', '  | .periodogram => periodogram', '  | .multiTaper => multiTaper', '  | .fourier => fourier', '',
              '/-- `SpectralAnalyzer.__init__` (%s) -/' % chow.replace('-/', '- /'), 'def ctor : CtorFs := .%s' % c, '',
              '/-- `set_input` is `BaseAnalyzer.set_input` and does not touch `self.method` -/',
              'def setInputIsBase : Bool := %s' % ('false' if touches else 'true'), '',
              'end Nitime.Generated.AnalyzerFs', '']
    return 'AnalyzerFs.lean', '\n'.join(lines), echo


GENERATORS = [gen_specidx, gen_specwrites, gen_ansess]

if __name__ == '__main__':
    for g in GENERATORS:
        n, t, e = g()
        print(t)
        print(e)
