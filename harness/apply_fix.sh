#!/bin/bash
# apply_fix.sh <diff> <commit message (must start with "fix:")>
# applies the diff to /repo, runs the pinned suite (all 139 stable tests must pass), commits; reverts on failure
set -u
D=$(readlink -f "$1"); MSG=$2
cd /repo
if ! git diff --quiet; then echo "REPO DIRTY"; exit 3; fi
if ! patch -p1 --no-backup-if-mismatch -s < "$D"; then echo "PATCH DOES NOT APPLY: $D"; git checkout -- .; exit 3; fi
if /venv/bin/python /verif/harness/baseline.py /repo | tail -4; then
  git add -A && git commit -q -m "$MSG" && echo "COMMITTED $(git rev-parse --short HEAD) $(basename $D)"
else
  echo "SUITE REGRESSED — reverted: $D"; git checkout -- .; exit 1
fi
