"""C05 — frequency axes are the true bin frequencies in Hz.

Correspondence: every function / analyzer that returns a frequency vector is called through the
public API; the Lean model evaluates the grid term that `translate_c05.py` extracted from the
CURRENT source for that site (exact rationals) and the two are compared at 4 ulp.  The model follows
the code, so it agrees with the implementation also where the code's formula is wrong; it is the
ORACLE (fractions.Fraction, independent of Lean) that judges the implementation against the
property: entry k = k·Fs/NFFT, an on-bin sinusoid peaks at the reported frequency of its bin, a band
selection keeps exactly the bins whose true frequency lies in the band.
"""
import math, warnings
from fractions import Fraction as Fr
import numpy as np
import common
from common import Case, Failure, f2x, x2f, flist, parse_flist, ilist, err_kind

PID = 'C05'
LEAN_TARGETS = ['Nitime.Props.C05']
RULE = ('one case = one public call (estimator function or analyzer attribute) returning a frequency vector. Blocks: (1) per call, '
        'Fs in {0.5,1,2,10,125,250,1000,44100, random floats, 2pi} x data length n in [4,28] (quick) with parity, NFFT mode {none, larger of the '
        'other parity, equal, smaller}, channels {1,2,4}, real/complex, unit {s,ms,us}, interval-vs-rate and band mode {none, between bins, on bins, '
        'outside the grid, inverted lb>ub, degenerate} STRATIFIED by the case index; (2) every two-sided site at N in {49,61,98,103,121,122} x '
        'Fs in {1, 2pi, 1000} and a sweep N = 2..131 (thorough: ..400) of periodogram / periodogram_csd / get_freqs, on every seed; (3) re-targeted '
        'analyzers: every analyzer x {set_input, parameters + reset(), both} x what was read on the first input {freq, spec, both orders} x read '
        'order after re-targeting {frequencies first, spectrum first}, judged against a fresh analyzer and the true grid (the vector handed out '
        'on the first input is kept and must read the same at the end); (4) read histories of ONE analyzer: every analyzer x every OTHER result '
        'its class offers (one-time attributes / properties found by introspection of the live class) x {hand out the frequencies, read the other, '
        'hand out again | the other first}, plus all other results in a drawn order, plus that followed by reset() and a second round; banded '
        'analyzers once with the DC bin in the band and once with a stratified band; every vector handed out is kept and inspected AT THE END; '
        '(5) several LIVE analyzers: every ordered pair of {Coherence, SparseCoherence, SeedCoherence, Spectral (psd / cpsd / both orders)} '
        '(thorough: also triples) on inputs of different rates and units x method dict {one caller dict for all, an equal dict each, method=None, no method argument at all (a mutable default), '
        'for all, dict for the first + None} x event order {build both then read B,A | A,B | read each before the next is built, re-read at the '
        'end}: each read must be the reader\'s OWN input\'s grid; a failure under one shared caller dict that disappears with an equal dict each '
        'is the recorded finding, everything else a violation. '
        '(6) session 3: (a) a precomputed transform Sk= handed to periodogram / periodogram_csd / get_spectra / CoherenceAnalyzer(periodogram_csd): same length, zero-padded '
        '(both parities), truncated x N=/NFFT= absent / equal / different x sides x 1-d/2-d/3-d x complex64/complex128, tone on a bin of the SUPPLIED transform; '
        '(b) every site x every representation of the data (int16/int32/int64/uint8/float32/complex64/Fortran/strided/read-only/big-endian/extra leading dimension); '
        '(c) every site in a process history: the call, the same entry point and get_freqs with other rates / lengths, every result handed out (frequency vectors too) '
        'overwritten in place, the call again on fresh inputs / a NEW analyzer; (d) the optional arguments of the Welch / cache sites (n_overlap absent / 0 / N-1, '
        'window absent / array / list / float32 / function, prefer_speed_over_memory, scale_by_freq, data shorter than NFFT, explicit Fs in the method dict vs another '
        'series rate in s/ms/us) and bands with explicit 0 / None, edges on a bin and 1 ulp below / above it on grids that are exact in binary64, ub on / above Nyquist. '
        'A call of the new families that raises returns no frequency vector and is not judged (counted in the stats). '
        '(7) round 2, failure paths and aliasing: (a) ONE CoherenceAnalyzer (welch) / SparseCoherenceAnalyzer through 12 session patterns of set_input calls with series the class may refuse '
        '(1-d, a channel of ij missing, shorter than NFFT), a good series of another rate / unit, the SAME TimeSeries object after its data changed in place, a reversed and a row-strided view, '
        'reset(), with and without a caller-fixed Fs, on the analyzer itself or on a copy.copy of it (the original is read at the end); every exception is caught, vars() and the method dict are '
        'compared across a refused call, every frequency vector handed out is kept and judged at the end against the true grid of the input ACTUALLY HELD, spectral values against a fresh analyzer on that input; '
        '(b) every other analyzer with a set_input x the 7 candidate kinds; (c) Coherence / Sparse / Seed constructors with arguments they may refuse (1-d, one channel, unknown / missing this_method, '
        'seed and target rates differ) given a CALLER\'s method dict, which is compared and then used for a proper analyzer; (d) get_spectra / cache_fft refused (unknown this_method, window of the wrong '
        'length, lb > ub, non-integer NFFT), then called properly with the same dict and data. '
        '(8) ROUND 4: every entry point that takes an FFT length next to the data (the four estimators, get_spectra and CoherenceAnalyzer with multi_taper_csd / periodogram_csd / welch, SpectralAnalyzer psd / cpsd) x NFFT absent / smaller / much smaller / equal / larger / larger with the other parity than the series x both parities x sides: '
        'the frequency vector against the LENGTH and SPACING of the spectrum it accompanies (one entry per spectral value of the same call or of the same analyzer: .spectrum, .coherence, .coherency, .phase, .delay), Fs / NFFT_used with NFFT_used = max(n, NFFT) for multitaper, NFFT for periodogram / Welch; a tone of known frequency must peak at its reported frequency; '
        'utils.get_bounds called directly on exact grids with both edges on a bin and 1 ulp to either side (all nine combinations), ub=None / lb omitted, and between bins on inexact grids. '
        '(9) LONG RECORDS (oracle only, two lengths per quick run rotated by VERIF_SEED out of 2^17..2^20 and 2^k +- 1; thorough: all + 10^6): get_freqs (exact integer comparison on power-of-two grids, 4 ulp against a long-double reference otherwise), get_bounds and FilterAnalyzer.filtered_fourier (impulse probe, in s / ms / us) with edges in the upper half of the grid: '
        'on a bin and +-1 ulp (exact grids), half-way between bins and 1e-4 of a bin off a bin (other lengths), compared as integers with the exact bin set. '
        'distinct = distinct protocol line (site, Fs, N, band); non-trivial = N >= 3')
ASSUMPTIONS = ['Fs > 0 finite; N >= 2; the frequency vector is compared with the exact rational grid at 4 ulp per entry',
               'np.pi is represented in the exact runs by a 40-digit rational (theorems hold for any value of pi)',
               'mlab.psd/csd frequency vector = k*Fs/NFFT (contract, monitored: the Welch paths are compared with the true grid by the oracle on every run)',
               'analyzer cases use sampling intervals whose rate 1e12/dt_ps is an exactly representable double, or sampling_rate= given directly']
TRUSTED_EXTRA = ['harness/translate_c05.py gen_freqsrc: a getter body `a, b = <call>; return a|b` (docstring aside) is a component of that call, anything else is .other -> Generated/FreqSrc.lean; that NFFT_used of the multitaper estimators is max(n, NFFT) is GENERATED (GridLens) and proved, the oracle uses the documented rule independently',
                 'harness/translate_c05.py gen_setinput: which statements of set_input / __init__ are a possible raise (a `raise` under a condition, a call of a method of the class whose body contains a raise), a reset(), '
                 'a write of self.input / self.method[\'Fs\'] (or the rebinding self.method = dict(self.method, Fs=…)); local bindings are skipped, anything else is .unknown and the theorems stop checking -> Generated/SetInput.lean; '
                 'that an exception ends the body with the state reached so far, and that every Fs-dependent getter of Coherence/SparseCoherenceAnalyzer reads method[\'Fs\'] (Nitime/Model/CohSession.lean), is monitored by the `sess` / `ctor` correspondence',
                 'harness/translate_c05.py gen_lens: symbolic execution of the estimators up to the statement that builds the grid (which assignments / tests / calls are understood is '
                 'listed in its header; anything else becomes .bad and the theorem stops checking) -> Generated/GridLens.lean; that fft(x, n=L) returns L points and that reshape / rollaxis '
                 'of the forms recognised keep the last axis is trusted numpy semantics, monitored by the `gridx` correspondence',
                 'harness/translate_c05.py: AST -> GridExpr for each site (echoed in the evidence); which expression of a function is "the" frequency vector is fixed there',
                 'harness/translate_c05.py gen_methods: what each analyzer constructor stores in self.method (dict display for None, the caller\'s object or a copy, Fs fill) -> Generated/Methods.lean; '
                 'the Fs reads/writes of the frequency getters in Nitime/Model/C05Hist.lean (Two.step: freq, cpsd) are transcribed by hand and monitored by the `two` correspondence',
                 'Nitime/Model/C05Hist.lean Hist: getters allocate their result and never write into an existing array (the intended behaviour; an implementation that does is reported by the `hist` correspondence and the oracle)',
                 'numpy semantics of linspace / rfftfreq / arange / searchsorted as written in Nitime/Model/C05Grid.lean (checked against numpy on every run by the correspondence)',
                 'float evaluation of the grid formulas is not modelled: exact rational value vs float vector at 4 ulp',
                 'sinusoid_peak_bin is stated for the mathematical DFT (primitive root of unity); that fftpack.fft is that DFT is checked only by the on-bin oracle runs']

warnings.simplefilter('ignore')


# ------------------------------------------------------------------ numeric helpers
def ulp(x):
    return math.ulp(abs(x)) if x != 0 else 5e-324


def parse_rats(s):
    return [] if s == '-' else [Fr(t) for t in s.split(',')]


def close4(fl, rats, cancel=False):
    """floats vs exact rationals at 4 ulp per entry (cancel: entries near 0 of a grid that starts
    at -Fs/2 are computed with the absolute error of the largest entry)"""
    if len(fl) != len(rats):
        return False
    scale = max([abs(x) for x in fl] + [abs(float(q)) for q in rats] + [0.0])
    for a, q in zip(fl, rats):
        if a != a or abs(a) == float('inf'):
            return False
        tol = 4 * ulp(max(abs(a), abs(float(q))))
        if cancel:
            tol = max(tol, 4 * ulp(scale))
        if abs(Fr(a) - q) > Fr(tol):
            return False
    return True


def cmp_grid(cancel=False):
    def cmp(impl, model):
        if impl.startswith('err') or not (model == '-' or model[0].isdigit() or model[0] == '-'):
            return impl == model
        try:
            return close4(parse_flist(impl), parse_rats(model), cancel)
        except Exception:
            return False
    return cmp


# ------------------------------------------------------------------ the calls
UNIT_PS = {'s': 10**12, 'ms': 10**9, 'us': 10**6}
# (unit, interval in that unit, exact rate in Hz) — rates exactly representable
INTERVALS = [('s', 1.0, Fr(1)), ('s', 2.0, Fr(1, 2)), ('s', 0.5, Fr(2)), ('ms', 100.0, Fr(10)), ('ms', 4.0, Fr(250)),
             ('ms', 8.0, Fr(125)), ('ms', 1.0, Fr(1000)), ('us', 2.0, Fr(500000)), ('us', 1000.0, Fr(1000)),
             ('us', 250.0, Fr(4000)), ('ms', 500.0, Fr(2)), ('s', 4.0, Fr(1, 4))]
FS_VALUES = [0.5, 1.0, 2.0, 10.0, 125.0, 250.0, 1000.0, 44100.0, 3.7, 1.0 / 3.0, 2 * math.pi, 8.0, 100.0]


def data_for(m):
    if m.get('_data') is not None:           # run-time only (never in a replay file): the samples as they are now
        return np.array(m['_data'])
    r = np.random.RandomState(m.get('dseed', 0))
    n = m['n']
    nch = m.get('nch', 2)       # number of channels: 1 (a single-channel shortcut must report the same grid), 2, 4
    x = r.randn(nch, n)
    if m.get('k0') is not None:
        # on-bin sinusoid at bin k0 of an N-point transform (N = m['N'])
        t = np.arange(n)
        ph = 2 * np.pi * m['k0'] * t / m['N']
        if m.get('complex'):
            x = np.vstack([np.exp(1j * (ph + 0.3 * c)) for c in range(nch)])
        else:
            x = np.vstack([np.cos(ph + 0.2 + 0.7 * c) for c in range(nch)])
    elif m.get('complex'):
        x = x + 1j * r.randn(nch, n)
    return data_variant(x, m.get('dvar'))


DVARS = ('int16', 'int32', 'int64', 'uint8', 'float32', 'complex64', 'F', 'strided', 'readonly', 'bigendian', '3d')


def data_variant(x, kind):
    """the same recording in another representation (harness/histories.dtype_family); the frequency axis of a result
    does not depend on the sample values, so the expectation is unchanged.  '3d': an extra leading dimension."""
    if not kind:
        return x
    if kind == '3d':
        return np.array([x, 2.0 * x])
    import histories
    v = histories.dtype_family(x, kinds=(kind,))
    if not v:
        raise NotApplicable(kind)
    return v[0][1]


class NotApplicable(Exception):
    pass


def mk_ts(m, data):
    import nitime.timeseries as ts
    o = m.get('opts') or {}
    if o.get('series_interval') is not None:       # an explicit 'Fs' in the method dict (m['Fs']) overrides this rate
        return ts.TimeSeries(data, sampling_interval=o['series_interval'], time_unit=m['unit'])
    if o.get('series_fs') is not None:
        return ts.TimeSeries(data, sampling_rate=x2f(o['series_fs']), time_unit=m.get('unit', 's'))
    if m.get('interval') is not None:
        return ts.TimeSeries(data, sampling_interval=m['interval'], time_unit=m['unit'])
    return ts.TimeSeries(data, sampling_rate=x2f(m['Fs']), time_unit=m.get('unit', 's'))


def welch_method(m, base):
    """the method dict of a Welch / cache call with the optional entries of m['opts']: n_overlap absent / 0 / other,
    window absent / array / list / float32 array / function, an explicit 'Fs' that differs from the series' own rate"""
    o = m.get('opts') or {}
    d = dict(base)
    N = m['N']
    if 'nov' in o:
        if o['nov'] is None:
            d.pop('n_overlap', None)
        else:
            d['n_overlap'] = o['nov']
    w = o.get('window')
    if w:
        vals = np.hamming(N)
        d['window'] = {'array': vals, 'list': [float(v) for v in vals], 'float32': vals.astype(np.float32),
                       'intarr': np.arange(1, N + 1), 'func': (lambda x, h=vals: h * x)}[w]
    if o.get('fs_dict'):
        d['Fs'] = x2f(m['Fs'])
    return d


def cache_kw(m):
    o = m.get('opts') or {}
    kw = {}
    if 'psm' in o:
        kw['prefer_speed_over_memory'] = o['psm']
    if 'sbf' in o:
        kw['scale_by_freq'] = o['sbf']
    return kw


def fs_true(m):
    if (m.get('opts') or {}).get('fs_dict'):
        return Fr(x2f(m['Fs']))
    if m.get('interval') is not None:
        return Fr(10**12) / (Fr(m['interval']) * UNIT_PS[m['unit']])
    return Fr(x2f(m['Fs']))


# call table: name -> (site, kind, opkind)   kind: one|two|shift|freqz ; opkind: grid|band|keep|contract
CALLS = {
    'periodogram/onesided': ('periodogram_onesided', 'one'),
    'periodogram/twosided': ('periodogram_twosided', 'two'),
    'periodogram_csd/onesided': ('periodogram_csd_onesided', 'one'),
    'periodogram_csd/twosided': ('periodogram_csd_twosided', 'two'),
    'multi_taper_psd/onesided': ('multi_taper_psd_onesided', 'one'),
    'multi_taper_psd/twosided': ('multi_taper_psd_twosided', 'two'),
    'multi_taper_csd/onesided': ('multi_taper_csd_onesided', 'one'),
    'multi_taper_csd/twosided': ('multi_taper_csd_twosided', 'two'),
    'get_freqs': ('get_freqs', 'one'),
    'get_spectra/multi_taper_csd/onesided': ('get_spectra_multi_taper_csd_onesided', 'one'),
    'get_spectra/multi_taper_csd/twosided': ('get_spectra_multi_taper_csd_twosided', 'two'),
    'get_spectra/periodogram_csd/onesided': ('get_spectra_periodogram_csd_onesided', 'one'),
    'get_spectra/periodogram_csd/twosided': ('get_spectra_periodogram_csd_twosided', 'two'),
    'get_spectra/welch': (None, 'one'),
    'cache_fft': ('cache_fft', 'one'),
    'correlation_spectrum': ('correlation_spectrum', 'one'),
    'CoherenceAnalyzer.frequencies/welch': (None, 'one'),
    'CoherenceAnalyzer.frequencies/multi_taper_csd': ('get_spectra_multi_taper_csd_onesided', 'one'),
    'CoherenceAnalyzer.frequencies/periodogram_csd': ('get_spectra_periodogram_csd_onesided', 'one'),
    'MTCoherenceAnalyzer.frequencies': ('MTCoherenceAnalyzer_frequencies', 'one'),
    'SparseCoherenceAnalyzer.frequencies': ('SparseCoherenceAnalyzer_frequencies', 'one'),
    'SeedCoherenceAnalyzer.frequencies': ('SeedCoherenceAnalyzer_frequencies', 'one'),
    'SpectralAnalyzer.psd': (None, 'one'),
    'SpectralAnalyzer.cpsd': (None, 'one'),
    'SpectralAnalyzer.periodogram/real': ('SpectralAnalyzer_periodogram_onesided', 'one'),
    'SpectralAnalyzer.periodogram/complex': ('SpectralAnalyzer_periodogram_twosided', 'two'),
    'SpectralAnalyzer.spectrum_fourier/real': ('SpectralAnalyzer_spectrum_fourier_real', 'one'),
    'SpectralAnalyzer.spectrum_fourier/complex': ('SpectralAnalyzer_spectrum_fourier_complex', 'shift'),
    'SpectralAnalyzer.spectrum_multi_taper/real': ('SpectralAnalyzer_spectrum_multi_taper_onesided', 'one'),
    'SpectralAnalyzer.spectrum_multi_taper/complex': ('SpectralAnalyzer_spectrum_multi_taper_twosided', 'two'),
    'FilterAnalyzer.filtered_fourier': ('FilterAnalyzer_filtered_fourier', 'keep'),
    'GrangerAnalyzer.frequencies': ('GrangerAnalyzer_frequencies', 'freqz'),
    'SNRAnalyzer.mt_frequencies': ('SNRAnalyzer_mt_frequencies', 'one'),
}
BANDED = ('cache_fft', 'SparseCoherenceAnalyzer.frequencies', 'SeedCoherenceAnalyzer.frequencies')
COMPLEX_CALLS = ('SpectralAnalyzer.periodogram/complex', 'SpectralAnalyzer.spectrum_fourier/complex',
                 'SpectralAnalyzer.spectrum_multi_taper/complex')
ANALYZER = [c for c in CALLS if '.' in c.split('/')[0]]


def opt(m, k):
    v = m.get(k)
    return None if v is None else x2f(v)


def run_call(m):
    """returns (f vector or index list, spectrum or None) from the REAL implementation"""
    if m.get('call') == 'two':
        return run_two(m)
    if m.get('call') == 'sk':
        return run_sk(m)
    if m.get('call') == 'nfft':
        return run_nfft(m)
    if m.get('call') == 'bounds':
        return run_bounds(m)
    if m.get('call') == 'fail':
        return run_fail(m)
    if m.get('sandwich') and not m.get('_inner'):
        return run_sandwich(m)
    import nitime.algorithms as tsa
    import nitime.utils as utils
    import nitime.analysis as an
    name = m['call']
    x = data_for(m)
    Fs = x2f(m['Fs'])
    N = m['N']
    nfft = m.get('NFFT')
    lb, ub = opt(m, 'lb'), opt(m, 'ub')
    lb = 0 if lb is None else lb
    if name.startswith('periodogram/'):
        f, p = tsa.periodogram(x, Fs=Fs, N=nfft, sides=m['sides'])
        return f, p.reshape(-1, p.shape[-1])[0]
    if name.startswith('periodogram_csd/'):
        f, p = tsa.periodogram_csd(x, Fs=Fs, NFFT=nfft, sides=m['sides'])
        return f, np.abs(p[0, 0])
    if name.startswith('multi_taper_psd/'):
        f, p, _ = tsa.multi_taper_psd(x, Fs=Fs, NFFT=nfft, sides=m['sides'], jackknife=bool(m.get('jackknife')), adaptive=bool(m.get('adaptive')),
                                      low_bias=m.get('low_bias', True), NW=m.get('NW', 1))
        return f, p.reshape(-1, p.shape[-1])[0]
    if name.startswith('multi_taper_csd/'):
        f, p = tsa.multi_taper_csd(x, Fs=Fs, NFFT=nfft, sides=m['sides'], adaptive=bool(m.get('adaptive')), low_bias=m.get('low_bias', True), NW=m.get('NW', 1))
        return f, np.abs(p[0, 0])
    if name == 'get_freqs':
        return utils.get_freqs(Fs, N), None
    if name.startswith('get_spectra/'):
        parts = name.split('/')
        if parts[1] == 'welch':
            f, p = tsa.get_spectra(x, welch_method(m, {'this_method': 'welch', 'Fs': Fs, 'NFFT': N, 'n_overlap': N // 2}))
            return f, np.abs(p[0, 0])
        md = {'this_method': parts[1], 'Fs': Fs, 'sides': parts[2]}
        if nfft is not None:
            md['NFFT'] = nfft
        f, p = tsa.get_spectra(x, md)
        return f, None
    if name == 'cache_fft':
        f, c = tsa.cache_fft(x, [(0, 1)], lb=lb, ub=ub, method=welch_method(m, {'this_method': 'welch', 'NFFT': N, 'Fs': Fs, 'n_overlap': N // 2}),
                             **cache_kw(m))
        return f, None, int(np.asarray(c['FFT_slices'][0]).shape[-1])
    if name == 'correlation_spectrum':
        f, c = tsa.correlation_spectrum(x[0], x[1], Fs=Fs, norm=bool(m['dseed'] % 2))
        return f, None
    # ---- analyzers
    if m.get('rt'):
        return run_retarget(m)
    if m.get('hist'):
        return run_history(m)
    A = an_build(name, m)
    f, spec = an_freq(name, A, m)
    return f, spec, None, None


# ------------------------------------------------------------------ analyzers: build / read / re-target
def an_build(name, m):
    """a fresh analyzer for the state described by m (rate, length, unit, NFFT, band)"""
    import nitime.analysis as an
    N = m['N']
    lb, ub = opt(m, 'lb'), opt(m, 'ub')
    lb = 0 if lb is None else lb
    if name == 'FilterAnalyzer.filtered_fourier':
        # flat-spectrum probe: an impulse; the bins that survive are read off the FFT of the output
        d = np.zeros((1, N))
        d[0, 1] = 1.0
        if m.get('dvar'):
            d = data_variant(200.0 * d, m['dvar'])
        return an.FilterAnalyzer(mk_ts(m, d), lb=lb, ub=ub)
    T = mk_ts(m, data_for(m))
    if name == 'CoherenceAnalyzer.frequencies/welch':
        return an.CoherenceAnalyzer(T, method=welch_method(m, {'this_method': 'welch', 'NFFT': N, 'n_overlap': N // 2}))
    if name.startswith('CoherenceAnalyzer.frequencies/'):
        return an.CoherenceAnalyzer(T, method={'this_method': name.split('/')[1]})
    if name == 'MTCoherenceAnalyzer.frequencies':
        return an.MTCoherenceAnalyzer(T)
    if name == 'SparseCoherenceAnalyzer.frequencies':
        return an.SparseCoherenceAnalyzer(T, ij=[(0, 1)], method=welch_method(m, {'this_method': 'welch', 'NFFT': N}), lb=lb, ub=ub, **cache_kw(m))
    if name == 'SeedCoherenceAnalyzer.frequencies':
        return an.SeedCoherenceAnalyzer(T, T, method=welch_method(m, {'NFFT': N}), lb=lb, ub=ub, **cache_kw(m))
    if name in ('SpectralAnalyzer.psd', 'SpectralAnalyzer.cpsd'):
        if m.get('retarget'):
            # the analyzer is first built on ANOTHER series (3x the rate) and then pointed at T: the frequency
            # axis must follow the rate of the series it is now analysing (a rate cached in a parameter dict at
            # construction reports the old series' grid)
            import nitime.timeseries as ts
            T0 = ts.TimeSeries(np.asarray(T.data)[..., ::-1] + 1.0, sampling_rate=float(T.sampling_rate) * 3.0, time_unit='s')
            A = an.SpectralAnalyzer(T0)           # default method dict (filled in by the constructor)
            A.method.update({'NFFT': N, 'n_overlap': N // 2})
            A.set_input(T)
            return A
        return an.SpectralAnalyzer(T, method=welch_method(m, {'NFFT': N, 'n_overlap': N // 2}))
    if name.startswith('SpectralAnalyzer.'):
        return an.SpectralAnalyzer(T)
    if name == 'GrangerAnalyzer.frequencies':
        return an.GrangerAnalyzer(T, order=1, n_freqs=N)
    if name == 'SNRAnalyzer.mt_frequencies':
        return an.SNRAnalyzer(T)
    raise KeyError(name)


def an_freq(name, A, m):
    """(frequency vector | kept bins, spectrum | None) read from analyzer A"""
    N = m['N']
    if name == 'FilterAnalyzer.filtered_fourier':
        out = A.filtered_fourier
        S = np.abs(np.fft.fft(np.asarray(out.data)[0]))
        return [k for k in range(1, N // 2 + 1) if S[k] > 0.5], None
    if name == 'SpectralAnalyzer.psd':
        f, p = A.psd
        return f, p[0]
    if name == 'SpectralAnalyzer.cpsd':
        f, p = A.cpsd
        return f, np.abs(p[0, 0])
    if name.startswith('SpectralAnalyzer.periodogram/'):
        f, p = A.periodogram
        return f, p[0]
    if name.startswith('SpectralAnalyzer.spectrum_fourier/'):
        f, p = A.spectrum_fourier
        return f, np.abs(p[0])
    if name.startswith('SpectralAnalyzer.spectrum_multi_taper/'):
        f, p = A.spectrum_multi_taper
        return f, np.abs(p[0])
    if name == 'GrangerAnalyzer.frequencies':
        f = A.frequencies
        return f, np.asarray(A.causality_xy)[0, 1] if m.get('with_values') else None
    if name == 'SNRAnalyzer.mt_frequencies':
        return A.mt_frequencies, None
    return A.frequencies, None


def an_spec(name, A):
    """read a spectrum-like attribute (not the frequency attribute) of A"""
    if name.startswith('CoherenceAnalyzer.'):
        return A.coherence
    if name == 'MTCoherenceAnalyzer.frequencies':
        return A.coherence
    if name == 'SparseCoherenceAnalyzer.frequencies':
        return A.coherence
    if name == 'SeedCoherenceAnalyzer.frequencies':
        return A.coherence
    if name.startswith('SpectralAnalyzer.spectrum_fourier/'):
        return A.periodogram
    if name.startswith('SpectralAnalyzer.'):
        return A.spectrum_fourier
    if name == 'GrangerAnalyzer.frequencies':
        return A.causality_xy
    if name == 'SNRAnalyzer.mt_frequencies':
        return A.mt_signal_psd
    if name == 'FilterAnalyzer.filtered_fourier':
        return A.filtered_fourier
    raise KeyError(name)


# how an analyzer can be re-targeted: 'set_input' (another series), 'params' (change the documented
# parameters, then reset()), 'both', 'none' (no re-targeting API: only the read order is varied)
RT_HOWS = {
    'CoherenceAnalyzer.frequencies/welch': ['set_input', 'params', 'both'],
    'CoherenceAnalyzer.frequencies/multi_taper_csd': ['set_input'],
    'CoherenceAnalyzer.frequencies/periodogram_csd': ['set_input'],
    'MTCoherenceAnalyzer.frequencies': ['set_input'],
    'SparseCoherenceAnalyzer.frequencies': ['set_input', 'params', 'both'],
    'SeedCoherenceAnalyzer.frequencies': ['none'],
    'SpectralAnalyzer.psd': ['set_input', 'params', 'both'],
    'SpectralAnalyzer.cpsd': ['set_input', 'params', 'both'],
    'SpectralAnalyzer.periodogram/real': ['set_input'],
    'SpectralAnalyzer.periodogram/complex': ['set_input'],
    'SpectralAnalyzer.spectrum_fourier/real': ['set_input'],
    'SpectralAnalyzer.spectrum_fourier/complex': ['set_input'],
    'SpectralAnalyzer.spectrum_multi_taper/real': ['set_input'],
    'SpectralAnalyzer.spectrum_multi_taper/complex': ['set_input'],
    'FilterAnalyzer.filtered_fourier': ['params'],
    'GrangerAnalyzer.frequencies': ['set_input'],
    'SNRAnalyzer.mt_frequencies': ['set_input'],
}


def an_retarget(name, A, m, how):
    """point analyzer A (built for the state m['rt']['A']) at the state m"""
    N = m['N']
    lb, ub = opt(m, 'lb'), opt(m, 'ub')
    lb = 0 if lb is None else lb
    if how in ('set_input', 'both'):
        A.set_input(mk_ts(m, data_for(m)))
    if how in ('params', 'both'):
        if name == 'FilterAnalyzer.filtered_fourier':
            A.lb, A.ub = lb, ub
        elif name == 'SparseCoherenceAnalyzer.frequencies':
            A.lb, A.ub = lb, ub
            A.method['NFFT'] = N
        else:                                   # Welch parameters of CoherenceAnalyzer / SpectralAnalyzer.psd, cpsd
            A.method['NFFT'] = N
            A.method['n_overlap'] = N // 2
        A.reset()


def run_retarget(m):
    """one analyzer object used twice: built for state A, read, re-targeted to state m (= B), read again in
    the recorded order.  Returns B's frequency vector as this object reports it, plus what a FRESH
    analyzer built for B reports."""
    name, rt = m['call'], m['rt']
    mB = {k: v for k, v in m.items() if k != 'rt'}
    mA = dict(mB)
    for k, v in rt['A'].items():           # None = the key is absent in state A
        if v is None:
            mA.pop(k, None)
        else:
            mA[k] = v
    A = an_build(name, mA)
    held = []                               # (object handed out on the first input, its content then)
    if rt['pre'] in ('freq', 'both'):
        held.append(an_freq(name, A, mA)[0])
    if rt['pre'] in ('spec', 'both'):
        an_spec(name, A)
    if rt['pre'] == 'both-rev':
        an_spec(name, A)
        held.append(an_freq(name, A, mA)[0])
    held = [(h, snapshot(h)) for h in held]
    an_retarget(name, A, mB, rt['how'])
    if rt['order'] == 'spec-first':
        an_spec(name, A)
    f, spec = an_freq(name, A, mB)
    ff, _ = an_freq(name, an_build(name, mB), mB)
    changed = [(snap, snapshot(h)) for h, snap in held if not same_vec(snap, snapshot(h))]
    return f, spec, None, ff, changed



# ------------------------------------------------------------------ read histories of ONE analyzer
FREQ_ATTR = {'SpectralAnalyzer.psd': 'psd', 'SpectralAnalyzer.cpsd': 'cpsd', 'SpectralAnalyzer.periodogram': 'periodogram',
             'SpectralAnalyzer.spectrum_fourier': 'spectrum_fourier', 'SpectralAnalyzer.spectrum_multi_taper': 'spectrum_multi_taper',
             'FilterAnalyzer.filtered_fourier': 'filtered_fourier', 'SNRAnalyzer.mt_frequencies': 'mt_frequencies'}


def freq_attr(name):
    return FREQ_ATTR.get(name.split('/')[0], 'frequencies')


def snapshot(v):
    if isinstance(v, list):
        return list(v)
    return np.array(v, dtype=float, copy=True).reshape(-1)


def same_vec(a, b):
    if isinstance(a, list) or isinstance(b, list):
        return list(a) == list(b)
    return a.shape == b.shape and bool(np.array_equal(a, b, equal_nan=True))


def result_names(A):
    """every result the analyzer object offers (one-time attributes and properties of its classes), found by
    introspection of the LIVE class, so that a result added or rewritten later is exercised too"""
    out = []
    for k in type(A).__mro__:
        for n, v in vars(k).items():
            if type(v).__name__ in ('OneTimeProperty', 'property') and not n.startswith('_') \
                    and n not in ('parameterlist', 'parameters') and n not in out:
                out.append(n)
    return out


def other_results(name):
    """names of the results, other than the frequency attribute of call `name`, of that analyzer class"""
    m = {'call': name, 'n': 40, 'N': 8, 'Fs': f2x(1.0), 'dseed': 0, 'unit': 's'}
    if name in COMPLEX_CALLS:
        m['complex'] = True
    if name in N_IS_LENGTH:
        m['N'] = 40
    A = an_build(name, m)
    return [n for n in result_names(A) if n != freq_attr(name)]


def run_history(m):
    """one analyzer, a history of reads.  events: F = read the frequency attribute and KEEP the object,
    O = read the other result(s) named in m['hist']['other'], R = reset().  Returns the last frequency read,
    plus for every F: the content at hand-out time and the content of the SAME object at the end."""
    name, h = m['call'], m['hist']
    A = an_build(name, m)
    fa = freq_attr(name)
    held, ev_seen, errs = [], '', []
    f = spec = None
    for ev in h['events']:
        if ev == 'F':
            f, spec = an_freq(name, A, m)
            held.append((f, snapshot(f)))
            ev_seen += 'F'
        elif ev == 'O':
            for o in h['other']:
                fired = fa in vars(A)
                try:
                    getattr(A, o)
                except Exception as e:  # noqa -- a result that cannot be computed on this input is not C05's matter
                    errs.append('%s: %s' % (o, err_kind(e)))
                ev_seen += 'D' if (fa in vars(A)) and not fired else 'O'
        elif ev == 'R':
            A.reset()
            ev_seen += 'R'
    views = [(snap, snapshot(obj)) for obj, snap in held]
    return f, spec, None, None, None, {'views': views, 'events': ev_seen, 'errors': errs}


# ------------------------------------------------------------------ several live analyzers, one or several method dicts
TWO_CLS = {'C': 'CoherenceAnalyzer', 'P': 'SparseCoherenceAnalyzer', 'E': 'SeedCoherenceAnalyzer', 'S': 'SpectralAnalyzer'}


OMITTED = 'omitted'          # the `method` argument is left out (not the same as method=None: a mutable default argument)


def two_build(c, T, method):
    import nitime.analysis as an
    kw = {} if method is OMITTED else {'method': method}
    if c == 'C':
        return an.CoherenceAnalyzer(T, **kw)
    if c == 'P':
        return an.SparseCoherenceAnalyzer(T, ij=[(0, 1)], **kw)
    if c == 'E':
        return an.SeedCoherenceAnalyzer(T, T, **kw)
    return an.SpectralAnalyzer(T, **kw)


def two_dicts(m, mode=None):
    """the method argument of each analyzer: 'shared' = ONE caller's dict for all, 'own' = an equal dict each,
    'none' = method=None, 'omitted' = the argument is left out; 'mixed' = the first one gets a caller's dict, the others None"""
    mode = mode or m['mode']
    N = m['N']
    mk = lambda: {'this_method': 'welch', 'NFFT': N, 'n_overlap': N // 2}
    k = len(m['ans'])
    if mode == 'shared':
        d = mk()
        return [d] * k
    if mode == 'own':
        return [mk() for _ in range(k)]
    if mode == 'mixed':
        return [mk()] + [None] * (k - 1)
    if mode == 'omitted':
        return [OMITTED] * k
    return [None] * k


def run_two(m, mode=None):
    """events: n<k> construct analyzer k, f<k> read its frequencies (SpectralAnalyzer: psd[0]), c<k> read cpsd[0].
    Returns [(k, object handed out, its content then, its content at the end)]"""
    dicts = two_dicts(m, mode)
    ans, reads = {}, []
    for ev in m['events']:
        k = int(ev[1:])
        a = m['ans'][k]
        if ev[0] == 'n':
            ans[k] = two_build(a['cls'], mk_ts(a, data_for(a)), dicts[k])
        elif ev[0] == 'f':
            v = ans[k].psd[0] if a['cls'] == 'S' else ans[k].frequencies
            reads.append((k, v, snapshot(v)))
        elif ev[0] == 'c':
            v = ans[k].cpsd[0]
            reads.append((k, v, snapshot(v)))
    return [(k, snap, snapshot(v)) for k, v, snap in reads]


def two_line(m):
    toks, mode = [], m['mode']
    if mode in ('shared', 'mixed'):
        toks.append('u')
    elif mode == 'own':
        toks += ['u'] * len(m['ans'])
    for ev in m['events']:
        k = int(ev[1:])
        if ev[0] == 'n':
            d = {'shared': '0', 'own': str(k), 'none': '-', 'omitted': '-', 'mixed': '0' if k == 0 else '-'}[mode]
            toks.append('n%s:%s:%s' % (m['ans'][k]['cls'], f2x(float(fs_true(m['ans'][k]))), d))
        else:
            toks.append(ev)
    return 'C05 two %d %s' % (m['N'], ' '.join(toks))


def two_pair(m):
    return '-'.join(TWO_CLS[a['cls']] for a in m['ans'])


def judge_two(m, res):
    pre = 'two-analyzers/%s/%s' % ({'shared': 'shared-user-method-dict', 'own': 'own-method-dict', 'none': 'method-none',
                                    'omitted': 'method-omitted', 'mixed': 'user-dict-and-none'}[m['mode']], two_pair(m))
    if isinstance(res, str):
        return [(pre + '/raises', 'analyzers %s, events %s: %s' % (two_pair(m), ' '.join(m['events']), res))]
    N, out = m['N'], []

    def wrong(reads):
        bad = []
        for k, snap, end in reads:
            want = [Fr(j) * fs_true(m['ans'][k]) / N for j in range(N // 2 + 1)]
            if len(snap) != len(want) or not close4([float(x) for x in snap], want):
                bad.append((k, snap, want))
        return bad
    bad = wrong(res)
    if bad:
        k, snap, want = bad[0]
        what = ('%s built in this order on inputs of %s Hz (%s; events %s): analyzer %d (%s, %s Hz) reports frequencies %s…%s, its own grid k*Fs/%d is %s…%s' % (
            two_pair(m), [str(fs_true(a)) for a in m['ans']],
            {'shared': 'ONE caller-supplied method dict given to all', 'own': 'an equal method dict each', 'none': 'all with method=None',
             'omitted': 'all without a method argument',
             'mixed': 'first with a method dict, the others method=None'}[m['mode']], ' '.join(m['events']), k, TWO_CLS[m['ans'][k]['cls']],
            fs_true(m['ans'][k]), [float(x) for x in snap[:3]], float(snap[-1]) if len(snap) else None, N,
            [float(q) for q in want[:3]], float(want[-1])))
        sym = 'grid'
        if m['mode'] == 'shared':
            # is the failure explained by the SHARED caller's dict?  the same experiment with an equal dict for each analyzer
            try:
                own_bad = wrong(run_two(m, 'own'))
            except Exception as e:  # noqa
                own_bad = [err_kind(e)]
            if own_bad:
                sym = 'grid-also-with-own-dicts'
        out.append(('%s/%s' % (pre, sym), what))
    for k, snap, end in res:
        if not same_vec(snap, end):
            out.append((pre + '/handed-out-vector-changed', 'analyzer %d (%s): the frequency vector it handed out read %s… and reads %s… after the later events (%s)' % (
                k, TWO_CLS[m['ans'][k]['cls']], [float(x) for x in snap[:4]], [float(x) for x in end[:4]], ' '.join(m['events']))))
            break
    return out


# ------------------------------------------------------------------ failure paths (L7) and aliasing (L8), round 2
# fam 'sess'     ONE CoherenceAnalyzer (welch) / SparseCoherenceAnalyzer through a session of set_input calls with series the
#                class may refuse (1-d, too few channels for ij, shorter than NFFT), with a good series of another rate, with
#                the SAME TimeSeries object after its data changed in place, with a reversed / row-strided view of the data
#                held; every exception caught; reset(); `.frequencies` (kept, re-inspected at the end) and spectrum values read
#                in between.  Model: `C05 sess` (the set_input body generated from the source).
# fam 'setinput' every other analyzer with a set_input: one refused / odd candidate, caught, then read.
# fam 'ctor'     constructors called with arguments they refuse (caller's method dict and series snapshot-compared), then a
#                proper analyzer built with the SAME dict and series.
# fam 'fn'       get_spectra / cache_fft / get_bounds-users called with arguments they refuse (unknown this_method, window of
#                the wrong length, lb > ub, NFFT that is no integer), then called properly with the SAME method dict and data.
SESS_CLS = {'CoherenceAnalyzer.frequencies/welch': 'coherence', 'SparseCoherenceAnalyzer.frequencies': 'sparse'}
CAND_KINDS = ('1d', 'few', 'short', 'ok', 'same-changed', 'rev-view', 'row-view')


def canon_state(v, depth=0):
    """hashable picture of an analyzer attribute / a method dict entry"""
    import hashlib
    if isinstance(v, dict):
        return tuple(sorted((str(k), canon_state(x, depth + 1)) for k, x in v.items()))
    if isinstance(v, np.ndarray):
        a = np.asarray(v)
        d = getattr(v, 'data', None)
        if type(v).__module__.startswith('nitime') and isinstance(d, np.ndarray) and d is not v:
            return ('ts', id(v), canon_state(d, depth + 1))
        try:
            return ('arr', a.shape, str(a.dtype), hashlib.md5(np.ascontiguousarray(a).tobytes()).hexdigest())
        except Exception:
            return ('arr', a.shape, str(a.dtype))
    if isinstance(v, (list, tuple)) and depth < 3:
        return tuple(canon_state(x, depth + 1) for x in v)
    if isinstance(v, (int, float, str, bool, type(None), complex)):
        return v
    try:
        return ('num', float(v))
    except Exception:
        return ('obj', id(v))


def analyzer_state(A):
    st = {}
    for k, v in vars(A).items():
        st[k] = ('ts', id(v)) if k in ('input', 'seed', 'target') else canon_state(v)
    return st


def state_diff(a, b):
    return sorted(k for k in set(a) | set(b) if a.get(k) != b.get(k))


def cand_rate(c):
    """the sampling rate of candidate c's own series, Hz (exact)"""
    if c.get('interval') is not None:
        return Fr(10**12) / (Fr(c['interval']) * UNIT_PS[c['unit']])
    return Fr(x2f(c['Fs']))


def cand_meta(mA, c):
    """the ordinary call description of the analyzer's state if candidate c is the input held"""
    mm = {k: v for k, v in mA.items() if k not in ('interval',)}
    mm.update(unit=c.get('unit', 's'), n=c['n'], dseed=c['dseed'])
    if (mA.get('opts') or {}).get('fs_dict'):
        # the caller fixed 'Fs' in the method dict: the series' own rate is not to be used
        mm['opts'] = dict(mA['opts'], series_fs=f2x(float(cand_rate(c))))
    else:
        mm['Fs'] = c['Fs']
        if c.get('interval') is not None:
            mm['interval'] = c['interval']
    if mA['call'] in N_IS_LENGTH:
        mm['N'] = c['n']
    return mm


def cand_series(mA, c, held):
    """the object handed to set_input for candidate c (held: the TimeSeries the analyzer holds now)"""
    import nitime.timeseries as ts
    kind = c['kind']
    if kind == 'same-changed':          # the SAME object again, its samples changed in place meanwhile
        np.asarray(held.data)[...] = data_for(cand_meta(mA, c)).reshape(np.asarray(held.data).shape)
        return held
    mm = cand_meta(mA, c)
    x = data_for(mm)
    if kind == '1d':
        x = x[0]
    elif kind == 'few':
        x = x[:1]
    elif kind == 'rev-view':            # a reversed view of the samples held
        x = np.asarray(held.data)[..., ::-1]
    elif kind == 'row-view':            # a row-strided view of a larger block
        big = np.vstack([x, x[::-1], 2.0 * x])
        x = big[::2][:x.shape[0]] if x.shape[0] > 1 else big[:1]
    return mk_ts(mm, x)


def read_value(name, A):
    """a spectrum-like VALUE of the analyzer that depends on Fs (power spectral density / delay), as a flat float array"""
    if name.startswith('CoherenceAnalyzer.'):
        return np.abs(np.asarray(A.spectrum)).reshape(-1)
    if name == 'SparseCoherenceAnalyzer.frequencies':
        sp = A.spectrum
        return np.concatenate([np.real(np.asarray(sp[k])).reshape(-1) for k in sorted(sp)])
    r = an_spec(name, A)
    if isinstance(r, tuple):
        r = r[1]
    return np.abs(np.asarray(getattr(r, 'data', r), dtype=complex)).reshape(-1)


def run_fail(m):
    fam = m['fam']
    if fam in ('sess', 'setinput'):
        return run_sess(m)
    if fam == 'ctor':
        return run_ctor(m)
    return run_fn(m)


def run_sess(m):
    name, mA = m['site'], dict(m['base'])
    A = an_build(name, mA)
    A0 = None
    if m.get('shallow'):
        # L8: the session runs on a SHALLOW COPY of the analyzer (copy.copy shares the method dict and every other
        # container with the original); the original, never re-targeted, must go on reporting its own input's axis
        import copy
        A0, A = A, copy.copy(A)
    inputs, metas = [A.input], [mA]
    reads, seen, changed, val_bad, nraise = [], [], [], [], 0
    for ev in m['events']:
        if ev['op'] == 's':
            c = ev['cand']
            held = A.input
            try:
                T = cand_series(mA, c, held)
            except Exception:  # noqa -- the candidate cannot be built (not this analyzer's matter)
                continue
            if c['kind'] == 'same-changed':
                hid = [i for i, t in enumerate(inputs) if t is held][0]
                metas[hid] = dict(metas[hid], dseed=c['dseed'])
            before, dbefore = analyzer_state(A), canon_state(getattr(A, 'method', None))
            try:
                A.set_input(T)
                raised = None
            except Exception as e:  # noqa -- a refused call: the caller goes on with the analyzer
                raised = err_kind(e)
            if raised:
                nraise += 1
                d = state_diff(before, analyzer_state(A))
                if d or canon_state(getattr(A, 'method', None)) != dbefore:
                    changed.append({'after': '%s(%s)' % (c['kind'], raised), 'attributes': d,
                                    'method_dict_changed': canon_state(getattr(A, 'method', None)) != dbefore})
            if T is not held:
                inputs.append(T)
                metas.append(cand_meta(mA, c) if c['kind'] not in ('1d', 'few') else dict(cand_meta(mA, c), degenerate=c['kind']))
            seen.append('s%s:%d:%d' % (f2x(float(cand_rate(c))), 1 if raised else 0, [i for i, t in enumerate(inputs) if t is T][0]))
        elif ev['op'] == 'r':
            A.reset()
            seen.append('r')
        else:
            hid = ([i for i, t in enumerate(inputs) if t is A.input] or [-1])[0]
            mh = metas[hid] if hid >= 0 else None
            try:
                if ev['op'] == 'f':
                    f = an_freq(name, A, mh or mA)[0]
                    if mh is not None and mh.get('degenerate'):
                        # a 1-d / one-channel series that the class ACCEPTED: its samples are read as channels; outside the
                        # property's quantifier, exercised but not recorded
                        SKIPPED['sess-read'] = SKIPPED.get('sess-read', 0) + 1
                        continue
                    reads.append((hid, f, snapshot(f)))
                    seen.append('f')
                else:
                    v = np.array(read_value(name, A), dtype=float)
                    if mh is not None and not mh.get('degenerate'):
                        w = np.array(read_value(name, an_build(name, dict(mh, _data=np.array(np.asarray(A.input.data), copy=True)))), dtype=float)
                        if v.shape != w.shape or not np.allclose(v, w, rtol=1e-9, atol=1e-12 * (np.abs(w).max() if w.size else 1.0), equal_nan=True):
                            val_bad.append({'held': hid, 'got': [float(t) for t in v[:3]], 'fresh': [float(t) for t in w[:3]]})
            except Exception:  # noqa -- a result that cannot be computed on a degenerate input that was ACCEPTED: not judged
                SKIPPED['sess-read'] = SKIPPED.get('sess-read', 0) + 1
    views = [(hid, snap, snapshot(obj)) for hid, obj, snap in reads]
    out = {'views': views, 'metas': metas, 'seen': seen, 'changed': changed, 'val_bad': val_bad, 'nraise': nraise}
    if A0 is not None:
        try:
            out['orig'] = snapshot(an_freq(name, A0, mA)[0])
        except Exception as e:  # noqa
            out['orig'] = 'err ' + err_kind(e)
    return out


CTOR_KINDS = {'C': ('1d', 'bad-this-method'), 'P': ('bad-this-method', 'no-this-method', '1d', 'few'), 'E': ('rates-differ', 'bad-this-method', '1d')}
CTOR_LEAN = {'C': 'coherence', 'P': 'sparse', 'E': 'seed'}


def run_ctor(m):
    """a construction with arguments the class may refuse, given a CALLER's method dict d and series; then a proper analyzer
    with the same dict object and an equal fresh dict, on a good series of another rate"""
    import nitime.analysis as an
    import nitime.timeseries as ts
    cls, kind, N = m['cls'], m['kind'], m['N']
    mB, mG = dict(m['bad']), dict(m['good'])
    d = {'this_method': 'welch', 'NFFT': N, 'n_overlap': N // 2}
    if kind == 'bad-this-method':
        d['this_method'] = 'multi_taper_csd' if cls != 'C' else 'no_such_method'
    if kind == 'no-this-method':
        del d['this_method']
    x = data_for(mB)
    if kind == '1d':
        x = x[0]
    if kind == 'few':
        x = x[:1]
    T = mk_ts(mB, x)
    T2 = mk_ts(dict(mB, Fs=mG['Fs'], interval=None), data_for(mB)) if kind == 'rates-differ' else T
    d0, t0 = canon_state(d), canon_state(np.asarray(T.data))
    try:
        A0 = an.CoherenceAnalyzer(T, method=d) if cls == 'C' else an.SparseCoherenceAnalyzer(T, ij=[(0, 1)], method=d) if cls == 'P' \
            else an.SeedCoherenceAnalyzer(T, T2, method=d)
        raised = None
    except Exception as e:  # noqa
        raised = err_kind(e)
    written = canon_state(d) != d0
    data_changed = canon_state(np.asarray(T.data)) != t0
    out = {'raised': raised, 'written': written, 'data_changed': data_changed, 'stamped': sorted(set(d) - {'this_method', 'NFFT', 'n_overlap'})}
    if raised:
        # the caller repairs what was refused and goes on with ITS dict
        d['this_method'] = 'welch'
        G = mk_ts(mG, data_for(mG))
        own = {'this_method': 'welch', 'NFFT': N, 'n_overlap': N // 2}
        mk = lambda dd: an.CoherenceAnalyzer(G, method=dd) if cls == 'C' else an.SparseCoherenceAnalyzer(G, ij=[(0, 1)], method=dd) if cls == 'P' \
            else an.SeedCoherenceAnalyzer(G, G, method=dd)
        out['f_same'] = snapshot(mk(d).frequencies)
        out['f_own'] = snapshot(mk(own).frequencies)
    return out


FN_KINDS = ('get_spectra/unknown-method', 'get_spectra/window-length', 'cache_fft/inverted-band', 'cache_fft/window-length',
            'cache_fft/unknown-method', 'cache_fft/nfft-float', 'get_spectra/nfft-float')


def run_fn(m):
    """the function called with arguments it refuses, the exception caught; then called properly with the SAME method dict
    object (the refused entry repaired by the caller) and the same data array"""
    import nitime.algorithms as tsa
    fn, kind = m['kind'].split('/')
    N, Fs = m['N'], x2f(m['Fs'])
    x = data_for(m)
    d = {'this_method': 'welch', 'NFFT': N, 'Fs': Fs, 'n_overlap': N // 2}
    good = dict(d)
    kw = {}
    if kind == 'unknown-method':
        d['this_method'] = 'no_such_method'
    elif kind == 'window-length':
        d['window'] = np.hanning(N + 3)
    elif kind == 'nfft-float':
        d['NFFT'] = N + 0.5
    elif kind == 'inverted-band':
        kw = {'lb': 0.4 * Fs, 'ub': 0.1 * Fs}
    x0 = canon_state(x)
    call = (lambda dd, **k: tsa.get_spectra(x, dd)) if fn == 'get_spectra' else (lambda dd, **k: tsa.cache_fft(x, [(0, 1)], method=dd, **k))
    try:
        call(d, **kw)
        raised = None
    except Exception as e:  # noqa
        raised = err_kind(e)
    bad_keys = [k for k in d if k not in good or canon_state(d[k]) != canon_state(good[k])]
    repaired = {k: v for k, v in d.items() if k in good}
    for k in good:
        if k in ('this_method', 'NFFT') or k not in repaired:
            repaired[k] = good[k]
    leaked = sorted(k for k in d if k not in good and k != 'window')
    d.clear()
    d.update(repaired)
    f = call(d)[0]
    return {'raised': raised, 'f': snapshot(f), 'data_changed': canon_state(x) != x0, 'leaked': leaked}


def fail_line(m, res):
    fam = m['fam']
    if fam == 'sess':
        mA = m['base']
        ufs = f2x(float(fs_true(mA))) if (mA.get('opts') or {}).get('fs_dict') else 'none'
        seen = res['seen'] if isinstance(res, dict) else []
        return 'C05 sess %s %d %s %s %s %s %s' % (SESS_CLS[m['site']], mA['N'], mA.get('lb') or '0', mA.get('ub') or 'none', ufs,
                                                   f2x(float(fs_true(mA))), ' '.join(seen))
    if fam == 'setinput':
        # the analyzer's grid for the input it holds at the end (the ordinary vector op)
        if isinstance(res, dict) and res['views']:
            mh = res['metas'][res['views'][-1][0]]
            return model_line({k: v for k, v in mh.items() if k not in ('degenerate',)})
        if isinstance(res, dict) and res['changed']:
            return 'C05 true1 x3ff0000000000000 2'          # no vector was read: only the state comparison is reported
        return model_line(dict(m['base']))
    if fam == 'ctor':
        return 'C05 ctor %s %d' % (CTOR_LEAN[m['cls']], 1 if isinstance(res, dict) and res['raised'] else 0)
    return 'C05 true1 %s %d' % (m['Fs'], m['N'])


def fail_impl(m, res):
    fam = m['fam']
    if isinstance(res, str):
        return res
    if fam == 'sess':
        return ';'.join('%d@%s' % (hid, flist(end)) for hid, snap, end in res['views']) or 'none'
    if fam == 'setinput':
        if not res['views']:
            return 'skip' if not res['changed'] else 'x0000000000000000,x3fe0000000000000'
        v = res['views'][-1][2]
        return ilist(v) if isinstance(v, list) else flist(v)
    if fam == 'ctor':
        return '%d %d' % (1 if res['written'] else 0, 1 if res['raised'] else 0)
    return flist(res['f'])


def cmp_sess(impl, model):
    if impl in ('none',) or impl.startswith('err') or model in ('none', 'unsupported', 'bad-args', 'no-such-class'):
        return impl == model
    a, b = impl.split(';'), model.split(';')
    if len(a) != len(b):
        return False
    one = cmp_grid(False)
    for x, y in zip(a, b):
        ix, vx = x.split('@')
        iy, vy = y.split('@')
        if ix != iy or not one(vx, vy):
            return False
    return True


def fail_case(m):
    try:
        res = run_fail(m)
    except NotApplicable:
        raise
    except Exception as e:  # noqa
        res = 'err ' + err_kind(e)
    fam = m['fam']
    impl = fail_impl(m, res)
    if fam == 'setinput' and impl == 'skip':
        res = 'err skipped'
    kind = CALLS[m['site']][1] if fam == 'setinput' and not (isinstance(res, dict) and not res['views']) else 'one'
    cmp = cmp_sess if fam == 'sess' else None if (fam == 'ctor' or kind == 'keep') else cmp_grid(kind == 'shift')
    c = _C(fail_line(m, res), impl, '%s/%s' % ({'sess': 'refused-set_input/session', 'setinput': 'refused-set_input', 'ctor': 'refused-constructor',
                                                 'fn': 'refused-call'}[fam], m.get('site') or m.get('cls') or m.get('kind')),
           cmp=cmp, meta=m, nontrivial=True)
    c._res = res
    return c


def judge_fail(m, res):
    fam = m['fam']
    out = []
    if isinstance(res, str):
        return out if res == 'err skipped' else [('%s/%s/raises' % (fam, m.get('site') or m.get('cls') or m.get('kind')), 'the harness could not run the scenario: ' + res)]
    if fam in ('sess', 'setinput'):
        name = m['site']
        pre = '%s/refused-set_input' % name
        evs = ' '.join(e['op'] if e['op'] != 's' else 's(%s)' % e['cand']['kind'] for e in m['events'])
        for ch in res['changed']:
            out.append((pre + '/state-changed', '%s: set_input %s raised, yet the analyzer is not as it was: attributes %s%s (events: %s)' % (
                name, ch['after'], ch['attributes'], ', method dict changed' if ch['method_dict_changed'] else '', evs)))
            break
        for i, (hid, snap, end) in enumerate(res['views']):
            if hid < 0:
                out.append((pre + '/input-lost', '%s holds an input that is none of the series it was given (events: %s)' % (name, evs)))
                break
            mh = {k: v for k, v in res['metas'][hid].items() if k != 'degenerate'}
            js = judge_one(mh, (end, None, None, None), pre)
            for key, what in js:
                if key not in [k for k, _ in out]:
                    out.append((key, 'events %s (set_input outcomes as observed: %s): read #%d, input held = series #%d: %s' % (evs, ' '.join(res['seen']), i + 1, hid, what)))
            if not same_vec(snap, end) and pre + '/handed-out-vector-changed' not in [k for k, _ in out]:
                out.append((pre + '/handed-out-vector-changed', '%s: the vector handed out at read #%d read %s… then and reads %s… at the end (events %s)' % (
                    name, i + 1, [float(x) for x in snap[:4]], [float(x) for x in end[:4]], evs)))
        if res.get('orig') is not None:
            if isinstance(res['orig'], str):
                out.append((pre + '/shallow-copy/original-raises', '%s: after a shallow copy of the analyzer went through %s the ORIGINAL raises %s' % (name, evs, res['orig'])))
            else:
                for key, what in judge_one(dict(m['base']), (res['orig'], None, None, None), pre + '/shallow-copy/original'):
                    out.append((key, 'a shallow copy (copy.copy) of the analyzer went through the events %s; the ORIGINAL, still on its first input: %s' % (evs, what)))
        if res['val_bad']:
            b = res['val_bad'][0]
            out.append((pre + '/values-not-of-held-input', '%s: after the events %s the spectral values %s… differ from those of a fresh analyzer on the input held (series #%d): %s…' % (
                name, evs, b['got'], b['held'], b['fresh'])))
        return out
    if fam == 'ctor':
        pre = 'refused-constructor/%s/%s' % (TWO_CLS[m['cls']], m['kind'])
        if res['raised'] and res['written']:
            out.append((pre + '/callers-dict-changed', '%s(%s series, method=d) raised %s and left the keys %s behind in the caller\'s dict d' % (
                TWO_CLS[m['cls']], m['kind'], res['raised'], res['stamped'])))
        if res['data_changed']:
            out.append((pre + '/data-changed', 'the constructor changed the samples of the series it was given'))
        if res['raised']:
            N = m['N']
            want = [Fr(j) * fs_true(m['good']) / N for j in range(N // 2 + 1)]
            for tag in ('f_same', 'f_own'):
                fl = [float(v) for v in res[tag]]
                if len(fl) != len(want) or not close4(fl, want):
                    out.append((pre + ('/grid' if tag == 'f_same' else '/grid-also-with-own-dict'),
                                'after the refused construction (%s) an analyzer built with %s on a %s Hz series reports %s…%s, its grid is %s…%s' % (
                                    res['raised'], 'the SAME caller dict' if tag == 'f_same' else 'a fresh equal dict', fs_true(m['good']), fl[:3], fl[-1:],
                                    [float(q) for q in want[:3]], float(want[-1]))))
        return out
    pre = 'refused-call/%s' % m['kind']
    N = m['N']
    want = [Fr(j) * Fr(x2f(m['Fs'])) / N for j in range(N // 2 + 1)]
    fl = [float(v) for v in res['f']]
    if len(fl) != len(want) or not close4(fl, want):
        out.append((pre + '/grid', '%s called with %s (%s), then properly with the same method dict and data: frequencies %s…, true grid %s…' % (
            m['kind'].split('/')[0], m['kind'].split('/')[1], res['raised'] or 'accepted', fl[:4], [float(q) for q in want[:4]])))
    if res['data_changed']:
        out.append((pre + '/data-changed', 'the refused call changed the data array it was given'))
    if res['raised'] and res['leaked']:
        out.append((pre + '/method-dict-changed', 'the refused call (%s) left the keys %s behind in the caller\'s method dict' % (res['raised'], res['leaked'])))
    return out


def gen_cand(rng, mA, kind, j):
    fsA = x2f(mA['Fs'])
    c = {'kind': kind, 'dseed': rng.randint(0, 10**6), 'n': mA['n']}
    if kind in ('same-changed', 'rev-view'):
        c.update(Fs=mA['Fs'], unit=mA.get('unit', 's'))
        if mA.get('interval') is not None:
            c['interval'] = mA['interval']
        return c
    if j % 2 == 0:
        u, dt, rate = rng.choice([iv for iv in INTERVALS if float(iv[2]) != fsA])
        c.update(unit=u, interval=dt, Fs=f2x(float(rate)))
    else:
        c.update(Fs=f2x(fsA * rng.choice([2.5, 0.5, 4.0])), unit=rng.choice(['s', 'ms', 'us']))
    if kind == 'short':
        c['n'] = max(3, mA['N'] - 1 - (j % 2))
    elif mA['call'] in N_IS_LENGTH and kind in ('ok', '1d', 'few', 'row-view'):
        c['n'] = mA['n'] + [1, 2, 3][j % 3]
    return c


SESS_PATTERNS = [                       # s:<kind> set_input (caught), f frequencies, v spectral values, r reset()
    ['s:1d', 'f', 'v'], ['f', 's:1d', 'f', 'r', 'f', 'v'], ['s:few', 'f', 'v'], ['v', 'f', 's:few', 'r', 'v', 'f'],
    ['s:1d', 's:ok', 'f', 'v'], ['s:ok', 'f', 's:1d', 'r', 'f', 'v'], ['s:few', 's:1d', 'v', 'f'], ['f', 's:short', 'f', 'v'],
    ['f', 'v', 's:same-changed', 'f', 'v'], ['v', 's:rev-view', 'v', 'f'], ['s:row-view', 'f', 'v', 's:few', 'f'],
    ['s:ok', 's:few', 'r', 'f', 'v', 's:same-changed', 'v'],
]


def gen_sess(rng, name, tier, idx, userfs):
    mA = gen_meta(rng, name, tier, idx)
    for k in ('retarget', 'k0', 'centroid'):
        mA.pop(k, None)
    if name in BANDED and mA.get('lb') is not None and mA.get('ub') is not None and x2f(mA['lb']) > x2f(mA['ub']):
        mA['lb'], mA['ub'] = mA['ub'], mA['lb']
    if userfs and name in SESS_CLS:
        # the caller fixes 'Fs' in the method dict: it is NOT to follow the inputs
        mA.pop('interval', None)
        mA['opts'] = {'fs_dict': True, 'series_fs': f2x(3.0 * x2f(mA['Fs']))}
    pat = SESS_PATTERNS[idx % len(SESS_PATTERNS)] if name in SESS_CLS else [['f', 's:%s' % k, 'f', 'v'] if idx % 2 else ['s:%s' % k, 'v', 'f']
                                                                             for k in CAND_KINDS][(idx // 2) % len(CAND_KINDS)]
    evs = []
    for j, t in enumerate(pat):
        if t.startswith('s:'):
            evs.append({'op': 's', 'cand': gen_cand(rng, mA, t[2:], idx + j)})
        else:
            evs.append({'op': t})
    m = {'call': 'fail', 'fam': 'sess' if name in SESS_CLS else 'setinput', 'site': name, 'base': mA, 'events': evs, 'N': mA['N'], 'n': mA['n']}
    if idx % 4 == 1 and not any(e['op'] == 's' and e['cand']['kind'] == 'same-changed' for e in evs):
        m['shallow'] = True
    return m


def gen_ctor(rng, cls, kind, idx):
    N = [8, 9, 16, 12][idx % 4]
    u, dt, rate = INTERVALS[idx % len(INTERVALS)]
    bad = {'call': 'x', 'n': 4 * N + 3, 'N': N, 'dseed': rng.randint(0, 10**6), 'unit': u, 'interval': dt, 'Fs': f2x(float(rate))}
    fs2 = rng.choice([v for v in FS_VALUES if v != float(rate)])
    good = {'call': 'x', 'n': 4 * N + 2, 'N': N, 'dseed': rng.randint(0, 10**6), 'unit': 's', 'Fs': f2x(float(fs2))}
    return {'call': 'fail', 'fam': 'ctor', 'cls': cls, 'kind': kind, 'bad': bad, 'good': good, 'N': N, 'n': bad['n']}


def gen_fn(rng, kind, idx):
    N = [8, 9, 16, 7][idx % 4]
    return {'call': 'fail', 'fam': 'fn', 'kind': kind, 'N': N, 'n': 4 * N + idx % 5, 'dseed': rng.randint(0, 10**6),
            'Fs': f2x(float(rng.choice(FS_VALUES)))}


def fail_cases(rng, tier, rep):
    out = []
    for r in range(rep):
        for name in SESS_CLS:
            for i in range(2 * len(SESS_PATTERNS)):
                c = fail_case(gen_sess(rng, name, tier, i + r, userfs=(i >= len(SESS_PATTERNS) and i % 3 == 0)))
                out.append(c)
        for name, hows in RT_HOWS.items():
            if 'set_input' not in hows or name in SESS_CLS:
                continue
            for i in range(2 * len(CAND_KINDS)):
                try:
                    c = fail_case(gen_sess(rng, name, tier, i + r, False))
                except NotApplicable:
                    continue
                if keep_ok(c, 'refused-set_input'):
                    out.append(c)
        i = 0
        for cls, kinds in CTOR_KINDS.items():
            for kind in kinds:
                for _ in range(2):
                    i += 1
                    out.append(fail_case(gen_ctor(rng, cls, kind, i + r)))
        for j, kind in enumerate(FN_KINDS):
            for t in range(2):
                out.append(fail_case(gen_fn(rng, kind, 2 * j + t + r)))
    return out


def model_line(m):
    if m.get('call') == 'two':
        return two_line(m)
    if m.get('call') == 'sk':
        return sk_line(m)
    if m.get('call') == 'nfft':
        return nfft_line(m)
    if m.get('call') == 'bounds':
        return 'C05 bounds get_freqs %s %d %s %s' % (m['Fs'], m['N'], m.get('lb') or '0', m.get('ub') or 'none')
    if m.get('hist'):
        mm = {k: v for k, v in m.items() if k != 'hist'}
        return 'C05 hist %s %s' % (m['hist'].get('seen') or m['hist']['events'], model_line(mm)[4:])
    site, kind = CALLS[m['call']]
    Fs, N = m['Fs'], m['N']
    if kind == 'keep':
        return 'C05 keep %s %s %d %s %s' % (site, Fs, N, m.get('lb') or '0', m.get('ub') or 'none')
    if site is None:
        return 'C05 true1 %s %d' % (Fs, N)                    # mlab contract
    if m['call'] == 'cache_fft' and (m.get('lb') is not None or m.get('ub') is not None):
        return 'C05 ret cache_fft %s %d %s %s' % (Fs, N, m.get('lb') or '0', m.get('ub') or 'none')
    if m['call'] in BANDED and (m.get('lb') is not None or m.get('ub') is not None):
        return 'C05 band %s %s %d %s %s' % (site, Fs, N, m.get('lb') or '0', m.get('ub') or 'none')
    return 'C05 grid %s %s %d' % (site, Fs, N)


def true_grid(m):
    """the grid the property asks for, as Fractions (independent of Lean)"""
    kind = CALLS[m['call']][1]
    Fs, N = fs_true(m), m['N']
    if kind == 'one':
        g = [Fr(k) * Fs / N for k in range(N // 2 + 1)]
        if m['call'] in BANDED:
            lb = Fr(x2f(m['lb'])) if m.get('lb') is not None else Fr(0)
            ub = Fr(x2f(m['ub'])) if m.get('ub') is not None else None
            g = [q for q in g if lb <= q and (ub is None or q <= ub)]
        return g
    if kind == 'two':
        return [Fr(k) * Fs / N for k in range(N)]
    if kind == 'shift':
        return [Fr(k - N // 2) * Fs / N for k in range(N)]
    if kind == 'freqz':
        L = N // 2 + 1
        return [Fr(k) * Fs / (2 * L) for k in range(L)]
    if kind == 'keep':
        lb = Fr(x2f(m['lb'])) if m.get('lb') is not None else Fr(0)
        ub = Fr(x2f(m['ub'])) if m.get('ub') is not None else Fs / 2
        return [k for k in range(1, N // 2 + 1) if lb <= Fr(k) * Fs / N <= ub]
    raise KeyError(kind)


def parity(m):
    return 'odd' if m['N'] % 2 else 'even'


def hist_label(m):
    h = m['hist']
    return '%s/history/%s/%s' % (m['call'], h['events'], h.get('label') or '+'.join(h['other']))


def judge(m, res):
    """independent oracle on one call: list of (key, what)"""
    if m.get('call') == 'fail':
        return judge_fail(m, res)
    if m.get('call') == 'two':
        return judge_two(m, res)
    if m.get('call') == 'sk':
        return judge_sk(m, res)
    if m.get('call') == 'nfft':
        return judge_nfft(m, res)
    if m.get('call') == 'bounds':
        return judge_bounds(m, res)
    if m.get('sandwich') and not isinstance(res, str):
        mm = {k: v for k, v in m.items() if k != 'sandwich'}
        pre = '%s/recall' % m['call']
        out = judge_one(mm, res, pre)
        if m['sandwich'].get('same') is False:
            out.append((pre + '/second-call-differs', '%s called, then called with other rates / lengths (and get_freqs), every result handed out overwritten in place, '
                        'then called again with the first arguments: the frequency vector read %s… the first time and reads %s… now' % (
                            m['call'], m['sandwich'].get('first'), [float(v) for v in np.asarray(res[0], dtype=float).reshape(-1)[:4]] if not isinstance(res[0], list) else res[0][:4])))
        return out
    if m.get('hist') and not isinstance(res, str):
        # every vector handed out during the history must show the true grid AT THE END (the last one is res[0] itself)
        pre = hist_label(m)
        mm = {k: v for k, v in m.items() if k != 'hist'}
        out, info = [], res[5]
        for i, (snap, end) in enumerate(info['views']):
            js = judge_one(mm, (end, res[1] if i == len(info['views']) - 1 else None, None, None), pre)
            for key, what in js:
                if key not in [k for k, _ in out]:
                    out.append((key, 'history %s (other results read: %s; as observed %s): vector handed out at read #%d, inspected at the end: %s' % (
                        m['hist']['events'], ','.join(m['hist']['other']), info['events'], i + 1, what)))
            if not same_vec(snap, end) and pre + '/handed-out-vector-changed' not in [k for k, _ in out]:
                out.append((pre + '/handed-out-vector-changed', '%s: the vector handed out at read #%d of history %s (other results: %s) read %s… then and reads %s… at the end' % (
                    m['call'], i + 1, m['hist']['events'], ','.join(m['hist']['other']), [float(x) for x in snap[:4]], [float(x) for x in end[:4]])))
        return out
    return judge_one(m, res)


def judge_one(m, res, pre=None):
    name = m['call']
    kind = CALLS[name][1]
    if pre is None:
        pre = '%s/%s' % (name, parity(m))
        if m.get('rt'):
            pre = '%s/retarget/%s/%s' % (name, m['rt']['how'], m['rt']['order'])
        if m.get('hist'):
            pre = hist_label(m)
    out = []
    if isinstance(res, str):
        return [(pre + '/raises', '%s raised %s for Fs=%r N=%d' % (name, res, x2f(m['Fs']), m['N']))]
    f, spec = res[0], res[1]
    want = true_grid(m)
    fresh = res[3] if len(res) > 3 else None
    if fresh is not None:
        a, b = (list(f), list(fresh)) if kind == 'keep' else ([float(v) for v in np.asarray(f, dtype=float).reshape(-1)],
                                                               [float(v) for v in np.asarray(fresh, dtype=float).reshape(-1)])
        if a != b:
            rt = m['rt']
            out.append((pre + '/stale-axis', '%s: analyzer built for %s, read (%s), re-targeted by %s, then read %s reports %s%s; a fresh analyzer on the new state reports %s%s' % (
                name, {k: (x2f(v) if isinstance(v, str) and v.startswith('x') else v) for k, v in rt['A'].items()}, rt['pre'], rt['how'], rt['order'],
                a[:5], '…' if len(a) > 5 else '', b[:5], '…' if len(b) > 5 else '')))
    if m.get('rt') and len(res) > 4 and res[4]:
        snap, end = res[4][0]
        out.append((pre + '/handed-out-vector-changed', '%s: the frequency vector handed out on the first input read %s… and reads %s… after re-targeting (%s) and reading again' % (
            name, [float(x) for x in snap[:4]], [float(x) for x in end[:4]], m['rt']['how'])))
    if len(res) > 2 and res[2] is not None and res[2] != len(want):
        out.append((pre + '/band-width', '%s caches %d bins, %d bins have lb <= k*Fs/N <= ub (Fs=%s N=%d lb=%s ub=%s)' % (
            name, res[2], len(want), fs_true(m), m['N'], opt(m, 'lb'), opt(m, 'ub'))))
    if kind == 'keep':
        if list(f) != want:
            out.append((pre + '/band', '%s keeps bins %s, the bins with lb <= k*Fs/N <= ub are %s (Fs=%s N=%d lb=%s ub=%s)' % (
                name, list(f), want, fs_true(m), m['N'], opt(m, 'lb'), opt(m, 'ub'))))
        return out
    fl = [float(v) for v in np.asarray(f, dtype=float).reshape(-1)]
    banded = name in BANDED and (m.get('lb') is not None or m.get('ub') is not None)
    if len(fl) != len(want):
        sym = 'band' if banded else 'length'
        out.append(('%s/%s' % (pre, sym), '%s returns %d frequencies %s, expected %d: %s (Fs=%s N=%d lb=%s ub=%s)' % (
            name, len(fl), fl[:6], len(want), [float(q) for q in want[:6]], fs_true(m), m['N'], opt(m, 'lb'), opt(m, 'ub'))))
    elif not close4(fl, want, cancel=(kind == 'shift')):
        bad = [i for i, (a, q) in enumerate(zip(fl, want)) if not math.isfinite(a) or abs(Fr(a) - q) > Fr(4 * ulp(max(abs(a), abs(float(q)))))]
        i = bad[0] if bad else 0
        sym = 'grid'
        if kind == 'freqz':
            sym = 'nyquist-included'
        elif name.startswith('get_spectra/') and 'welch' not in name or name.startswith('CoherenceAnalyzer.frequencies/') and 'welch' not in name:
            c = float(fs_true(m)) / (2 * math.pi)
            rr = [a / float(q) / c for a, q in zip(fl[1:], want[1:])]
            const = all(abs(r - rr[0]) <= 1e-9 * abs(rr[0]) for r in rr)
            N_ = m['N']
            sym = 'hz-rescaled-twice' if const and any(abs(rr[0] - t) <= 1e-9 for t in (1.0, N_ / (N_ - 1.0), 0.5)) else 'grid'
        elif banded:
            sym = 'band-grid'
        out.append(('%s/%s' % (pre, sym), '%s: entry %d is %r, bin frequency k*Fs/N is %r (Fs=%s, N=%d)' % (
            name, i, fl[i], float(want[i]), fs_true(m), m['N'])))
    # on-bin sinusoid: the reported frequency at the spectral peak must be k0*Fs/N
    if m.get('k0') is not None and spec is not None and len(fl) == len(np.atleast_1d(spec)):
        sp = np.abs(np.asarray(spec, dtype=float))
        k0, N, Fs = m['k0'], m['N'], fs_true(m)
        if m.get('centroid'):
            j = int(np.argmax(sp))
            lo, hi = max(0, j - 3), min(len(sp), j + 4)
            w = sp[lo:hi] / sp[lo:hi].sum()
            got = float(np.dot(w, np.asarray(fl[lo:hi])))
            target = float(Fr(k0) * Fs / N)
            if abs(got - target) > 0.12 * float(Fs) / N:
                out.append((pre + '/peak', '%s: sinusoid on bin %d of %d (true %r Hz) has its spectral centroid at reported %r Hz' % (name, k0, N, target, got)))
        else:
            j = int(np.argmax(sp))
            targets = [Fr(k0) * Fs / N]
            if kind == 'shift':
                targets = [Fr(k0 if k0 < (N + 1) // 2 else k0 - N) * Fs / N]
            elif kind == 'two' and not m.get('complex'):
                targets.append(Fr(N - k0) * Fs / N)          # a real sinusoid has its mirror peak at N-k0
            slack = Fr(4 * ulp(float(Fs))) if kind == 'shift' else 0
            if not math.isfinite(fl[j]) or not any(abs(Fr(fl[j]) - t) <= Fr(4 * ulp(max(abs(fl[j]), abs(float(t))))) + slack for t in targets):
                out.append((pre + '/peak', '%s: sinusoid on bin %d of %d (true %r Hz) peaks at reported %r Hz' % (name, k0, N, float(targets[0]), fl[j])))
    return out


# ------------------------------------------------------------------ generators
def gen_meta(rng, name, tier, idx=None):
    """one random call description; `idx` (the case index within the call's block) STRATIFIES the dimensions
    that must not be left to chance: parity of the length (idx%2), NFFT mode (idx//2 %4: none / larger with the
    other parity / equal / smaller), time unit (idx%3) and interval-vs-rate ((idx//3)%2) of analyzer inputs,
    band mode (idx//2 %6: none / edges between bins / edges on bins / above the grid / inverted lb>ub / degenerate)"""
    kind = CALLS[name][1]
    strat = idx is not None
    if idx is None:
        idx = rng.randint(0, 10**6)
    m = {'call': name, 'dseed': rng.randint(0, 10**6)}
    if name.split('/')[0] in ('periodogram', 'periodogram_csd', 'multi_taper_psd', 'multi_taper_csd') or \
            name.startswith('get_spectra/periodogram_csd') or name.startswith('get_spectra/multi_taper_csd'):
        m['nch'] = [1, 2, 1, 4][idx % 4]
    if name in ('SpectralAnalyzer.psd', 'SpectralAnalyzer.cpsd'):
        m['retarget'] = rng.random() < 0.5
    big = tier == 'thorough'
    n = rng.randint(4, 64 if big else 28)
    if 'multi_taper' in name:
        n = max(n, 10 if '.' not in name else 18)
    if idx % 2:
        n |= 1                                         # odd lengths as often as even ones
    else:
        n &= ~1
    m['n'] = n
    N = n
    if name.split('/')[0] in ('periodogram', 'periodogram_csd', 'multi_taper_psd', 'multi_taper_csd') or \
            name.startswith('get_spectra/periodogram_csd') or name.startswith('get_spectra/multi_taper_csd'):
        m['sides'] = name.split('/')[-1]
        c = (idx // 2) % 4
        if c == 0:
            m['NFFT'] = None
        elif c == 1:
            m['NFFT'] = n + rng.choice([1, 3, 9] if rng.random() < 0.7 else [2, 6])   # mostly the other parity
        elif c == 2:
            m['NFFT'] = n
        else:
            m['NFFT'] = max(3, n - rng.choice([1, 2, 3]))
        if m['NFFT'] is not None:
            N = max(n, m['NFFT']) if 'multi_taper' in name else m['NFFT']
        if name.startswith('periodogram_csd') or name.startswith('get_spectra/periodogram_csd'):
            if m['NFFT'] is not None and m['NFFT'] < n:
                pass                                  # fft(s, n=NFFT) truncates: N = NFFT
    elif name in ('get_spectra/welch', 'CoherenceAnalyzer.frequencies/welch', 'SpectralAnalyzer.psd', 'SpectralAnalyzer.cpsd',
                  'cache_fft', 'SparseCoherenceAnalyzer.frequencies', 'SeedCoherenceAnalyzer.frequencies'):
        N = rng.randint(4, 24)                          # NFFT of the Welch segments
        m['n'] = n = 4 * N + rng.randint(0, 7)
    elif name == 'GrangerAnalyzer.frequencies':
        N = rng.randint(4, 40)                          # n_freqs
        m['n'] = n = 64
        m['with_values'] = True
    elif name == 'get_freqs':
        N = rng.randint(2, 200 if big else 60)
    m['N'] = N
    if name in COMPLEX_CALLS or (name in ('periodogram/twosided', 'multi_taper_psd/twosided') and (idx // 2) % 2 == 1):
        m['complex'] = True
    # sampling rate
    if name in ANALYZER and (idx // 3) % 2 == 0:
        u, dt, rate = rng.choice([iv for iv in INTERVALS if iv[0] == ['s', 'ms', 'us'][idx % 3]])
        m['unit'], m['interval'] = u, dt
        m['Fs'] = f2x(float(rate))
    else:
        fs = rng.choice(FS_VALUES) if rng.random() < 0.7 else round(rng.uniform(0.1, 5000.0), rng.choice([0, 1, 3, 12]))
        m['Fs'] = f2x(float(fs) if fs > 0 else 1.0)
        if name in ANALYZER:
            m['unit'] = ['s', 'ms', 'us'][idx % 3]
    # bands
    if name in BANDED or kind == 'keep':
        fs = x2f(m['Fs'])
        bm = (idx // 2) % 6                             # band mode (crossed with the parity idx%2)
        k1 = rng.randint(0, N // 2)
        k2 = rng.randint(k1, N // 2)
        if bm == 5:      # degenerate bands: DC only, a single bin, the top bin, everything
            k1, k2 = rng.choice([(0, 0), (0, 0), (1, 1), (N // 2, N // 2), (0, N // 2), (0, 1), (max(N // 2 - 1, 0), N // 2)])
        if bm == 4 and name == 'cache_fft':
            bm = 1                                      # cache_fft refuses an inverted band (ValueError): not a C05 matter
        if bm == 0:
            pass                                        # no band
        elif bm == 3:                                   # band entirely above the grid (or below it): nothing is kept
            if rng.random() < 0.7:
                m['lb'] = f2x((N // 2 + 0.5 + rng.uniform(0, 2)) * fs / N)
                if rng.random() < 0.5:
                    m['ub'] = f2x((N // 2 + 3.5) * fs / N)
            else:
                m['lb'] = f2x(-2.0 * fs / N)
                m['ub'] = f2x(-0.5 * fs / N)
        elif bm == 4:                                   # inverted band lb > ub: nothing is kept
            m['lb'] = f2x((k2 + 1.5) * fs / N)
            m['ub'] = f2x(max(0.0, (k1 - 0.5)) * fs / N)
        elif bm in (1, 5):                              # edges strictly between bins
            m['lb'] = f2x(max(0.0, (k1 - 0.5 + rng.uniform(-0.3, 0.3)) * fs / N))
            if rng.random() < 0.8:
                m['ub'] = f2x((k2 + 0.5 + rng.uniform(-0.3, 0.3)) * fs / N)
        else:                                           # edges exactly on a bin (exactly representable grid)
            p = rng.choice([4, 8, 16] if kind != 'keep' else [8, 16])
            m['N'] = N = p
            if name in BANDED:
                m['n'] = 4 * N + 3
            else:
                m['n'] = N
            m['Fs'] = f2x(rng.choice([1.0, 2.0, 8.0, 0.5, 1024.0]))
            m.pop('interval', None)
            m.setdefault('unit', 's')
            fs = x2f(m['Fs'])
            k1 = rng.randint(1, N // 2 - 1)
            k2 = rng.randint(k1, N // 2)
            m['lb'] = f2x(k1 * fs / N)
            m['ub'] = f2x(k2 * fs / N)
    # on-bin sinusoid
    if name.split('/')[0] in ('periodogram', 'periodogram_csd', 'multi_taper_psd', 'multi_taper_csd', 'SpectralAnalyzer.periodogram',
                              'SpectralAnalyzer.spectrum_fourier', 'SpectralAnalyzer.psd', 'SpectralAnalyzer.cpsd') \
            and idx % 5 != 0 and m['N'] >= 8:
        N = m['N']
        if 'multi_taper' in name:
            if m['n'] >= 16:
                m['centroid'] = True
                m['NFFT'] = None
                m['N'] = m['n']
                m['k0'] = rng.randint(m['n'] // 3, m['n'] // 2 - 3)
        elif name.startswith('SpectralAnalyzer.psd') or name.startswith('SpectralAnalyzer.cpsd'):
            m['n'] = N                                  # one segment
            m['k0'] = rng.randint(2, N // 2 - 2) if N >= 8 else 1
        else:
            if m.get('NFFT') is not None and m['NFFT'] < m['n']:
                m['n'] = m['NFFT']
            if not m.get('complex') and m['n'] < N:
                # a REAL sinusoid peaks on its bin only when the record holds whole periods: with a
                # zero-padded short record the +k0 / -k0 kernels overlap and shift the maximum
                # (false alarm seen at n=4, NFFT=13, k0=1) -- the real-signal probe uses n = N
                m['n'] = N
            hi = N - 1 if (m.get('complex') and CALLS[name][1] in ('two', 'shift')) else (N - 1) // 2
            m['k0'] = rng.randint(1, max(1, hi))
    return m


class _C(Case):
    __slots__ = ('_res',)


def cmp_parts(kind):
    """`;`-separated vectors (one per hand-out / read), each compared like a single grid"""
    one = cmp_grid(kind == 'shift')

    def cmp(impl, model):
        if impl.startswith('err') or model.startswith('bad') or model.startswith('no-such') or model == 'unsupported':
            return impl == model
        a, b = impl.split(';'), model.split(';')
        if len(a) != len(b):
            return False
        if kind == 'keep':
            return a == b
        return all(x == y if (x == 'none' or y == 'none') else one(x, y) for x, y in zip(a, b))
    return cmp


def make_case(m):
    try:
        res = run_call(m)
    except Exception as e:  # noqa
        res = 'err ' + err_kind(e)
    if m.get('call') == 'two':
        impl = res if isinstance(res, str) else (';'.join(flist(end) for k, snap, end in res) or 'none')
        c = _C(model_line(m), impl, 'two-analyzers/' + m['mode'], cmp=cmp_parts('one'), meta=m, nontrivial=True)
        c._res = res
        return c
    if m.get('call') == 'sk':
        impl = res if isinstance(res, str) else flist(np.asarray(res[0], dtype=float).reshape(-1))
        c = _C(model_line(m), impl, 'Sk/%s/%s' % (m['est'], m['via']), cmp=cmp_grid(False), meta=m, nontrivial=True)
        c._res = res
        return c
    if m.get('call') == 'nfft':
        impl = res if isinstance(res, str) else flist(np.asarray(res[0], dtype=float).reshape(-1))
        c = _C(model_line(m), impl, 'nfft-vs-length/%s/%s' % (m['via'], m['est']), cmp=cmp_grid(False), meta=m, nontrivial=True)
        c._res = res
        return c
    if m.get('call') == 'bounds':
        impl = res if isinstance(res, str) else '%d %d' % (res[0], res[1])
        c = _C(model_line(m), impl, 'get_bounds/' + m.get('band_mode', 'band'), meta=m, nontrivial=True)
        c._res = res
        return c
    kind = CALLS[m['call']][1]
    if m.get('hist'):
        if isinstance(res, str):
            impl = res
        else:
            m['hist']['seen'] = res[5]['events']
            impl = ';'.join((ilist(end) if kind == 'keep' else flist(end)) for snap, end in res[5]['views']) or 'none'
        c = _C(model_line(m), impl, m['call'] + '/history', cmp=cmp_parts(kind), meta=m, nontrivial=m['N'] >= 3)
        c._res = res
        return c
    if isinstance(res, str):
        impl = res
    elif kind == 'keep':
        impl = ilist(res[0])
    else:
        impl = flist(np.asarray(res[0], dtype=float).reshape(-1))
    c = _C(model_line(m), impl, m['call'] + ('/retarget' if m.get('rt') else '/recall' if m.get('sandwich') else '/dtype' if m.get('dvar') else
                                              '/options' if m.get('opts') else '/' + parity(m)), cmp=cmp_grid(kind == 'shift') if kind != 'keep' else None,
             meta=m, nontrivial=m['N'] >= 3)
    c._res = res
    return c


N_IS_LENGTH = ('CoherenceAnalyzer.frequencies/multi_taper_csd', 'CoherenceAnalyzer.frequencies/periodogram_csd',
               'MTCoherenceAnalyzer.frequencies', 'SpectralAnalyzer.periodogram/real', 'SpectralAnalyzer.periodogram/complex',
               'SpectralAnalyzer.spectrum_fourier/real', 'SpectralAnalyzer.spectrum_fourier/complex',
               'SpectralAnalyzer.spectrum_multi_taper/real', 'SpectralAnalyzer.spectrum_multi_taper/complex',
               'SNRAnalyzer.mt_frequencies', 'FilterAnalyzer.filtered_fourier')
RT_PRE = ('freq', 'spec', 'both', 'both-rev')
RT_ORDER = ('freq-first', 'spec-first')


def gen_retarget(rng, name, tier, how, pre, order, idx):
    """state B = an ordinary call description; state A = what the SAME analyzer object was built for and
    read on before: another rate / unit / length (set_input) and/or other parameters NFFT, lb, ub (params)"""
    m = gen_meta(rng, name, tier, idx)
    for k in ('retarget', 'k0', 'centroid'):
        m.pop(k, None)
    if name in BANDED and m.get('lb') is not None and m.get('ub') is not None and x2f(m['lb']) > x2f(m['ub']):
        m['lb'], m['ub'] = m['ub'], m['lb']     # the spectra are read here too, and cache_fft refuses an inverted band
    A = {}
    fsB = x2f(m['Fs'])
    if how in ('set_input', 'both'):
        if rng.random() < 0.5:
            u, dt, rate = rng.choice([iv for iv in INTERVALS if float(iv[2]) != fsB])
            A.update(unit=u, interval=dt, Fs=f2x(float(rate)))
        else:
            A.update(interval=None, Fs=f2x(fsB * rng.choice([3.0, 0.5, 7.0])), unit=rng.choice(['s', 'ms', 'us']))
        if name in N_IS_LENGTH:
            nA = m['n'] + rng.choice([1, 3, 2, 5])          # another length, mostly the other parity
            A.update(n=nA, N=nA)
        else:
            A['n'] = m['n'] + rng.choice([0, 1, 6])
        if name.startswith('SpectralAnalyzer.') and name.split('/')[-1] in ('real', 'complex') and idx % 2:
            A['complex'] = None if m.get('complex') else True      # the first series was of the other kind (sides differ)
    if how in ('params', 'both'):
        fsA = x2f(A['Fs']) if 'Fs' in A else fsB
        if name != 'FilterAnalyzer.filtered_fourier':
            NA = m['N'] + rng.choice([1, 2, 3, 5])
            A['N'] = NA
            A['n'] = max(A.get('n', m['n']), 4 * NA + 1)
        if name in BANDED or CALLS[name][1] == 'keep':
            if m.get('lb') is None and m.get('ub') is None or rng.random() < 0.6:
                A['lb'] = f2x(rng.uniform(0.02, 0.2) * fsA)
                A['ub'] = f2x(rng.uniform(0.22, 0.45) * fsA)
            else:
                A['lb'], A['ub'] = None, None
    m['rt'] = {'how': how, 'pre': pre, 'order': order, 'A': A}
    return m



_OTHERS = {}


def others_of(name):
    if name not in _OTHERS:
        _OTHERS[name] = other_results(name)
    return _OTHERS[name]


HIST_EVENTS = ('FOF', 'OF')          # hand out, read another result, hand out again / the other result first


def gen_history(rng, name, tier, events, other, idx, dc):
    """an ordinary call description + a read history.  `other`: one result name, or 'ALL' (every other result of the
    class, in a drawn order).  dc: the band (if the call has one) starts at 0 Hz, so that the DC bin is in the vector."""
    m = gen_meta(rng, name, tier, idx)
    for k in ('retarget', 'k0', 'centroid'):
        m.pop(k, None)
    if name in BANDED and m.get('lb') is not None and m.get('ub') is not None and x2f(m['lb']) > x2f(m['ub']):
        m['lb'], m['ub'] = m['ub'], m['lb']
    if dc and (name in BANDED or CALLS[name][1] == 'keep'):
        m.pop('lb', None)
        if m.get('ub') is not None and x2f(m['ub']) < 0:
            m.pop('ub')
    if other == 'ALL':
        o = list(others_of(name))
        rng.shuffle(o)
        m['hist'] = {'events': events, 'other': o, 'label': 'all'}
    else:
        m['hist'] = {'events': events, 'other': [other]}
    return m


TWO_MODES = ('shared', 'none', 'omitted', 'own', 'mixed')
TWO_PATTERNS = ('ab-BA', 'ab-AB', 'aAbB')


def gen_two(rng, tier, mode, classes, pattern, idx):
    """several live analyzers on inputs of DIFFERENT rates / units; mode = how they get their method dict"""
    N = 64 if mode in ('none', 'omitted', 'mixed') else rng.randint(4, 24)
    if mode not in ('none', 'omitted', 'mixed'):
        N = (N | 1) if idx % 2 else (N & ~1)
    ans, used = [], set()
    for j, c in enumerate(classes):
        a = {'cls': c, 'dseed': rng.randint(0, 10**6), 'n': (2 * N + 3 if N == 64 else 4 * N) + rng.randint(0, 7)}
        while True:
            if (idx + j) % 2 == 0:
                u, dt, rate = rng.choice(INTERVALS)
                a.update(unit=u, interval=dt, Fs=f2x(float(rate)))
            else:
                a.pop('interval', None)
                a.update(unit=rng.choice(['s', 'ms', 'us']), Fs=f2x(float(rng.choice(FS_VALUES))))
            if x2f(a['Fs']) not in used:
                break
        used.add(x2f(a['Fs']))
        ans.append(a)

    def rd(k):          # how analyzer k's frequency vector is read: SpectralAnalyzer has two Welch results with an axis
        if classes[k] != 'S':
            return ['f%d' % k]
        return [['f%d' % k], ['c%d' % k], ['f%d' % k, 'c%d' % k], ['c%d' % k, 'f%d' % k]][(idx // 2 + k) % 4]
    K = len(classes)
    if pattern == 'ab-BA':
        ev = ['n%d' % k for k in range(K)] + [e for k in reversed(range(K)) for e in rd(k)]
    elif pattern == 'ab-AB':
        ev = ['n%d' % k for k in range(K)] + [e for k in range(K) for e in rd(k)]
    else:               # each one read before the next one is built; the earlier ones are read again at the end
        ev = [e for k in range(K) for e in ['n%d' % k] + rd(k)] + [e for k in range(K - 1) for e in rd(k)]
    return {'call': 'two', 'mode': mode, 'N': N, 'n': max(a['n'] for a in ans), 'ans': ans, 'events': ev}


# ------------------------------------------------------------------ a precomputed transform `Sk=` (any length)
SK_VIA = ('func', 'get_spectra', 'CoherenceAnalyzer')


def sk_side(m):
    return 'twosided' if m['sides'] == 'twosided' else 'onesided'        # the data are real: 'default' is one-sided


def sk_site(m):
    if m['via'] == 'func':
        return '%s_%s' % (m['est'], sk_side(m))
    return 'get_spectra_periodogram_csd_%s' % sk_side(m)


def sk_data(m):
    """real rows holding a tone on bin k0 of an L-point transform (+ a little noise), n samples; dims 1 / 2 / 3"""
    r = np.random.RandomState(m['dseed'])
    n, L, nch = m['n'], m['L'], m.get('nch', 2)
    t = np.arange(n)
    x = np.vstack([np.cos(2 * np.pi * m['k0'] * t / L + 0.4 + 0.5 * c) + 0.01 * r.randn(n) for c in range(nch)])
    if m['dims'] == 1:
        x = x[0]
    elif m['dims'] == 3:
        x = np.array([x, 0.5 * x])
    return data_variant(x, m.get('dvar'))


def run_sk(m):
    """the estimator is handed Sk = fft(s, n=L), L = m['L'] (equal to, larger or smaller than the number of samples),
    with or without the N= / NFFT= argument; returns (f, one auto-spectrum, number of spectral values)"""
    import nitime.algorithms as tsa
    import nitime.analysis as an
    s_ = sk_data(m)
    Sk = np.fft.fft(np.asarray(s_, dtype=float), n=m['L']).astype(m.get('sk_dtype', 'complex128'))
    Fs = x2f(m['Fs'])
    if m['via'] == 'func' and m['est'] == 'periodogram':
        f, p = tsa.periodogram(s_, Fs=Fs, Sk=Sk, N=m.get('NFFT'), sides=m['sides'], normalize=m.get('normalize', True))
        return f, p.reshape(-1, p.shape[-1])[0], int(p.shape[-1])
    if m['via'] == 'func':
        f, p = tsa.periodogram_csd(s_, Fs=Fs, Sk=Sk, NFFT=m.get('NFFT'), sides=m['sides'], normalize=m.get('normalize', True))
        return f, np.abs(p[0, 0]), int(p.shape[-1])
    if m['via'] == 'get_spectra':
        md = {'this_method': 'periodogram_csd', 'Fs': Fs, 'Sk': Sk}
        if m.get('NFFT') is not None:
            md['NFFT'] = m['NFFT']
        if m['sides'] != 'default':
            md['sides'] = m['sides']
        f, p = tsa.get_spectra(s_, md)
        return f, np.abs(p[0, 0]), int(p.shape[-1])
    md = {'this_method': 'periodogram_csd', 'Sk': Sk}
    if m.get('NFFT') is not None:
        md['NFFT'] = m['NFFT']
    A = an.CoherenceAnalyzer(mk_ts(m, s_), method=md)
    f = A.frequencies
    return f, np.abs(np.asarray(A.spectrum)[0, 0]), int(np.asarray(A.coherence).shape[-1])


def sk_line(m):
    return 'C05 gridx %s %s %s %d %s %d' % (sk_site(m), m['est'], m['Fs'], m['n'], 'none' if m.get('NFFT') is None else m['NFFT'], m['L'])


def judge_sk(m, res):
    """the transform actually used is the supplied one: L points, whatever n and NFFT say"""
    pre = 'Sk/%s/%s/%s' % (m['est'] if m['via'] == 'func' else m['via'], sk_side(m),
                           'same-length' if m['L'] == m['n'] else ('zero-padded' if m['L'] > m['n'] else 'truncated'))
    if isinstance(res, str):
        return []
    f, spec, nvals = res
    L, Fs = m['L'], fs_true(m)
    one = sk_side(m) == 'onesided'
    want = [Fr(k) * Fs / L for k in range(L // 2 + 1 if one else L)]
    fl = [float(v) for v in np.asarray(f, dtype=float).reshape(-1)]
    desc = '%s(Sk = fft(s, n=%d), %d samples, %s=%s, Fs=%s, sides=%s, %d-d, via %s)' % (
        m['est'], L, m['n'], 'N' if m['est'] == 'periodogram' else 'NFFT', m.get('NFFT'), fs_true(m), m['sides'], m['dims'], m['via'])
    out = []
    if len(fl) != len(want):
        out.append((pre + '/length', '%s returns %d frequencies %s…, the %d-point transform it was given has %d bins: %s…' % (
            desc, len(fl), fl[:4], L, len(want), [float(q) for q in want[:4]])))
    elif not close4(fl, want):
        i = [j for j, (a, q) in enumerate(zip(fl, want)) if not math.isfinite(a) or abs(Fr(a) - q) > Fr(4 * ulp(max(abs(a), abs(float(q)))))][0]
        out.append((pre + '/grid', '%s: entry %d is %r, bin %d of the %d-point transform is at %r Hz' % (desc, i, fl[i], i, L, float(want[i]))))
    if nvals != len(fl):
        out.append((pre + '/values-vs-frequencies', '%s returns %d spectral values for %d frequencies' % (desc, nvals, len(fl))))
    # the tone: where the L-point DFT of the first row peaks (by numpy, not nitime) is where the reported axis must put it
    x0 = np.asarray(sk_data(m), dtype=float).reshape(-1, m['n'])[0]
    X = np.abs(np.fft.fft(x0, n=L))
    kpk = int(np.argmax(X[:L // 2 + 1]))
    sp = np.abs(np.asarray(spec, dtype=float)).reshape(-1)
    if len(sp) == len(fl) and len(fl) and 0 < kpk < (L + 1) // 2:
        j = int(np.argmax(sp))
        targets = [Fr(kpk) * Fs / L] + ([] if one else [Fr(L - kpk) * Fs / L])
        if not math.isfinite(fl[j]) or not any(abs(Fr(fl[j]) - t) <= Fr(4 * ulp(max(abs(fl[j]), abs(float(t))))) for t in targets):
            out.append((pre + '/peak', '%s: the tone is on bin %d of the %d-point transform (%r Hz) but the spectrum peaks at the reported frequency %r Hz' % (
                desc, kpk, L, float(targets[0]), fl[j])))
    return out


def gen_sk(rng, tier, idx):
    est = ['periodogram', 'periodogram_csd'][idx % 2]
    via = 'func' if est == 'periodogram' else SK_VIA[(idx // 2) % 3]
    n = rng.randint(12, 64 if tier == 'thorough' else 40)
    n = (n | 1) if (idx // 6) % 2 else (n & ~1)
    lm = (idx // 2) % 4                    # same length / zero-padded other parity / zero-padded same parity / truncated
    L = {0: n, 1: n + rng.choice([1, 3, 9, 27]), 2: n + rng.choice([2, 6, 28, 2 * n]), 3: n - rng.choice([1, 2, 3, 4])}[lm]
    nm = (idx // 8) % 3                    # N= / NFFT= absent, equal to L, different from L
    nfft = [None, L, rng.choice([n, L + 2, max(4, L - 3)])][nm]
    if nfft == L and nm == 2:
        nfft = L + 5
    sides = ['default', 'onesided', 'twosided', 'default'][(idx // 3) % 4]
    if via == 'CoherenceAnalyzer':
        sides = 'default'
    dims = 2
    if via == 'func':
        dims = [2, 3, 2, 1][(idx // 4) % 4] if est == 'periodogram' else [2, 3][(idx // 4) % 2]
    m = {'call': 'sk', 'est': est, 'via': via, 'n': n, 'L': L, 'N': L, 'NFFT': nfft, 'sides': sides, 'dims': dims,
         'dseed': rng.randint(0, 10**6), 'nch': [2, 1, 3][idx % 3] if dims > 1 else 1,
         'k0': rng.randint(2, max(2, (L - 1) // 2 - 1)), 'sk_dtype': 'complex64' if idx % 7 == 3 else 'complex128'}
    if via == 'CoherenceAnalyzer':
        u, dt, rate = rng.choice([iv for iv in INTERVALS if iv[0] == ['s', 'ms', 'us'][idx % 3]])
        m.update(unit=u, interval=dt, Fs=f2x(float(rate)), nch=2)
    else:
        m['Fs'] = f2x(float(rng.choice(FS_VALUES)))
    if via == 'func' and (idx // 2) % 3 == 1:
        m['normalize'] = False
    if idx % 5 == 4:
        m['dvar'] = rng.choice(['float32', 'int16', 'strided', 'readonly', 'F'] if dims > 1 else ['float32', 'int16', 'strided', 'readonly'])
    return m


# ------------------------------------------------------------------ process histories around a call
def run_sandwich(m):
    """the call of m; then the same entry point (and utils.get_freqs) with OTHER rates / lengths, and everything handed
    out so far -- frequency vectors included -- overwritten in place; then the call of m again, on fresh inputs / a NEW
    analyzer object.  Returned: the second result (judged like any call); m['sandwich']['same'] records whether the
    second frequency vector equals what the first call returned."""
    import histories
    import nitime.utils as utils
    inner = dict(m, _inner=True)
    r1 = run_call(inner)
    snap1 = snapshot(r1[0])
    handed = [r1]
    for pm in m['sandwich']['perturb']:
        try:
            handed.append(run_call(dict(pm, _inner=True)))
            handed.append(utils.get_freqs(x2f(pm['Fs']), pm['N']))
        except Exception:  # noqa -- the perturbation only has to disturb
            pass
    for h in handed:
        histories.scribble(h)
    r2 = run_call(inner)
    m['sandwich']['same'] = bool(same_vec(snap1, snapshot(r2[0])))
    m['sandwich']['first'] = [float(v) for v in (snap1[:4] if not isinstance(snap1, list) else snap1[:4])]
    return r2


def gen_sandwich(rng, name, tier, idx):
    m = gen_meta(rng, name, tier, idx)
    m.pop('retarget', None)
    if name in BANDED and m.get('lb') is not None and m.get('ub') is not None and x2f(m['lb']) > x2f(m['ub']):
        m['lb'], m['ub'] = m['ub'], m['lb']
    per = []
    for j in range(2):
        pm = gen_meta(rng, name, tier, idx + 1 + j)
        for k in ('retarget', 'k0', 'centroid'):
            pm.pop(k, None)
        if x2f(pm['Fs']) == x2f(m['Fs']):
            pm['Fs'] = f2x(x2f(m['Fs']) * 3.0)
            pm.pop('interval', None)
            pm.setdefault('unit', 's')
        if name in BANDED and pm.get('lb') is not None and pm.get('ub') is not None and x2f(pm['lb']) > x2f(pm['ub']):
            pm['lb'], pm['ub'] = pm['ub'], pm['lb']
        per.append(pm)
    m['sandwich'] = {'perturb': per}
    return m


# ------------------------------------------------------------------ (8) NFFT smaller than / equal to / larger than the series: f against the spectrum it accompanies
# Every entry point that takes an FFT length next to the data, every method: the frequency vector must have ONE entry per spectral value it is
# returned with (or that the same object reports: CoherenceAnalyzer .frequencies next to .spectrum / .coherence / .coherency / .phase), spaced
# Fs / NFFT_used, NFFT_used being the number of points of the transform the estimator really took: periodogram(_csd) NFFT (truncating when
# NFFT < n), multitaper max(NFFT, n) (tapered_spectra never takes fewer points than samples), Welch the segment length.
NFFT_VIA = ('func', 'get_spectra', 'CoherenceAnalyzer', 'SpectralAnalyzer')
NFFT_MODES = ('none', 'smaller', 'equal', 'larger', 'much-smaller', 'larger-other-parity')


def nfft_used(m):
    n, f = m['n'], m.get('NFFT')
    if m['est'] == 'welch':
        return f
    if f is None:
        return n
    return max(n, f) if 'multi_taper' in m['est'] else f


def nfft_onesided(m):
    return m.get('sides', 'default') != 'twosided'


def nfft_data(m):
    """real rows: a tone with whole periods in the samples the estimator analyses (+ a little noise)"""
    r = np.random.RandomState(m['dseed'])
    n, nch = m['n'], m.get('nch', 2)
    L = nfft_used(m)
    per = min(L, n)                       # samples actually analysed in one transform
    t = np.arange(n)
    return np.vstack([np.cos(2 * np.pi * m['k0'] * t / per + 0.4 + 0.5 * c) + 0.01 * r.randn(n) for c in range(nch)])


def run_nfft(m):
    """-> (f, number of spectral values along the last axis of what f accompanies, one auto-spectrum, {name: last-axis length} of the other results)"""
    import nitime.algorithms as tsa
    import nitime.analysis as an
    x = nfft_data(m)
    Fs, est, nf = x2f(m['Fs']), m['est'], m.get('NFFT')
    kw = {} if m.get('sides', 'default') == 'default' else {'sides': m['sides']}
    if m['via'] == 'func':
        if est == 'periodogram':
            f, p = tsa.periodogram(x, Fs=Fs, N=nf, **kw)
            return f, int(p.shape[-1]), p[0], {}
        if est == 'periodogram_csd':
            f, p = tsa.periodogram_csd(x, Fs=Fs, NFFT=nf, **kw)
            return f, int(p.shape[-1]), np.abs(p[0, 0]), {}
        if est == 'multi_taper_psd':
            f, p, _ = tsa.multi_taper_psd(x, Fs=Fs, NFFT=nf, adaptive=bool(m.get('adaptive')), jackknife=False, **kw)
            return f, int(p.shape[-1]), p[0], {}
        f, p = tsa.multi_taper_csd(x, Fs=Fs, NFFT=nf, adaptive=bool(m.get('adaptive')), **kw)
        return f, int(p.shape[-1]), np.abs(p[0, 0]), {}
    md = {'this_method': est}
    if nf is not None:
        md['NFFT'] = nf
    md.update(kw)
    if est == 'welch':
        md['n_overlap'] = nf // 2
    if m['via'] == 'get_spectra':
        md['Fs'] = Fs
        f, p = tsa.get_spectra(x, md)
        return f, int(p.shape[-1]), np.abs(p[0, 0]), {}
    T = mk_ts(m, x)
    if m['via'] == 'SpectralAnalyzer':
        A = an.SpectralAnalyzer(T, method=md)
        f, p = A.psd if m.get('attr') == 'psd' else A.cpsd
        return f, int(np.asarray(p).shape[-1]), np.abs(np.asarray(p)[0] if m.get('attr') == 'psd' else np.asarray(p)[0, 0]), {}
    A = an.CoherenceAnalyzer(T, method=md)
    order = m.get('order', 'freq-first')
    f = A.frequencies if order == 'freq-first' else None
    sp = np.asarray(A.spectrum)
    others = {'spectrum': int(sp.shape[-1])}
    for nm in ('coherence', 'coherency', 'phase'):
        others[nm] = int(np.asarray(getattr(A, nm)).shape[-1])
    try:
        others['delay'] = int(np.asarray(A.delay).shape[-1])
    except Exception as e:  # noqa
        others['delay'] = 'err ' + err_kind(e)
    if f is None:
        f = A.frequencies
    return f, int(sp.shape[-1]), np.abs(sp[0, 0]), others


def nfft_site(m):
    side = 'onesided' if nfft_onesided(m) else 'twosided'
    if m['via'] == 'func':
        return '%s_%s' % (m['est'], side)
    return 'get_spectra_%s_%s' % (m['est'], side)


def nfft_line(m):
    if m['est'] == 'welch':
        return 'C05 true1 %s %d' % (m['Fs'], m['NFFT'])                     # mlab contract
    return 'C05 gridx %s %s %s %d %s none' % (nfft_site(m), m['est'], m['Fs'], m['n'], 'none' if m.get('NFFT') is None else m['NFFT'])


def judge_nfft(m, res):
    pre = 'nfft-vs-length/%s/%s/%s/%s' % (m['via'], m['est'], 'onesided' if nfft_onesided(m) else 'twosided', m['mode'])
    if isinstance(res, str):
        return [(pre + '/raises', '%s(%s) with %d samples and NFFT=%s raised %s' % (m['via'], m['est'], m['n'], m.get('NFFT'), res))]
    f, nvals, spec, others = res
    L, Fs = nfft_used(m), fs_true(m)
    one = nfft_onesided(m)
    want = [Fr(k) * Fs / L for k in range(L // 2 + 1 if one else L)]
    fl = [float(v) for v in np.asarray(f, dtype=float).reshape(-1)]
    desc = '%s %s, %d samples, NFFT=%s (the transform taken has %d points), Fs=%s, sides=%s' % (
        m['via'], m['est'], m['n'], m.get('NFFT'), L, Fs, m.get('sides', 'default'))
    out = []
    if nvals != len(fl):
        out.append((pre + '/values-vs-frequencies', '%s: %d frequencies %s… are returned with %d spectral values per channel' % (desc, len(fl), fl[:4], nvals)))
    for nm, k in sorted(others.items()):
        if k != len(fl):
            out.append((pre + '/values-vs-frequencies', '%s: .frequencies has %d entries, .%s %s' % (
                desc, len(fl), nm, ('has %d bins' % k) if isinstance(k, int) else 'cannot be formed (%s)' % k)))
            break
    if len(fl) != len(want):
        out.append((pre + '/length', '%s: %d frequencies %s…, the transform has %d bins: %s…' % (desc, len(fl), fl[:4], len(want), [float(q) for q in want[:4]])))
    elif not close4(fl, want):
        i = [j for j, (a, q) in enumerate(zip(fl, want)) if not math.isfinite(a) or abs(Fr(a) - q) > Fr(4 * ulp(max(abs(a), abs(float(q)))))][0]
        out.append((pre + '/grid', '%s: entry %d is %r, bin %d of the %d-point transform is at %r Hz' % (desc, i, fl[i], i, L, float(want[i]))))
    # the tone (whole periods in the analysed samples): its TRUE frequency against the reported frequency of the spectral maximum
    sp = np.abs(np.asarray(spec, dtype=float)).reshape(-1)
    if len(sp) == len(fl) and len(fl) > 2 and m['est'] != 'welch':
        per = min(L, m['n'])
        f0 = float(Fr(m['k0']) * Fs / per)
        half = sp[:L // 2 + 1]
        j = int(np.argmax(half))
        width = (4.5 if 'multi_taper' in m['est'] else 1.01) * float(Fs) / min(L, m['n'])
        if not math.isfinite(fl[j]) or abs(fl[j] - f0) > width:
            out.append((pre + '/peak', '%s: a tone of %r Hz has its spectral maximum at the reported frequency %r Hz' % (desc, f0, fl[j])))
    return out


def gen_nfft(rng, tier, via, est, mode, idx):
    mt = 'multi_taper' in est
    n = rng.randint(36, 64) if mt else rng.randint(16, 48)
    n = (n | 1) if idx % 2 else (n & ~1)
    if est == 'welch':
        n = rng.choice([40, 64, 100, 129])
        nf = {'smaller': rng.choice([16, 32, 20, 15]), 'equal': n, 'larger': n + rng.choice([8, 28]), 'much-smaller': 8,
              'larger-other-parity': n + rng.choice([1, 3]), 'none': None}[mode]
    else:
        nf = {'none': None, 'smaller': n - rng.choice([2, 4, 6, 8]), 'equal': n, 'larger': n + rng.choice([2, 6, 28]),
              'much-smaller': max(8, n // 2 - (idx % 2)), 'larger-other-parity': n + rng.choice([1, 3, 9])}[mode]
    m = {'call': 'nfft', 'via': via, 'est': est, 'mode': mode, 'n': n, 'NFFT': nf, 'dseed': rng.randint(0, 10**6), 'nch': [2, 3][idx % 2]}
    L = nfft_used(m) if nf is not None or est != 'welch' else None
    if L is None:
        return None
    m['N'] = L
    per = min(L, n)
    m['k0'] = rng.randint(max(5, per // 4), max(5, per // 2 - 6)) if mt else rng.randint(2, max(2, per // 2 - 2))
    if via in ('func', 'get_spectra') and est != 'welch':
        m['sides'] = ['default', 'onesided', 'twosided'][(idx // 2) % 3]
    if mt and via == 'func':
        m['adaptive'] = bool((idx // 3) % 2)
    if via in ('CoherenceAnalyzer', 'SpectralAnalyzer'):
        u, dt, rate = rng.choice([iv for iv in INTERVALS if iv[0] == ['s', 'ms', 'us'][idx % 3]])
        m.update(unit=u, interval=dt, Fs=f2x(float(rate)))
        m['order'] = ['freq-first', 'spec-first'][(idx // 2) % 2]
        if via == 'SpectralAnalyzer':
            m['attr'] = ['psd', 'cpsd'][idx % 2]
    else:
        m['Fs'] = f2x(float(rng.choice(FS_VALUES)))
    return m


def nfft_cases(rng, tier, rep):
    out = []
    combos = [('func', e) for e in ESTIMATORS] + [('get_spectra', e) for e in ('multi_taper_csd', 'periodogram_csd', 'welch')] + \
             [('CoherenceAnalyzer', e) for e in ('multi_taper_csd', 'periodogram_csd', 'welch')] + [('SpectralAnalyzer', 'welch')]
    i = 0
    for r in range(rep):
        for via, est in combos:
            for mode in NFFT_MODES:
                for par in range(2):
                    i += 1
                    m = gen_nfft(rng, tier, via, est, mode, 2 * (i // 2) + par + r)
                    if m is None:
                        continue
                    c = make_case(m)
                    if isinstance(c._res, str) and est == 'welch':
                        SKIPPED['nfft'] = SKIPPED.get('nfft', 0) + 1      # mlab refuses some (n, NFFT, overlap) combinations: not a C05 matter
                        continue
                    out.append(c)
                    if via == 'CoherenceAnalyzer' and est != 'welch' and not isinstance(c._res, str):
                        # the model of the two getters (Generated/FreqSrc.lean + GridLens): number of frequencies, number of bins
                        c2 = _C('C05 freqlens CoherenceAnalyzer %s one %d %s' % (est, m['n'], 'none' if m.get('NFFT') is None else m['NFFT']),
                                '%d %d' % (len(np.asarray(c._res[0]).reshape(-1)), c._res[1]), 'nfft-vs-length/CoherenceAnalyzer/getter-lengths', meta=m, nontrivial=True)
                        c2._res = None
                        out.append(c2)
    return out


# ------------------------------------------------------------------ utils.get_bounds called directly: edges on a bin, 1 ulp to either side, between bins
def run_bounds(m):
    import nitime.utils as utils
    f = utils.get_freqs(x2f(m['Fs']), m['N'])
    lb, ub = opt(m, 'lb'), opt(m, 'ub')
    kw = {}
    if m.get('lb') is not None:
        kw['lb'] = lb
    if m.get('ub') is not None or m.get('ub_none'):
        kw['ub'] = ub
    a, b = utils.get_bounds(f, **kw)
    return int(a), int(b)


def judge_bounds(m, res):
    pre = 'get_bounds/%s' % m.get('band_mode', 'band')
    if isinstance(res, str):
        return [(pre + '/raises', 'get_bounds(get_freqs(%r, %d), lb=%s, ub=%s) raised %s' % (x2f(m['Fs']), m['N'], opt(m, 'lb'), opt(m, 'ub'), res))]
    Fs, N = Fr(x2f(m['Fs'])), m['N']
    lb = Fr(x2f(m['lb'])) if m.get('lb') is not None else Fr(0)
    ub = Fr(x2f(m['ub'])) if m.get('ub') is not None else None
    g = [Fr(k) * Fs / N for k in range(N // 2 + 1)]
    a = sum(1 for q in g if q < lb)
    b = len(g) if ub is None else sum(1 for q in g if q <= ub)
    if (a, b) != tuple(res):
        return [(pre + '/indices', 'get_bounds(get_freqs(%r, %d), lb=%r, ub=%r) = %s: the bins with lb <= k*Fs/N <= ub are %d..%d (slice %d:%d)' % (
            x2f(m['Fs']), N, opt(m, 'lb'), opt(m, 'ub'), tuple(res), a, b - 1, a, b))]
    return []


def bounds_cases(rng, tier, rep):
    out = []
    modes = [(d1, d2) for d1 in (-1, 0, 1) for d2 in (-1, 0, 1)]
    for i in range(len(modes) * 2 * rep):
        N = [8, 16, 32, 64, 128][i % 5]
        fs = float(EXACT_RATES[(i // 5) % len(EXACT_RATES)])
        d1, d2 = modes[i % len(modes)]
        k1 = rng.randint(0, N // 2 - 1)
        k2 = rng.randint(k1, N // 2)
        e = lambda k, d: (k * (1.0 / N)) * fs if d == 0 else float(np.nextafter((k * (1.0 / N)) * fs, d * np.inf))
        m = {'call': 'bounds', 'N': N, 'n': N, 'Fs': f2x(fs), 'lb': f2x(max(0.0, e(k1, d1))), 'ub': f2x(e(k2, d2)), 'band_mode': 'ulp/%+d/%+d' % (d1, d2), 'dseed': 0}
        if i % 7 == 3:
            m.pop('ub')
            m['ub_none'] = bool(i % 2)
        if i % 11 == 5:
            m.pop('lb')
        out.append(make_case(m))
    for i in range(12 * rep):                                           # inexact grids: edges between bins
        N = rng.choice([5, 7, 9, 12, 15, 20, 100, 1000])
        fs = float(rng.choice(FS_VALUES))
        k1 = rng.randint(0, N // 2)
        k2 = rng.randint(k1, N // 2)
        m = {'call': 'bounds', 'N': N, 'n': N, 'Fs': f2x(fs), 'lb': f2x(max(0.0, (k1 - 0.5) * fs / N)), 'ub': f2x((k2 + 0.5) * fs / N), 'band_mode': 'between-bins', 'dseed': 0}
        out.append(make_case(m))
    return out


# ------------------------------------------------------------------ (9) long records: judged by the oracle alone (the model need not run at these sizes)
def judge_long(m):
    """one long-record experiment, re-runnable from its description: list of (key, what)"""
    import nitime.utils as utils
    import nitime.analysis as an
    import nitime.timeseries as ts
    N, fs, tag = m['N'], x2f(m['Fs']), m['tag']
    exact = tag == 'pow2'
    pre = 'long-record/%s' % tag
    f = np.asarray(utils.get_freqs(fs, N))
    nb = N // 2 + 1
    kk = np.arange(nb)
    if m['what'] == 'get_freqs':
        if len(f) != nb:
            return [(pre + '/get_freqs/length', 'get_freqs(%r, %d) has %d entries, %d bins' % (fs, N, len(f), nb))]
        ref = (kk.astype(np.longdouble) * np.longdouble(fs)) / np.longdouble(N)
        err = np.abs(f.astype(np.longdouble) - ref)
        lim = 4 * np.spacing(np.maximum(np.abs(f), 1e-300))
        if (exact and not np.array_equal(f, kk * fs / N)) or np.any(err > lim):
            j = int(np.argmax(err - lim))
            return [(pre + '/get_freqs/grid', 'get_freqs(%r, %d)[%d] = %r, bin frequency %r' % (fs, N, j, float(f[j]), float(ref[j])))]
        return []
    if len(f) != nb:
        return []
    k1, k2, mode = m['k1'], m['k2'], m['band_mode']
    if exact:
        d1, d2 = m['d']
        e = lambda k, d: float(kk[k] * fs / N) if d == 0 else float(np.nextafter(kk[k] * fs / N, d * np.inf))
        lb, ub = e(k1, d1), e(k2, d2)
        a, b = k1 + (1 if d1 > 0 else 0), k2 + (1 if d2 >= 0 else 0)         # slice a:b = bins with lb <= k*Fs/N <= ub
    elif mode.startswith('near-bin'):
        # edges 1e-4 of a bin away from a bin: far outside the rounding of the float64 grid (1e-10 of a bin at bin 10^6), inside any
        # tolerance that is relative to the edge frequency (1e-5 * edge = several bins up here) or a single-precision grid
        d1, d2 = m['d']
        lb, ub = (k1 + d1 * 1e-4) * fs / N, (k2 + d2 * 1e-4) * fs / N
        a, b = k1 + (1 if d1 > 0 else 0), k2 + (1 if d2 > 0 else 0)
    else:
        lb, ub = (k1 - 0.5) * fs / N, (k2 + 0.5) * fs / N
        a, b = k1, k2 + 1
    if m['what'] == 'get_bounds':
        got = tuple(int(v) for v in utils.get_bounds(f, lb, ub))
        if got != (a, b):
            return [(pre + '/get_bounds/%s/indices' % mode, 'get_bounds(get_freqs(%r, %d), %r, %r) = %s, the bins in the band are %d:%d' % (fs, N, lb, ub, got, a, b))]
        return []
    # filtered_fourier of an impulse (flat spectrum): the surviving bins, read off the FFT of the output
    d = np.zeros((1, N))
    d[0, 1] = 1.0
    T = ts.TimeSeries(d, sampling_rate=fs, time_unit=m['unit'])
    out = an.FilterAnalyzer(T, lb=lb, ub=ub).filtered_fourier
    S = np.abs(np.fft.rfft(np.asarray(out.data)[0]))
    kept = np.nonzero(S[1:] > 0.5)[0] + 1
    wantk = np.arange(max(a, 1), b)
    if not np.array_equal(kept, wantk):
        extra = sorted(set(kept.tolist()) ^ set(wantk.tolist()))
        return [(pre + '/filtered_fourier/%s/band' % mode, 'FilterAnalyzer(%d samples at %r Hz in %s, lb=%r, ub=%r).filtered_fourier keeps bins %d..%d, the band holds %d..%d (bins that differ: %s…)' % (
            N, fs, m['unit'], lb, ub, kept.min() if kept.size else -1, kept.max() if kept.size else -1, max(a, 1), b - 1, extra[:6]))]
    return []


def long_record_checks(seed, tier):
    """get_freqs, get_bounds and FilterAnalyzer.filtered_fourier at N = 2^17 … 2^20 (and 2^k +- 1): a tolerance that is relative to the edge frequency
    spans k * rtol bins at bin k, i.e. nothing at the lengths the other blocks use and several bins here.  Exact integer comparison: on grids
    that are exact in binary64 (N, Fs powers of two) for edges on a bin and 1 ulp to either side, on the other lengths for edges half-way between bins.
    Two lengths per quick run, rotated by VERIF_SEED."""
    import random
    fails = []
    r = random.Random(1000 + seed)
    ks = [17, 18, 19, 20]
    sg = 1 if seed % 2 else -1
    picks = [(1 << ks[seed % 4], 'pow2'), ((1 << ks[(seed + 1) % 4]) + sg, 'pow2%+d' % sg)]
    if tier == 'thorough':
        picks += [(1 << k, 'pow2') for k in ks] + [((1 << 20) - 1, 'pow2-1'), ((1 << 17) + 1, 'pow2+1'), (10**6, 'million')]
    nexp = 0
    for N, tag in picks:
        exact = tag == 'pow2'
        fs = float(r.choice([1024.0, 1.0, 4096.0, 0.5])) if exact else float(r.choice([1000.0, 250.0, 44100.0, 1.0]))
        nb = N // 2 + 1
        metas = [{'call': 'long', 'N': N, 'n': N, 'Fs': f2x(fs), 'tag': tag, 'what': 'get_freqs'}]
        for t in range(6):
            k1 = r.randint(nb // 4, nb // 2)
            k2 = r.randint(nb // 2 + 1, nb - 2)
            dd = [(0, 0), (1, -1), (-1, 1), (0, 1), (1, 0), (-1, -1)][t]
            if not exact:
                dd = [(1, -1), (0, 0), (-1, 1), (1, 1), (0, 0), (-1, -1)][t]
            mb = {'call': 'long', 'N': N, 'n': N, 'Fs': f2x(fs), 'tag': tag, 'what': 'get_bounds', 'k1': k1, 'k2': k2, 'd': list(dd),
                  'band_mode': ('ulp/%+d/%+d' % dd) if exact else ('near-bin/%+d/%+d' % dd) if dd != (0, 0) else 'between-bins'}
            metas.append(mb)
            if t < 2:
                metas.append(dict(mb, what='filtered_fourier', unit=['s', 'ms', 'us'][(seed + t) % 3]))
        for m in metas:
            nexp += 1
            try:
                js = judge_long(m)
            except Exception as e:  # noqa
                js = [('long-record/%s/%s/raises' % (tag, m['what']), '%s on %d samples raised %s' % (m['what'], N, err_kind(e)))]
            for key, what in js:
                fails.append(fail_of(m, key, what))
    return fails, nexp


# ------------------------------------------------------------------ the option lattice of the Welch / cache sites, bands at +-1 ulp
LATTICE_SITES = ('cache_fft', 'SparseCoherenceAnalyzer.frequencies', 'SeedCoherenceAnalyzer.frequencies', 'get_spectra/welch',
                 'CoherenceAnalyzer.frequencies/welch', 'SpectralAnalyzer.psd', 'SpectralAnalyzer.cpsd')
EXACT_RATES = [1.0, 2.0, 8.0, 0.5, 1024.0, 250.0, 1000.0, 125.0]     # k*Fs/N is exact in binary64 for N a power of two


def gen_lattice(rng, name, tier, idx):
    """optional arguments, alone and combined: n_overlap absent / 0 / N-1, window absent / array / list / float32 / function,
    prefer_speed_over_memory, scale_by_freq, data shorter than NFFT, an explicit Fs in the method dict that differs from
    the series' own rate (in s / ms / us); bands: explicit lb=0 / ub=None, edges on a bin and 1 ulp below / above it
    (grids that are exact in binary64), ub above Nyquist"""
    analyzer = name in ANALYZER
    N = rng.choice([8, 16, 32, 64]) if ((idx // 2) % 3 or (idx // 2) % 6 == 3) else rng.choice([5, 7, 9, 12, 15, 20])
    exact = N in (8, 16, 32, 64)
    m = {'call': name, 'dseed': rng.randint(0, 10**6), 'N': N, 'n': 4 * N + rng.randint(0, 7)}
    o = {}
    o['nov'] = [None, 0, N - 1, N // 2][idx % 4]
    if name == 'CoherenceAnalyzer.frequencies/welch' and o['nov'] is None:
        N = m['N'] = 64                                   # the constructor's default n_overlap (32) needs NFFT > 32
        m['n'] = 4 * N + rng.randint(0, 7)
        exact = True
    w = [None, 'array', 'list', 'func', 'float32', 'intarr', None][(idx // 2) % 7]
    if w:
        o['window'] = w
    if name in BANDED:
        o['psm'] = bool(idx % 2)
        o['sbf'] = bool((idx // 2) % 2)
    if (idx // 3) % 4 == 3 and name not in ('SpectralAnalyzer.psd', 'SpectralAnalyzer.cpsd', 'get_spectra/welch', 'CoherenceAnalyzer.frequencies/welch'):
        m['n'] = rng.randint(max(2, N // 2), N - 1)            # shorter than NFFT: one zero-padded window
    fs = float(rng.choice(EXACT_RATES))
    m['Fs'] = f2x(fs)
    if analyzer:
        m['unit'] = ['s', 'ms', 'us'][idx % 3]
        if name in ('SparseCoherenceAnalyzer.frequencies', 'SeedCoherenceAnalyzer.frequencies', 'CoherenceAnalyzer.frequencies/welch') and (idx // 2) % 2:
            # explicit Fs in the method dict; the series itself runs at another rate
            o['fs_dict'] = True
            if idx % 4 == 1:
                u, dt, rate = rng.choice([iv for iv in INTERVALS if iv[0] == m['unit'] and float(iv[2]) != fs])
                o['series_interval'] = dt
            else:
                o['series_fs'] = f2x(fs * rng.choice([3.0, 0.25, 7.0]))
        elif (idx // 3) % 2:
            cands = [iv for iv in INTERVALS if iv[0] == m['unit'] and float(iv[2]) in EXACT_RATES + [10.0, 4000.0, 500000.0]]
            if cands:
                u, dt, rate = rng.choice(cands)
                m['interval'] = dt
                m['Fs'] = f2x(float(rate))
                fs = float(rate)
    m['opts'] = o
    if name in BANDED:
        bm = (idx // 2) % 6
        nf = N // 2
        k1 = rng.randint(0, nf - 1)
        k2 = rng.randint(k1, nf)
        g = lambda k: (k * (1.0 / N)) * fs                   # the float formula of utils.get_freqs
        if bm == 0 and idx % 4 == 0:
            m['lb'], m['ub'] = f2x(0.0), f2x(0.0)             # the DC bin alone (an explicit 0.0 is a value, not "unset")
        elif bm == 0:
            m['lb'] = f2x(0.0)                                # explicit 0.0, ub=None
        elif bm == 1 and exact:
            d1, d2 = rng.choice([-1, 0, 1]), rng.choice([-1, 0, 1])
            lbv = g(k1) if d1 == 0 else float(np.nextafter(g(k1), d1 * np.inf))
            ubv = g(k2) if d2 == 0 else float(np.nextafter(g(k2), d2 * np.inf))
            m['lb'], m['ub'] = f2x(max(lbv, 0.0)), f2x(ubv)
            m['band_mode'] = 'ulp/%+d/%+d' % (d1, d2)
        elif bm == 2:
            m['lb'] = f2x(g(k1) * 0.999 if k1 else 0.0)
            m['ub'] = f2x(fs / 2 * rng.choice([1.0, 1.5, 4.0]) + (0.0 if exact else fs / (8 * N)))   # at / above Nyquist
        elif bm == 3 and exact:
            m['lb'], m['ub'] = f2x(g(k1)), f2x(g(k2))        # both edges exactly on a bin
        elif bm == 4:
            m['ub'] = f2x((k2 + 0.5) * fs / N)                # lb left at its default 0
        else:
            m['lb'] = f2x((k1 + 0.5) * fs / N)
    return m

ESTIMATORS = ('periodogram', 'periodogram_csd', 'multi_taper_psd', 'multi_taper_csd')
SKIPPED = {}


def keep_ok(c, fam):
    """a call of the new families that raises returns no frequency vector: nothing for C05 to judge (counted in the stats)"""
    if isinstance(c._res, str):
        SKIPPED[fam] = SKIPPED.get(fam, 0) + 1
        return False
    return True


def option_cases(rng, tier, seed, rep):
    out = []
    SKIPPED.clear()
    # (6a) a precomputed transform Sk= of any length, with and without N= / NFFT=, 1-d / 2-d / 3-d, directly, through
    #      get_spectra and through CoherenceAnalyzer (series in s / ms / us)
    for i in range(72 * rep):
        c = make_case(gen_sk(rng, tier, i))
        if keep_ok(c, 'Sk'):
            out.append(c)
    # (6b) every site x every representation of the DATA (integer recordings, float32, complex64, Fortran order, strided,
    #      read-only, big-endian, an extra leading dimension)
    for r in range(max(1, rep // 3)):
        for j, name in enumerate(CALLS):
            if name == 'get_freqs':
                continue
            for k, dv in enumerate(DVARS):
                if dv == '3d' and name.split('/')[0] not in ESTIMATORS:
                    continue
                if dv == 'complex64' and not (name in COMPLEX_CALLS or name.split('/')[0] in ESTIMATORS and name.endswith('twosided')):
                    continue

                def mk():
                    m = gen_meta(rng, name, tier, j + k + r)
                    m['dvar'] = dv
                    if dv == 'complex64':
                        m['complex'] = True
                    if dv in ('uint8', 'complex64') or m.get('centroid'):
                        for q in ('k0', 'centroid'):
                            m.pop(q, None)       # the offset of unsigned data puts the largest value on the DC bin
                    m.pop('retarget', None)
                    if name.split('/')[0] in ('multi_taper_psd', 'multi_taper_csd'):
                        # the other optional arguments of the multitaper estimators, in combination
                        m.update(adaptive=bool(k % 2), low_bias=bool((k // 2) % 2), jackknife=(k % 3 == 0))
                        if m['adaptive']:
                            m['NW'] = 3                      # enough tapers for the adaptive weighting to be used at all
                    return m
                c = make_case(mk())
                if keep_ok(c, 'dtype'):
                    out.append(c)
    # (6c) process histories around every call: the call, then other rates / lengths through the same entry point and
    #      get_freqs, every result handed out (frequency vectors too) overwritten in place, then the call again
    for r in range(rep):
        for j, name in enumerate(CALLS):
            c = make_case(gen_sandwich(rng, name, tier, j + r))
            if keep_ok(c, 'recall'):
                out.append(c)
    # (6d) the optional arguments of the Welch / cache sites and bands at +-1 ulp of a bin
    for name in LATTICE_SITES:
        for i in range(30 * rep):
            c = make_case(gen_lattice(rng, name, tier, i))
            if keep_ok(c, 'options'):
                out.append(c)
    for i in range(18 * rep):                      # filtered_fourier: band edges on a bin and 1 ulp to either side
        N = [8, 16, 32][i % 3]
        fs = float(rng.choice(EXACT_RATES))
        k1 = rng.randint(1, N // 2 - 1)
        k2 = rng.randint(k1, N // 2)
        d1, d2 = [(-1, 1), (1, -1), (0, 0), (1, 1), (-1, -1), (0, 1)][(i // 3) % 6]
        e = lambda k, d: (k * (1.0 / N)) * fs if d == 0 else float(np.nextafter((k * (1.0 / N)) * fs, d * np.inf))
        m = {'call': 'FilterAnalyzer.filtered_fourier', 'dseed': 0, 'n': N, 'N': N, 'Fs': f2x(fs), 'unit': ['s', 'ms', 'us'][i % 3],
             'lb': f2x(e(k1, d1)), 'ub': f2x(e(k2, d2)), 'opts': {}}
        c = make_case(m)
        if keep_ok(c, 'options'):
            out.append(c)
    return out


TWO_SIDED = [c for c in CALLS if CALLS[c][1] in ('two', 'shift')]
ARANGE_LENGTHS = [49, 61, 98, 103, 121, 122]        # lengths at which a float-step arange(0, Fs, Fs/N) emits N+1 points
ARANGE_RATES = [1.0, 2 * math.pi, 1000.0]


def fixed_meta(name, N, Fs):
    """a plain call of `name` with data length = FFT length = N at rate Fs (deterministic)"""
    m = {'call': name, 'dseed': N, 'n': N, 'N': N, 'Fs': f2x(Fs)}
    if '.' not in name.split('/')[0] and name != 'get_freqs':
        m.update(sides=name.split('/')[-1], NFFT=None, nch=[2, 1][N % 2])
    if name in COMPLEX_CALLS or (CALLS[name][1] == 'two' and '.' not in name and N % 2):
        m['complex'] = True
    if name in ANALYZER:
        m['unit'] = ['s', 'ms', 'us'][N % 3]
    return m


def draw(make, tries=6):
    """a call that raises for reasons outside C05 (dpss on some n, …) is redrawn"""
    c = None
    for _try in range(tries):
        c = make_case(make())
        if not isinstance(c._res, str):
            break
    return c


def cases(rng, tier, seed):
    per = {'quick': 30, 'thorough': 400}[tier]
    rep = {'quick': 1, 'thorough': 8}[tier]
    out = []
    # minimal failing inputs of the recorded findings first (regression corpus)
    for m in CORPUS:
        out.append(make_case(dict(m)))
    # random calls; parity / NFFT mode / unit / band mode stratified by the case index
    for name in CALLS:
        k = per if 'multi_taper' not in name and 'Granger' not in name else max(12, per // 2)
        for i in range(k):
            out.append(draw(lambda: gen_meta(rng, name, tier, i)))
    # two-sided grids at the lengths where float-step grids go wrong, at all three rates, on EVERY seed …
    for name in TWO_SIDED:
        for N in ARANGE_LENGTHS:
            for Fs in ARANGE_RATES:
                out.append(make_case(fixed_meta(name, N, Fs)))
    # … and a sweep over every length 2..131 (rate rotating with the seed) for the cheap estimators
    top = 131 if tier == 'quick' else 400
    for name in ('periodogram/twosided', 'periodogram_csd/twosided', 'periodogram/onesided', 'periodogram_csd/onesided', 'get_freqs'):
        for N in range(2, top + 1):
            out.append(make_case(fixed_meta(name, N, ARANGE_RATES[(N + seed) % 3])))
    # re-targeted analyzers: every analyzer x way of re-targeting x what was read before x read order
    for r in range(rep):
        i = 0
        for name, hows in RT_HOWS.items():
            for how in hows:
                for pre in RT_PRE:
                    for order in RT_ORDER:
                        i += 1
                        out.append(draw(lambda: gen_retarget(rng, name, tier, how, pre, order, i + r)))
    # read histories of one analyzer: every analyzer x every OTHER result its class offers (found by introspection) x
    # {hand out, read the other, hand out again | the other first}; plus all other results in a drawn order, and the
    # same followed by reset() and a second round.  Every vector handed out is inspected AT THE END.
    for r in range(rep):
        i = 0
        for name in ANALYZER:
            hs = [(ev, o) for o in others_of(name) for ev in HIST_EVENTS] + [('FOF', 'ALL')]
            if RT_HOWS[name] != ['none']:                  # the class has reset()
                hs.append(('FOFRFOF', 'ALL'))
            for ev, o in hs:
                for dc in ((True, False) if (name in BANDED or CALLS[name][1] == 'keep') else (True,)):
                    i += 1
                    out.append(draw(lambda: gen_history(rng, name, tier, ev, o, i + r, dc)))
    out += option_cases(rng, tier, seed, rep)
    # (8) NFFT smaller than / equal to / larger than the series, every method and entry point: f against the spectrum it accompanies;
    #     utils.get_bounds called directly
    out += nfft_cases(rng, tier, rep)
    out += bounds_cases(rng, tier, rep)
    # (7) failure paths and aliasing: refused set_input calls / constructions / function calls, then the same objects judged
    out += fail_cases(rng, tier, rep)
    # several live analyzers: every ordered pair of classes x how they get their method dict x order of events
    # (thorough: also triples)
    for r in range(rep):
        i = 0
        for mode in TWO_MODES:
            for ca in TWO_CLS:
                for cb in TWO_CLS:
                    for pat in TWO_PATTERNS:
                        i += 1
                        out.append(make_case(gen_two(rng, tier, mode, [ca, cb], pat, i + r)))
        if tier == 'thorough':
            for mode in TWO_MODES:
                for _ in range(12):
                    i += 1
                    out.append(make_case(gen_two(rng, tier, mode, [rng.choice('CPES') for _k in range(3)], rng.choice(TWO_PATTERNS), i + r)))
    return out


CORPUS = [
    {'call': 'periodogram_csd/twosided', 'n': 4, 'N': 4, 'NFFT': None, 'sides': 'twosided', 'Fs': f2x(10.0), 'dseed': 0},
    {'call': 'periodogram_csd/onesided', 'n': 5, 'N': 5, 'NFFT': None, 'sides': 'onesided', 'Fs': f2x(10.0), 'dseed': 0},
    {'call': 'multi_taper_psd/onesided', 'n': 9, 'N': 9, 'NFFT': None, 'sides': 'onesided', 'Fs': f2x(10.0), 'dseed': 0},
    {'call': 'multi_taper_csd/onesided', 'n': 9, 'N': 9, 'NFFT': None, 'sides': 'onesided', 'Fs': f2x(10.0), 'dseed': 0},
    {'call': 'get_freqs', 'n': 5, 'N': 5, 'Fs': f2x(10.0), 'dseed': 0},
    {'call': 'get_spectra/periodogram_csd/onesided', 'n': 4, 'N': 4, 'NFFT': None, 'sides': 'onesided', 'Fs': f2x(10.0), 'dseed': 0},
    {'call': 'CoherenceAnalyzer.frequencies/periodogram_csd', 'n': 4, 'N': 4, 'Fs': f2x(10.0), 'unit': 'ms', 'interval': 100.0, 'dseed': 0},
    {'call': 'cache_fft', 'n': 23, 'N': 5, 'Fs': f2x(10.0), 'lb': f2x(1.0), 'ub': f2x(4.1), 'dseed': 0},
    {'call': 'MTCoherenceAnalyzer.frequencies', 'n': 5, 'N': 5, 'Fs': f2x(10.0), 'unit': 's', 'dseed': 0},
    {'call': 'SNRAnalyzer.mt_frequencies', 'n': 5, 'N': 5, 'Fs': f2x(10.0), 'unit': 's', 'dseed': 0},
    {'call': 'SpectralAnalyzer.spectrum_fourier/complex', 'n': 4, 'N': 4, 'Fs': f2x(1.0), 'unit': 's', 'complex': True, 'dseed': 0},
    {'call': 'SpectralAnalyzer.spectrum_fourier/real', 'n': 5, 'N': 5, 'Fs': f2x(10.0), 'unit': 's', 'dseed': 0},
    {'call': 'GrangerAnalyzer.frequencies', 'n': 64, 'N': 4, 'Fs': f2x(1.0), 'unit': 's', 'dseed': 0, 'with_values': True},
    {'call': 'FilterAnalyzer.filtered_fourier', 'n': 9, 'N': 9, 'Fs': f2x(9.0), 'unit': 's', 'lb': f2x(1.5), 'ub': f2x(3.2), 'dseed': 0},
    # band below the first non-zero bin: only DC survives (seeded change C05-1: an empty slice [1:0] kept everything)
    {'call': 'FilterAnalyzer.filtered_fourier', 'n': 25, 'N': 25, 'Fs': f2x(0.5), 'unit': 's', 'lb': f2x(0.0), 'ub': f2x(0.015), 'dseed': 0},
    {'call': 'FilterAnalyzer.filtered_fourier', 'n': 16, 'N': 16, 'Fs': f2x(8.0), 'unit': 'ms', 'lb': f2x(0.0), 'ub': f2x(0.3), 'dseed': 0},
    # two CoherenceAnalyzers given ONE caller's method dict, inputs at 100 Hz and 250 Hz (recorded finding: the second reports 0..50 Hz)
    {'call': 'two', 'mode': 'shared', 'N': 64, 'n': 256, 'events': ['n0', 'n1', 'f1', 'f0'],
     'ans': [{'cls': 'C', 'n': 256, 'dseed': 1, 'Fs': f2x(100.0), 'unit': 's'}, {'cls': 'C', 'n': 256, 'dseed': 2, 'Fs': f2x(250.0), 'unit': 'ms', 'interval': 4.0}]},
    # … and the same experiment without any caller's dict
    {'call': 'two', 'mode': 'none', 'N': 64, 'n': 256, 'events': ['n0', 'n1', 'f1', 'f0'],
     'ans': [{'cls': 'C', 'n': 256, 'dseed': 1, 'Fs': f2x(100.0), 'unit': 's'}, {'cls': 'C', 'n': 256, 'dseed': 2, 'Fs': f2x(250.0), 'unit': 'ms', 'interval': 4.0}]},
]


def fail_of(m, key, what, c=None):
    mm = {k: v for k, v in m.items()}
    return Failure(key, what, {'meta': mm, 'key': key}, case=c)


def oracle(rng, tier, seed, focus, cases):
    fails, n = [], 0
    per_call = {}
    for c in cases:
        m = c.meta
        res = getattr(c, '_res', None)
        if res is None:
            continue
        n += 1
        js = judge(m, res)
        per_call.setdefault(m['call'], [0, 0])[0] += 1
        if js:
            per_call[m['call']][1] += 1
        for key, what in js:
            fails.append(fail_of(m, key, what, c))
        # GrangerAnalyzer: one frequency per causality value
        if m['call'] == 'GrangerAnalyzer.frequencies' and not isinstance(res, str) and res[1] is not None and not m.get('hist'):
            if len(np.atleast_1d(res[1])) != len(np.atleast_1d(res[0])):
                fails.append(fail_of(m, 'GrangerAnalyzer.frequencies/%s/length' % parity(m), 'frequencies and causality values differ in length', c))
    # (9) long records: oracle only
    lf, nlong = long_record_checks(seed, tier)
    fails += lf
    n += nlong
    # keep the smallest input per key (stable, minimal replay)
    best = {}
    for f in fails:
        k = f.key
        cur = best.get(k)
        size = (f.replay['meta']['N'], f.replay['meta']['n'])
        if cur is None or size < cur[0]:
            best[k] = (size, f)
    ordered = [v[1] for k, v in sorted(best.items())]
    seen = {id(f) for f in ordered}
    ordered += [f for f in fails if id(f) not in seen]
    stats = {'calls_judged': n, 'long_record_experiments': nlong, 'distinct_failure_keys': len(best), 'calls_raising_not_judged': dict(SKIPPED),
             'calls_failing': {k: '%d/%d' % (v[1], v[0]) for k, v in sorted(per_call.items()) if v[1]}}
    return ordered, stats


def replay(d):
    m = dict(d['meta'])
    if m.get('call') == 'long':
        js = judge_long(m)
        for key, what in js:
            if key == d.get('key'):
                return Failure(key, what, d)
        return Failure(js[0][0], js[0][1], d) if js else None
    try:
        res = run_call(m)
    except Exception as e:  # noqa
        res = 'err ' + err_kind(e)
    js = judge(m, res)
    if m['call'] == 'GrangerAnalyzer.frequencies' and not isinstance(res, str) and res[1] is not None \
            and len(np.atleast_1d(res[1])) != len(np.atleast_1d(res[0])):
        js.append(('GrangerAnalyzer.frequencies/%s/length' % parity(m), 'frequencies and causality values differ in length'))
    for key, what in js:
        if key == d.get('key'):
            return Failure(key, what, d)
    if js:
        return Failure(js[0][0], js[0][1], d)
    return None
