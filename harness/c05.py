"""C05 — frequency axes are the true bin frequencies in Hz.

Correspondence: every function / analyzer that returns a frequency vector is called through the
public API; the Lean model evaluates the grid term that `translate_c05.py` extracted from the
CURRENT source for that site (exact rationals) and the two are compared at 4 ulp.  The model follows
the code, so it agrees with the implementation also where the code's formula is wrong; it is the
ORACLE (fractions.Fraction, independent of Lean) that judges the implementation against the
property: entry k = k·Fs/NFFT, an on-bin sinusoid peaks at the reported frequency of its bin, a band
selection keeps exactly the bins whose true frequency lies in the band.
"""
import math, warnings
from fractions import Fraction as Fr
import numpy as np
import common
from common import Case, Failure, f2x, x2f, flist, parse_flist, ilist, err_kind

PID = 'C05'
LEAN_TARGETS = ['Nitime.Props.C05']
RULE = ('one case = one public call (estimator function or analyzer attribute) returning a frequency vector. Blocks: (1) per call, '
        'Fs in {0.5,1,2,10,125,250,1000,44100, random floats, 2pi} x data length n in [4,28] (quick) with parity, NFFT mode {none, larger of the '
        'other parity, equal, smaller}, channels {1,2,4}, real/complex, unit {s,ms,us}, interval-vs-rate and band mode {none, between bins, on bins, '
        'outside the grid, inverted lb>ub, degenerate} STRATIFIED by the case index; (2) every two-sided site at N in {49,61,98,103,121,122} x '
        'Fs in {1, 2pi, 1000} and a sweep N = 2..131 (thorough: ..400) of periodogram / periodogram_csd / get_freqs, on every seed; (3) re-targeted '
        'analyzers: every analyzer x {set_input, parameters + reset(), both} x what was read on the first input {freq, spec, both orders} x read '
        'order after re-targeting {frequencies first, spectrum first}, judged against a fresh analyzer and the true grid (the vector handed out '
        'on the first input is kept and must read the same at the end); (4) read histories of ONE analyzer: every analyzer x every OTHER result '
        'its class offers (one-time attributes / properties found by introspection of the live class) x {hand out the frequencies, read the other, '
        'hand out again | the other first}, plus all other results in a drawn order, plus that followed by reset() and a second round; banded '
        'analyzers once with the DC bin in the band and once with a stratified band; every vector handed out is kept and inspected AT THE END; '
        '(5) several LIVE analyzers: every ordered pair of {Coherence, SparseCoherence, SeedCoherence, Spectral (psd / cpsd / both orders)} '
        '(thorough: also triples) on inputs of different rates and units x method dict {one caller dict for all, an equal dict each, method=None, no method argument at all (a mutable default), '
        'for all, dict for the first + None} x event order {build both then read B,A | A,B | read each before the next is built, re-read at the '
        'end}: each read must be the reader\'s OWN input\'s grid; a failure under one shared caller dict that disappears with an equal dict each '
        'is the recorded finding, everything else a violation. '
        'distinct = distinct protocol line (site, Fs, N, band); non-trivial = N >= 3')
ASSUMPTIONS = ['Fs > 0 finite; N >= 2; the frequency vector is compared with the exact rational grid at 4 ulp per entry',
               'np.pi is represented in the exact runs by a 40-digit rational (theorems hold for any value of pi)',
               'mlab.psd/csd frequency vector = k*Fs/NFFT (contract, monitored: the Welch paths are compared with the true grid by the oracle on every run)',
               'analyzer cases use sampling intervals whose rate 1e12/dt_ps is an exactly representable double, or sampling_rate= given directly']
TRUSTED_EXTRA = ['harness/translate_c05.py: AST -> GridExpr for each site (echoed in the evidence); which expression of a function is "the" frequency vector is fixed there',
                 'harness/translate_c05.py gen_methods: what each analyzer constructor stores in self.method (dict display for None, the caller\'s object or a copy, Fs fill) -> Generated/Methods.lean; '
                 'the Fs reads/writes of the frequency getters in Nitime/Model/C05Hist.lean (Two.step: freq, cpsd) are transcribed by hand and monitored by the `two` correspondence',
                 'Nitime/Model/C05Hist.lean Hist: getters allocate their result and never write into an existing array (the intended behaviour; an implementation that does is reported by the `hist` correspondence and the oracle)',
                 'numpy semantics of linspace / rfftfreq / arange / searchsorted as written in Nitime/Model/C05Grid.lean (checked against numpy on every run by the correspondence)',
                 'float evaluation of the grid formulas is not modelled: exact rational value vs float vector at 4 ulp',
                 'sinusoid_peak_bin is stated for the mathematical DFT (primitive root of unity); that fftpack.fft is that DFT is checked only by the on-bin oracle runs']

warnings.simplefilter('ignore')


# ------------------------------------------------------------------ numeric helpers
def ulp(x):
    return math.ulp(abs(x)) if x != 0 else 5e-324


def parse_rats(s):
    return [] if s == '-' else [Fr(t) for t in s.split(',')]


def close4(fl, rats, cancel=False):
    """floats vs exact rationals at 4 ulp per entry (cancel: entries near 0 of a grid that starts
    at -Fs/2 are computed with the absolute error of the largest entry)"""
    if len(fl) != len(rats):
        return False
    scale = max([abs(x) for x in fl] + [abs(float(q)) for q in rats] + [0.0])
    for a, q in zip(fl, rats):
        if a != a or abs(a) == float('inf'):
            return False
        tol = 4 * ulp(max(abs(a), abs(float(q))))
        if cancel:
            tol = max(tol, 4 * ulp(scale))
        if abs(Fr(a) - q) > Fr(tol):
            return False
    return True


def cmp_grid(cancel=False):
    def cmp(impl, model):
        if impl.startswith('err') or not (model == '-' or model[0].isdigit() or model[0] == '-'):
            return impl == model
        try:
            return close4(parse_flist(impl), parse_rats(model), cancel)
        except Exception:
            return False
    return cmp


# ------------------------------------------------------------------ the calls
UNIT_PS = {'s': 10**12, 'ms': 10**9, 'us': 10**6}
# (unit, interval in that unit, exact rate in Hz) — rates exactly representable
INTERVALS = [('s', 1.0, Fr(1)), ('s', 2.0, Fr(1, 2)), ('s', 0.5, Fr(2)), ('ms', 100.0, Fr(10)), ('ms', 4.0, Fr(250)),
             ('ms', 8.0, Fr(125)), ('ms', 1.0, Fr(1000)), ('us', 2.0, Fr(500000)), ('us', 1000.0, Fr(1000)),
             ('us', 250.0, Fr(4000)), ('ms', 500.0, Fr(2)), ('s', 4.0, Fr(1, 4))]
FS_VALUES = [0.5, 1.0, 2.0, 10.0, 125.0, 250.0, 1000.0, 44100.0, 3.7, 1.0 / 3.0, 2 * math.pi, 8.0, 100.0]


def data_for(m):
    r = np.random.RandomState(m.get('dseed', 0))
    n = m['n']
    nch = m.get('nch', 2)       # number of channels: 1 (a single-channel shortcut must report the same grid), 2, 4
    x = r.randn(nch, n)
    if m.get('k0') is not None:
        # on-bin sinusoid at bin k0 of an N-point transform (N = m['N'])
        t = np.arange(n)
        ph = 2 * np.pi * m['k0'] * t / m['N']
        if m.get('complex'):
            x = np.vstack([np.exp(1j * (ph + 0.3 * c)) for c in range(nch)])
        else:
            x = np.vstack([np.cos(ph + 0.2 + 0.7 * c) for c in range(nch)])
    elif m.get('complex'):
        x = x + 1j * r.randn(nch, n)
    return x


def mk_ts(m, data):
    import nitime.timeseries as ts
    if m.get('interval') is not None:
        return ts.TimeSeries(data, sampling_interval=m['interval'], time_unit=m['unit'])
    return ts.TimeSeries(data, sampling_rate=x2f(m['Fs']), time_unit=m.get('unit', 's'))


def fs_true(m):
    if m.get('interval') is not None:
        return Fr(10**12) / (Fr(m['interval']) * UNIT_PS[m['unit']])
    return Fr(x2f(m['Fs']))


# call table: name -> (site, kind, opkind)   kind: one|two|shift|freqz ; opkind: grid|band|keep|contract
CALLS = {
    'periodogram/onesided': ('periodogram_onesided', 'one'),
    'periodogram/twosided': ('periodogram_twosided', 'two'),
    'periodogram_csd/onesided': ('periodogram_csd_onesided', 'one'),
    'periodogram_csd/twosided': ('periodogram_csd_twosided', 'two'),
    'multi_taper_psd/onesided': ('multi_taper_psd_onesided', 'one'),
    'multi_taper_psd/twosided': ('multi_taper_psd_twosided', 'two'),
    'multi_taper_csd/onesided': ('multi_taper_csd_onesided', 'one'),
    'multi_taper_csd/twosided': ('multi_taper_csd_twosided', 'two'),
    'get_freqs': ('get_freqs', 'one'),
    'get_spectra/multi_taper_csd/onesided': ('get_spectra_multi_taper_csd_onesided', 'one'),
    'get_spectra/multi_taper_csd/twosided': ('get_spectra_multi_taper_csd_twosided', 'two'),
    'get_spectra/periodogram_csd/onesided': ('get_spectra_periodogram_csd_onesided', 'one'),
    'get_spectra/periodogram_csd/twosided': ('get_spectra_periodogram_csd_twosided', 'two'),
    'get_spectra/welch': (None, 'one'),
    'cache_fft': ('cache_fft', 'one'),
    'correlation_spectrum': ('correlation_spectrum', 'one'),
    'CoherenceAnalyzer.frequencies/welch': (None, 'one'),
    'CoherenceAnalyzer.frequencies/multi_taper_csd': ('get_spectra_multi_taper_csd_onesided', 'one'),
    'CoherenceAnalyzer.frequencies/periodogram_csd': ('get_spectra_periodogram_csd_onesided', 'one'),
    'MTCoherenceAnalyzer.frequencies': ('MTCoherenceAnalyzer_frequencies', 'one'),
    'SparseCoherenceAnalyzer.frequencies': ('SparseCoherenceAnalyzer_frequencies', 'one'),
    'SeedCoherenceAnalyzer.frequencies': ('SeedCoherenceAnalyzer_frequencies', 'one'),
    'SpectralAnalyzer.psd': (None, 'one'),
    'SpectralAnalyzer.cpsd': (None, 'one'),
    'SpectralAnalyzer.periodogram/real': ('SpectralAnalyzer_periodogram_onesided', 'one'),
    'SpectralAnalyzer.periodogram/complex': ('SpectralAnalyzer_periodogram_twosided', 'two'),
    'SpectralAnalyzer.spectrum_fourier/real': ('SpectralAnalyzer_spectrum_fourier_real', 'one'),
    'SpectralAnalyzer.spectrum_fourier/complex': ('SpectralAnalyzer_spectrum_fourier_complex', 'shift'),
    'SpectralAnalyzer.spectrum_multi_taper/real': ('SpectralAnalyzer_spectrum_multi_taper_onesided', 'one'),
    'SpectralAnalyzer.spectrum_multi_taper/complex': ('SpectralAnalyzer_spectrum_multi_taper_twosided', 'two'),
    'FilterAnalyzer.filtered_fourier': ('FilterAnalyzer_filtered_fourier', 'keep'),
    'GrangerAnalyzer.frequencies': ('GrangerAnalyzer_frequencies', 'freqz'),
    'SNRAnalyzer.mt_frequencies': ('SNRAnalyzer_mt_frequencies', 'one'),
}
BANDED = ('cache_fft', 'SparseCoherenceAnalyzer.frequencies', 'SeedCoherenceAnalyzer.frequencies')
COMPLEX_CALLS = ('SpectralAnalyzer.periodogram/complex', 'SpectralAnalyzer.spectrum_fourier/complex',
                 'SpectralAnalyzer.spectrum_multi_taper/complex')
ANALYZER = [c for c in CALLS if '.' in c.split('/')[0]]


def opt(m, k):
    v = m.get(k)
    return None if v is None else x2f(v)


def run_call(m):
    """returns (f vector or index list, spectrum or None) from the REAL implementation"""
    if m.get('call') == 'two':
        return run_two(m)
    import nitime.algorithms as tsa
    import nitime.utils as utils
    import nitime.analysis as an
    name = m['call']
    x = data_for(m)
    Fs = x2f(m['Fs'])
    N = m['N']
    nfft = m.get('NFFT')
    lb, ub = opt(m, 'lb'), opt(m, 'ub')
    lb = 0 if lb is None else lb
    if name.startswith('periodogram/'):
        f, p = tsa.periodogram(x, Fs=Fs, N=nfft, sides=m['sides'])
        return f, p[0]
    if name.startswith('periodogram_csd/'):
        f, p = tsa.periodogram_csd(x, Fs=Fs, NFFT=nfft, sides=m['sides'])
        return f, np.abs(p[0, 0])
    if name.startswith('multi_taper_psd/'):
        f, p, _ = tsa.multi_taper_psd(x, Fs=Fs, NFFT=nfft, sides=m['sides'], jackknife=False, adaptive=False, NW=m.get('NW', 1))
        return f, p[0]
    if name.startswith('multi_taper_csd/'):
        f, p = tsa.multi_taper_csd(x, Fs=Fs, NFFT=nfft, sides=m['sides'], adaptive=False, NW=m.get('NW', 1))
        return f, np.abs(p[0, 0])
    if name == 'get_freqs':
        return utils.get_freqs(Fs, N), None
    if name.startswith('get_spectra/'):
        parts = name.split('/')
        if parts[1] == 'welch':
            f, p = tsa.get_spectra(x, {'this_method': 'welch', 'Fs': Fs, 'NFFT': N, 'n_overlap': N // 2})
            return f, np.abs(p[0, 0])
        md = {'this_method': parts[1], 'Fs': Fs, 'sides': parts[2]}
        if nfft is not None:
            md['NFFT'] = nfft
        f, p = tsa.get_spectra(x, md)
        return f, None
    if name == 'cache_fft':
        f, c = tsa.cache_fft(x, [(0, 1)], lb=lb, ub=ub, method={'this_method': 'welch', 'NFFT': N, 'Fs': Fs, 'n_overlap': N // 2})
        return f, None, int(np.asarray(c['FFT_slices'][0]).shape[-1])
    if name == 'correlation_spectrum':
        f, c = tsa.correlation_spectrum(x[0], x[1], Fs=Fs)
        return f, None
    # ---- analyzers
    if m.get('rt'):
        return run_retarget(m)
    if m.get('hist'):
        return run_history(m)
    A = an_build(name, m)
    f, spec = an_freq(name, A, m)
    return f, spec, None, None


# ------------------------------------------------------------------ analyzers: build / read / re-target
def an_build(name, m):
    """a fresh analyzer for the state described by m (rate, length, unit, NFFT, band)"""
    import nitime.analysis as an
    N = m['N']
    lb, ub = opt(m, 'lb'), opt(m, 'ub')
    lb = 0 if lb is None else lb
    if name == 'FilterAnalyzer.filtered_fourier':
        # flat-spectrum probe: an impulse; the bins that survive are read off the FFT of the output
        d = np.zeros((1, N))
        d[0, 1] = 1.0
        return an.FilterAnalyzer(mk_ts(m, d), lb=lb, ub=ub)
    T = mk_ts(m, data_for(m))
    if name == 'CoherenceAnalyzer.frequencies/welch':
        return an.CoherenceAnalyzer(T, method={'this_method': 'welch', 'NFFT': N, 'n_overlap': N // 2})
    if name.startswith('CoherenceAnalyzer.frequencies/'):
        return an.CoherenceAnalyzer(T, method={'this_method': name.split('/')[1]})
    if name == 'MTCoherenceAnalyzer.frequencies':
        return an.MTCoherenceAnalyzer(T)
    if name == 'SparseCoherenceAnalyzer.frequencies':
        return an.SparseCoherenceAnalyzer(T, ij=[(0, 1)], method={'this_method': 'welch', 'NFFT': N}, lb=lb, ub=ub)
    if name == 'SeedCoherenceAnalyzer.frequencies':
        return an.SeedCoherenceAnalyzer(T, T, method={'NFFT': N}, lb=lb, ub=ub)
    if name in ('SpectralAnalyzer.psd', 'SpectralAnalyzer.cpsd'):
        if m.get('retarget'):
            # the analyzer is first built on ANOTHER series (3x the rate) and then pointed at T: the frequency
            # axis must follow the rate of the series it is now analysing (a rate cached in a parameter dict at
            # construction reports the old series' grid)
            import nitime.timeseries as ts
            T0 = ts.TimeSeries(np.asarray(T.data)[..., ::-1] + 1.0, sampling_rate=float(T.sampling_rate) * 3.0, time_unit='s')
            A = an.SpectralAnalyzer(T0)           # default method dict (filled in by the constructor)
            A.method.update({'NFFT': N, 'n_overlap': N // 2})
            A.set_input(T)
            return A
        return an.SpectralAnalyzer(T, method={'NFFT': N, 'n_overlap': N // 2})
    if name.startswith('SpectralAnalyzer.'):
        return an.SpectralAnalyzer(T)
    if name == 'GrangerAnalyzer.frequencies':
        return an.GrangerAnalyzer(T, order=1, n_freqs=N)
    if name == 'SNRAnalyzer.mt_frequencies':
        return an.SNRAnalyzer(T)
    raise KeyError(name)


def an_freq(name, A, m):
    """(frequency vector | kept bins, spectrum | None) read from analyzer A"""
    N = m['N']
    if name == 'FilterAnalyzer.filtered_fourier':
        out = A.filtered_fourier
        S = np.abs(np.fft.fft(np.asarray(out.data)[0]))
        return [k for k in range(1, N // 2 + 1) if S[k] > 0.5], None
    if name == 'SpectralAnalyzer.psd':
        f, p = A.psd
        return f, p[0]
    if name == 'SpectralAnalyzer.cpsd':
        f, p = A.cpsd
        return f, np.abs(p[0, 0])
    if name.startswith('SpectralAnalyzer.periodogram/'):
        f, p = A.periodogram
        return f, p[0]
    if name.startswith('SpectralAnalyzer.spectrum_fourier/'):
        f, p = A.spectrum_fourier
        return f, np.abs(p[0])
    if name.startswith('SpectralAnalyzer.spectrum_multi_taper/'):
        f, p = A.spectrum_multi_taper
        return f, np.abs(p[0])
    if name == 'GrangerAnalyzer.frequencies':
        f = A.frequencies
        return f, np.asarray(A.causality_xy)[0, 1] if m.get('with_values') else None
    if name == 'SNRAnalyzer.mt_frequencies':
        return A.mt_frequencies, None
    return A.frequencies, None


def an_spec(name, A):
    """read a spectrum-like attribute (not the frequency attribute) of A"""
    if name.startswith('CoherenceAnalyzer.'):
        return A.coherence
    if name == 'MTCoherenceAnalyzer.frequencies':
        return A.coherence
    if name == 'SparseCoherenceAnalyzer.frequencies':
        return A.coherence
    if name == 'SeedCoherenceAnalyzer.frequencies':
        return A.coherence
    if name.startswith('SpectralAnalyzer.spectrum_fourier/'):
        return A.periodogram
    if name.startswith('SpectralAnalyzer.'):
        return A.spectrum_fourier
    if name == 'GrangerAnalyzer.frequencies':
        return A.causality_xy
    if name == 'SNRAnalyzer.mt_frequencies':
        return A.mt_signal_psd
    if name == 'FilterAnalyzer.filtered_fourier':
        return A.filtered_fourier
    raise KeyError(name)


# how an analyzer can be re-targeted: 'set_input' (another series), 'params' (change the documented
# parameters, then reset()), 'both', 'none' (no re-targeting API: only the read order is varied)
RT_HOWS = {
    'CoherenceAnalyzer.frequencies/welch': ['set_input', 'params', 'both'],
    'CoherenceAnalyzer.frequencies/multi_taper_csd': ['set_input'],
    'CoherenceAnalyzer.frequencies/periodogram_csd': ['set_input'],
    'MTCoherenceAnalyzer.frequencies': ['set_input'],
    'SparseCoherenceAnalyzer.frequencies': ['set_input', 'params', 'both'],
    'SeedCoherenceAnalyzer.frequencies': ['none'],
    'SpectralAnalyzer.psd': ['set_input', 'params', 'both'],
    'SpectralAnalyzer.cpsd': ['set_input', 'params', 'both'],
    'SpectralAnalyzer.periodogram/real': ['set_input'],
    'SpectralAnalyzer.periodogram/complex': ['set_input'],
    'SpectralAnalyzer.spectrum_fourier/real': ['set_input'],
    'SpectralAnalyzer.spectrum_fourier/complex': ['set_input'],
    'SpectralAnalyzer.spectrum_multi_taper/real': ['set_input'],
    'SpectralAnalyzer.spectrum_multi_taper/complex': ['set_input'],
    'FilterAnalyzer.filtered_fourier': ['params'],
    'GrangerAnalyzer.frequencies': ['set_input'],
    'SNRAnalyzer.mt_frequencies': ['set_input'],
}


def an_retarget(name, A, m, how):
    """point analyzer A (built for the state m['rt']['A']) at the state m"""
    N = m['N']
    lb, ub = opt(m, 'lb'), opt(m, 'ub')
    lb = 0 if lb is None else lb
    if how in ('set_input', 'both'):
        A.set_input(mk_ts(m, data_for(m)))
    if how in ('params', 'both'):
        if name == 'FilterAnalyzer.filtered_fourier':
            A.lb, A.ub = lb, ub
        elif name == 'SparseCoherenceAnalyzer.frequencies':
            A.lb, A.ub = lb, ub
            A.method['NFFT'] = N
        else:                                   # Welch parameters of CoherenceAnalyzer / SpectralAnalyzer.psd, cpsd
            A.method['NFFT'] = N
            A.method['n_overlap'] = N // 2
        A.reset()


def run_retarget(m):
    """one analyzer object used twice: built for state A, read, re-targeted to state m (= B), read again in
    the recorded order.  Returns B's frequency vector as this object reports it, plus what a FRESH
    analyzer built for B reports."""
    name, rt = m['call'], m['rt']
    mB = {k: v for k, v in m.items() if k != 'rt'}
    mA = dict(mB)
    for k, v in rt['A'].items():           # None = the key is absent in state A
        if v is None:
            mA.pop(k, None)
        else:
            mA[k] = v
    A = an_build(name, mA)
    held = []                               # (object handed out on the first input, its content then)
    if rt['pre'] in ('freq', 'both'):
        held.append(an_freq(name, A, mA)[0])
    if rt['pre'] in ('spec', 'both'):
        an_spec(name, A)
    if rt['pre'] == 'both-rev':
        an_spec(name, A)
        held.append(an_freq(name, A, mA)[0])
    held = [(h, snapshot(h)) for h in held]
    an_retarget(name, A, mB, rt['how'])
    if rt['order'] == 'spec-first':
        an_spec(name, A)
    f, spec = an_freq(name, A, mB)
    ff, _ = an_freq(name, an_build(name, mB), mB)
    changed = [(snap, snapshot(h)) for h, snap in held if not same_vec(snap, snapshot(h))]
    return f, spec, None, ff, changed



# ------------------------------------------------------------------ read histories of ONE analyzer
FREQ_ATTR = {'SpectralAnalyzer.psd': 'psd', 'SpectralAnalyzer.cpsd': 'cpsd', 'SpectralAnalyzer.periodogram': 'periodogram',
             'SpectralAnalyzer.spectrum_fourier': 'spectrum_fourier', 'SpectralAnalyzer.spectrum_multi_taper': 'spectrum_multi_taper',
             'FilterAnalyzer.filtered_fourier': 'filtered_fourier', 'SNRAnalyzer.mt_frequencies': 'mt_frequencies'}


def freq_attr(name):
    return FREQ_ATTR.get(name.split('/')[0], 'frequencies')


def snapshot(v):
    if isinstance(v, list):
        return list(v)
    return np.array(v, dtype=float, copy=True).reshape(-1)


def same_vec(a, b):
    if isinstance(a, list) or isinstance(b, list):
        return list(a) == list(b)
    return a.shape == b.shape and bool(np.array_equal(a, b, equal_nan=True))


def result_names(A):
    """every result the analyzer object offers (one-time attributes and properties of its classes), found by
    introspection of the LIVE class, so that a result added or rewritten later is exercised too"""
    out = []
    for k in type(A).__mro__:
        for n, v in vars(k).items():
            if type(v).__name__ in ('OneTimeProperty', 'property') and not n.startswith('_') \
                    and n not in ('parameterlist', 'parameters') and n not in out:
                out.append(n)
    return out


def other_results(name):
    """names of the results, other than the frequency attribute of call `name`, of that analyzer class"""
    m = {'call': name, 'n': 40, 'N': 8, 'Fs': f2x(1.0), 'dseed': 0, 'unit': 's'}
    if name in COMPLEX_CALLS:
        m['complex'] = True
    if name in N_IS_LENGTH:
        m['N'] = 40
    A = an_build(name, m)
    return [n for n in result_names(A) if n != freq_attr(name)]


def run_history(m):
    """one analyzer, a history of reads.  events: F = read the frequency attribute and KEEP the object,
    O = read the other result(s) named in m['hist']['other'], R = reset().  Returns the last frequency read,
    plus for every F: the content at hand-out time and the content of the SAME object at the end."""
    name, h = m['call'], m['hist']
    A = an_build(name, m)
    fa = freq_attr(name)
    held, ev_seen, errs = [], '', []
    f = spec = None
    for ev in h['events']:
        if ev == 'F':
            f, spec = an_freq(name, A, m)
            held.append((f, snapshot(f)))
            ev_seen += 'F'
        elif ev == 'O':
            for o in h['other']:
                fired = fa in vars(A)
                try:
                    getattr(A, o)
                except Exception as e:  # noqa -- a result that cannot be computed on this input is not C05's matter
                    errs.append('%s: %s' % (o, err_kind(e)))
                ev_seen += 'D' if (fa in vars(A)) and not fired else 'O'
        elif ev == 'R':
            A.reset()
            ev_seen += 'R'
    views = [(snap, snapshot(obj)) for obj, snap in held]
    return f, spec, None, None, None, {'views': views, 'events': ev_seen, 'errors': errs}


# ------------------------------------------------------------------ several live analyzers, one or several method dicts
TWO_CLS = {'C': 'CoherenceAnalyzer', 'P': 'SparseCoherenceAnalyzer', 'E': 'SeedCoherenceAnalyzer', 'S': 'SpectralAnalyzer'}


OMITTED = 'omitted'          # the `method` argument is left out (not the same as method=None: a mutable default argument)


def two_build(c, T, method):
    import nitime.analysis as an
    kw = {} if method is OMITTED else {'method': method}
    if c == 'C':
        return an.CoherenceAnalyzer(T, **kw)
    if c == 'P':
        return an.SparseCoherenceAnalyzer(T, ij=[(0, 1)], **kw)
    if c == 'E':
        return an.SeedCoherenceAnalyzer(T, T, **kw)
    return an.SpectralAnalyzer(T, **kw)


def two_dicts(m, mode=None):
    """the method argument of each analyzer: 'shared' = ONE caller's dict for all, 'own' = an equal dict each,
    'none' = method=None, 'omitted' = the argument is left out; 'mixed' = the first one gets a caller's dict, the others None"""
    mode = mode or m['mode']
    N = m['N']
    mk = lambda: {'this_method': 'welch', 'NFFT': N, 'n_overlap': N // 2}
    k = len(m['ans'])
    if mode == 'shared':
        d = mk()
        return [d] * k
    if mode == 'own':
        return [mk() for _ in range(k)]
    if mode == 'mixed':
        return [mk()] + [None] * (k - 1)
    if mode == 'omitted':
        return [OMITTED] * k
    return [None] * k


def run_two(m, mode=None):
    """events: n<k> construct analyzer k, f<k> read its frequencies (SpectralAnalyzer: psd[0]), c<k> read cpsd[0].
    Returns [(k, object handed out, its content then, its content at the end)]"""
    dicts = two_dicts(m, mode)
    ans, reads = {}, []
    for ev in m['events']:
        k = int(ev[1:])
        a = m['ans'][k]
        if ev[0] == 'n':
            ans[k] = two_build(a['cls'], mk_ts(a, data_for(a)), dicts[k])
        elif ev[0] == 'f':
            v = ans[k].psd[0] if a['cls'] == 'S' else ans[k].frequencies
            reads.append((k, v, snapshot(v)))
        elif ev[0] == 'c':
            v = ans[k].cpsd[0]
            reads.append((k, v, snapshot(v)))
    return [(k, snap, snapshot(v)) for k, v, snap in reads]


def two_line(m):
    toks, mode = [], m['mode']
    if mode in ('shared', 'mixed'):
        toks.append('u')
    elif mode == 'own':
        toks += ['u'] * len(m['ans'])
    for ev in m['events']:
        k = int(ev[1:])
        if ev[0] == 'n':
            d = {'shared': '0', 'own': str(k), 'none': '-', 'omitted': '-', 'mixed': '0' if k == 0 else '-'}[mode]
            toks.append('n%s:%s:%s' % (m['ans'][k]['cls'], f2x(float(fs_true(m['ans'][k]))), d))
        else:
            toks.append(ev)
    return 'C05 two %d %s' % (m['N'], ' '.join(toks))


def two_pair(m):
    return '-'.join(TWO_CLS[a['cls']] for a in m['ans'])


def judge_two(m, res):
    pre = 'two-analyzers/%s/%s' % ({'shared': 'shared-user-method-dict', 'own': 'own-method-dict', 'none': 'method-none',
                                    'omitted': 'method-omitted', 'mixed': 'user-dict-and-none'}[m['mode']], two_pair(m))
    if isinstance(res, str):
        return [(pre + '/raises', 'analyzers %s, events %s: %s' % (two_pair(m), ' '.join(m['events']), res))]
    N, out = m['N'], []

    def wrong(reads):
        bad = []
        for k, snap, end in reads:
            want = [Fr(j) * fs_true(m['ans'][k]) / N for j in range(N // 2 + 1)]
            if len(snap) != len(want) or not close4([float(x) for x in snap], want):
                bad.append((k, snap, want))
        return bad
    bad = wrong(res)
    if bad:
        k, snap, want = bad[0]
        what = ('%s built in this order on inputs of %s Hz (%s; events %s): analyzer %d (%s, %s Hz) reports frequencies %s…%s, its own grid k*Fs/%d is %s…%s' % (
            two_pair(m), [str(fs_true(a)) for a in m['ans']],
            {'shared': 'ONE caller-supplied method dict given to all', 'own': 'an equal method dict each', 'none': 'all with method=None',
             'omitted': 'all without a method argument',
             'mixed': 'first with a method dict, the others method=None'}[m['mode']], ' '.join(m['events']), k, TWO_CLS[m['ans'][k]['cls']],
            fs_true(m['ans'][k]), [float(x) for x in snap[:3]], float(snap[-1]) if len(snap) else None, N,
            [float(q) for q in want[:3]], float(want[-1])))
        sym = 'grid'
        if m['mode'] == 'shared':
            # is the failure explained by the SHARED caller's dict?  the same experiment with an equal dict for each analyzer
            try:
                own_bad = wrong(run_two(m, 'own'))
            except Exception as e:  # noqa
                own_bad = [err_kind(e)]
            if own_bad:
                sym = 'grid-also-with-own-dicts'
        out.append(('%s/%s' % (pre, sym), what))
    for k, snap, end in res:
        if not same_vec(snap, end):
            out.append((pre + '/handed-out-vector-changed', 'analyzer %d (%s): the frequency vector it handed out read %s… and reads %s… after the later events (%s)' % (
                k, TWO_CLS[m['ans'][k]['cls']], [float(x) for x in snap[:4]], [float(x) for x in end[:4]], ' '.join(m['events']))))
            break
    return out


def model_line(m):
    if m.get('call') == 'two':
        return two_line(m)
    if m.get('hist'):
        mm = {k: v for k, v in m.items() if k != 'hist'}
        return 'C05 hist %s %s' % (m['hist'].get('seen') or m['hist']['events'], model_line(mm)[4:])
    site, kind = CALLS[m['call']]
    Fs, N = m['Fs'], m['N']
    if kind == 'keep':
        return 'C05 keep %s %s %d %s %s' % (site, Fs, N, m.get('lb') or '0', m.get('ub') or 'none')
    if site is None:
        return 'C05 true1 %s %d' % (Fs, N)                    # mlab contract
    if m['call'] == 'cache_fft' and (m.get('lb') is not None or m.get('ub') is not None):
        return 'C05 ret cache_fft %s %d %s %s' % (Fs, N, m.get('lb') or '0', m.get('ub') or 'none')
    if m['call'] in BANDED and (m.get('lb') is not None or m.get('ub') is not None):
        return 'C05 band %s %s %d %s %s' % (site, Fs, N, m.get('lb') or '0', m.get('ub') or 'none')
    return 'C05 grid %s %s %d' % (site, Fs, N)


def true_grid(m):
    """the grid the property asks for, as Fractions (independent of Lean)"""
    kind = CALLS[m['call']][1]
    Fs, N = fs_true(m), m['N']
    if kind == 'one':
        g = [Fr(k) * Fs / N for k in range(N // 2 + 1)]
        if m['call'] in BANDED:
            lb = Fr(x2f(m['lb'])) if m.get('lb') is not None else Fr(0)
            ub = Fr(x2f(m['ub'])) if m.get('ub') is not None else None
            g = [q for q in g if lb <= q and (ub is None or q <= ub)]
        return g
    if kind == 'two':
        return [Fr(k) * Fs / N for k in range(N)]
    if kind == 'shift':
        return [Fr(k - N // 2) * Fs / N for k in range(N)]
    if kind == 'freqz':
        L = N // 2 + 1
        return [Fr(k) * Fs / (2 * L) for k in range(L)]
    if kind == 'keep':
        lb = Fr(x2f(m['lb'])) if m.get('lb') is not None else Fr(0)
        ub = Fr(x2f(m['ub'])) if m.get('ub') is not None else Fs / 2
        return [k for k in range(1, N // 2 + 1) if lb <= Fr(k) * Fs / N <= ub]
    raise KeyError(kind)


def parity(m):
    return 'odd' if m['N'] % 2 else 'even'


def hist_label(m):
    h = m['hist']
    return '%s/history/%s/%s' % (m['call'], h['events'], h.get('label') or '+'.join(h['other']))


def judge(m, res):
    """independent oracle on one call: list of (key, what)"""
    if m.get('call') == 'two':
        return judge_two(m, res)
    if m.get('hist') and not isinstance(res, str):
        # every vector handed out during the history must show the true grid AT THE END (the last one is res[0] itself)
        pre = hist_label(m)
        mm = {k: v for k, v in m.items() if k != 'hist'}
        out, info = [], res[5]
        for i, (snap, end) in enumerate(info['views']):
            js = judge_one(mm, (end, res[1] if i == len(info['views']) - 1 else None, None, None), pre)
            for key, what in js:
                if key not in [k for k, _ in out]:
                    out.append((key, 'history %s (other results read: %s; as observed %s): vector handed out at read #%d, inspected at the end: %s' % (
                        m['hist']['events'], ','.join(m['hist']['other']), info['events'], i + 1, what)))
            if not same_vec(snap, end) and pre + '/handed-out-vector-changed' not in [k for k, _ in out]:
                out.append((pre + '/handed-out-vector-changed', '%s: the vector handed out at read #%d of history %s (other results: %s) read %s… then and reads %s… at the end' % (
                    m['call'], i + 1, m['hist']['events'], ','.join(m['hist']['other']), [float(x) for x in snap[:4]], [float(x) for x in end[:4]])))
        return out
    return judge_one(m, res)


def judge_one(m, res, pre=None):
    name = m['call']
    kind = CALLS[name][1]
    if pre is None:
        pre = '%s/%s' % (name, parity(m))
        if m.get('rt'):
            pre = '%s/retarget/%s/%s' % (name, m['rt']['how'], m['rt']['order'])
        if m.get('hist'):
            pre = hist_label(m)
    out = []
    if isinstance(res, str):
        return [(pre + '/raises', '%s raised %s for Fs=%r N=%d' % (name, res, x2f(m['Fs']), m['N']))]
    f, spec = res[0], res[1]
    want = true_grid(m)
    fresh = res[3] if len(res) > 3 else None
    if fresh is not None:
        a, b = (list(f), list(fresh)) if kind == 'keep' else ([float(v) for v in np.asarray(f, dtype=float).reshape(-1)],
                                                               [float(v) for v in np.asarray(fresh, dtype=float).reshape(-1)])
        if a != b:
            rt = m['rt']
            out.append((pre + '/stale-axis', '%s: analyzer built for %s, read (%s), re-targeted by %s, then read %s reports %s%s; a fresh analyzer on the new state reports %s%s' % (
                name, {k: (x2f(v) if isinstance(v, str) and v.startswith('x') else v) for k, v in rt['A'].items()}, rt['pre'], rt['how'], rt['order'],
                a[:5], '…' if len(a) > 5 else '', b[:5], '…' if len(b) > 5 else '')))
    if m.get('rt') and len(res) > 4 and res[4]:
        snap, end = res[4][0]
        out.append((pre + '/handed-out-vector-changed', '%s: the frequency vector handed out on the first input read %s… and reads %s… after re-targeting (%s) and reading again' % (
            name, [float(x) for x in snap[:4]], [float(x) for x in end[:4]], m['rt']['how'])))
    if len(res) > 2 and res[2] is not None and res[2] != len(want):
        out.append((pre + '/band-width', '%s caches %d bins, %d bins have lb <= k*Fs/N <= ub (Fs=%s N=%d lb=%s ub=%s)' % (
            name, res[2], len(want), fs_true(m), m['N'], opt(m, 'lb'), opt(m, 'ub'))))
    if kind == 'keep':
        if list(f) != want:
            out.append((pre + '/band', '%s keeps bins %s, the bins with lb <= k*Fs/N <= ub are %s (Fs=%s N=%d lb=%s ub=%s)' % (
                name, list(f), want, fs_true(m), m['N'], opt(m, 'lb'), opt(m, 'ub'))))
        return out
    fl = [float(v) for v in np.asarray(f, dtype=float).reshape(-1)]
    banded = name in BANDED and (m.get('lb') is not None or m.get('ub') is not None)
    if len(fl) != len(want):
        sym = 'band' if banded else 'length'
        out.append(('%s/%s' % (pre, sym), '%s returns %d frequencies %s, expected %d: %s (Fs=%s N=%d lb=%s ub=%s)' % (
            name, len(fl), fl[:6], len(want), [float(q) for q in want[:6]], fs_true(m), m['N'], opt(m, 'lb'), opt(m, 'ub'))))
    elif not close4(fl, want, cancel=(kind == 'shift')):
        bad = [i for i, (a, q) in enumerate(zip(fl, want)) if not math.isfinite(a) or abs(Fr(a) - q) > Fr(4 * ulp(max(abs(a), abs(float(q)))))]
        i = bad[0] if bad else 0
        sym = 'grid'
        if kind == 'freqz':
            sym = 'nyquist-included'
        elif name.startswith('get_spectra/') and 'welch' not in name or name.startswith('CoherenceAnalyzer.frequencies/') and 'welch' not in name:
            c = float(fs_true(m)) / (2 * math.pi)
            rr = [a / float(q) / c for a, q in zip(fl[1:], want[1:])]
            const = all(abs(r - rr[0]) <= 1e-9 * abs(rr[0]) for r in rr)
            N_ = m['N']
            sym = 'hz-rescaled-twice' if const and any(abs(rr[0] - t) <= 1e-9 for t in (1.0, N_ / (N_ - 1.0), 0.5)) else 'grid'
        elif banded:
            sym = 'band-grid'
        out.append(('%s/%s' % (pre, sym), '%s: entry %d is %r, bin frequency k*Fs/N is %r (Fs=%s, N=%d)' % (
            name, i, fl[i], float(want[i]), fs_true(m), m['N'])))
    # on-bin sinusoid: the reported frequency at the spectral peak must be k0*Fs/N
    if m.get('k0') is not None and spec is not None and len(fl) == len(np.atleast_1d(spec)):
        sp = np.abs(np.asarray(spec, dtype=float))
        k0, N, Fs = m['k0'], m['N'], fs_true(m)
        if m.get('centroid'):
            j = int(np.argmax(sp))
            lo, hi = max(0, j - 3), min(len(sp), j + 4)
            w = sp[lo:hi] / sp[lo:hi].sum()
            got = float(np.dot(w, np.asarray(fl[lo:hi])))
            target = float(Fr(k0) * Fs / N)
            if abs(got - target) > 0.12 * float(Fs) / N:
                out.append((pre + '/peak', '%s: sinusoid on bin %d of %d (true %r Hz) has its spectral centroid at reported %r Hz' % (name, k0, N, target, got)))
        else:
            j = int(np.argmax(sp))
            targets = [Fr(k0) * Fs / N]
            if kind == 'shift':
                targets = [Fr(k0 if k0 < (N + 1) // 2 else k0 - N) * Fs / N]
            elif kind == 'two' and not m.get('complex'):
                targets.append(Fr(N - k0) * Fs / N)          # a real sinusoid has its mirror peak at N-k0
            slack = Fr(4 * ulp(float(Fs))) if kind == 'shift' else 0
            if not math.isfinite(fl[j]) or not any(abs(Fr(fl[j]) - t) <= Fr(4 * ulp(max(abs(fl[j]), abs(float(t))))) + slack for t in targets):
                out.append((pre + '/peak', '%s: sinusoid on bin %d of %d (true %r Hz) peaks at reported %r Hz' % (name, k0, N, float(targets[0]), fl[j])))
    return out


# ------------------------------------------------------------------ generators
def gen_meta(rng, name, tier, idx=None):
    """one random call description; `idx` (the case index within the call's block) STRATIFIES the dimensions
    that must not be left to chance: parity of the length (idx%2), NFFT mode (idx//2 %4: none / larger with the
    other parity / equal / smaller), time unit (idx%3) and interval-vs-rate ((idx//3)%2) of analyzer inputs,
    band mode (idx//2 %6: none / edges between bins / edges on bins / above the grid / inverted lb>ub / degenerate)"""
    kind = CALLS[name][1]
    strat = idx is not None
    if idx is None:
        idx = rng.randint(0, 10**6)
    m = {'call': name, 'dseed': rng.randint(0, 10**6)}
    if name.split('/')[0] in ('periodogram', 'periodogram_csd', 'multi_taper_psd', 'multi_taper_csd') or \
            name.startswith('get_spectra/periodogram_csd') or name.startswith('get_spectra/multi_taper_csd'):
        m['nch'] = [1, 2, 1, 4][idx % 4]
    if name in ('SpectralAnalyzer.psd', 'SpectralAnalyzer.cpsd'):
        m['retarget'] = rng.random() < 0.5
    big = tier == 'thorough'
    n = rng.randint(4, 64 if big else 28)
    if 'multi_taper' in name:
        n = max(n, 10 if '.' not in name else 18)
    if idx % 2:
        n |= 1                                         # odd lengths as often as even ones
    else:
        n &= ~1
    m['n'] = n
    N = n
    if name.split('/')[0] in ('periodogram', 'periodogram_csd', 'multi_taper_psd', 'multi_taper_csd') or \
            name.startswith('get_spectra/periodogram_csd') or name.startswith('get_spectra/multi_taper_csd'):
        m['sides'] = name.split('/')[-1]
        c = (idx // 2) % 4
        if c == 0:
            m['NFFT'] = None
        elif c == 1:
            m['NFFT'] = n + rng.choice([1, 3, 9] if rng.random() < 0.7 else [2, 6])   # mostly the other parity
        elif c == 2:
            m['NFFT'] = n
        else:
            m['NFFT'] = max(3, n - rng.choice([1, 2, 3]))
        if m['NFFT'] is not None:
            N = max(n, m['NFFT']) if 'multi_taper' in name else m['NFFT']
        if name.startswith('periodogram_csd') or name.startswith('get_spectra/periodogram_csd'):
            if m['NFFT'] is not None and m['NFFT'] < n:
                pass                                  # fft(s, n=NFFT) truncates: N = NFFT
    elif name in ('get_spectra/welch', 'CoherenceAnalyzer.frequencies/welch', 'SpectralAnalyzer.psd', 'SpectralAnalyzer.cpsd',
                  'cache_fft', 'SparseCoherenceAnalyzer.frequencies', 'SeedCoherenceAnalyzer.frequencies'):
        N = rng.randint(4, 24)                          # NFFT of the Welch segments
        m['n'] = n = 4 * N + rng.randint(0, 7)
    elif name == 'GrangerAnalyzer.frequencies':
        N = rng.randint(4, 40)                          # n_freqs
        m['n'] = n = 64
        m['with_values'] = True
    elif name == 'get_freqs':
        N = rng.randint(2, 200 if big else 60)
    m['N'] = N
    if name in COMPLEX_CALLS or (name in ('periodogram/twosided', 'multi_taper_psd/twosided') and (idx // 2) % 2 == 1):
        m['complex'] = True
    # sampling rate
    if name in ANALYZER and (idx // 3) % 2 == 0:
        u, dt, rate = rng.choice([iv for iv in INTERVALS if iv[0] == ['s', 'ms', 'us'][idx % 3]])
        m['unit'], m['interval'] = u, dt
        m['Fs'] = f2x(float(rate))
    else:
        fs = rng.choice(FS_VALUES) if rng.random() < 0.7 else round(rng.uniform(0.1, 5000.0), rng.choice([0, 1, 3, 12]))
        m['Fs'] = f2x(float(fs) if fs > 0 else 1.0)
        if name in ANALYZER:
            m['unit'] = ['s', 'ms', 'us'][idx % 3]
    # bands
    if name in BANDED or kind == 'keep':
        fs = x2f(m['Fs'])
        bm = (idx // 2) % 6                             # band mode (crossed with the parity idx%2)
        k1 = rng.randint(0, N // 2)
        k2 = rng.randint(k1, N // 2)
        if bm == 5:      # degenerate bands: DC only, a single bin, the top bin, everything
            k1, k2 = rng.choice([(0, 0), (0, 0), (1, 1), (N // 2, N // 2), (0, N // 2), (0, 1), (max(N // 2 - 1, 0), N // 2)])
        if bm == 4 and name == 'cache_fft':
            bm = 1                                      # cache_fft refuses an inverted band (ValueError): not a C05 matter
        if bm == 0:
            pass                                        # no band
        elif bm == 3:                                   # band entirely above the grid (or below it): nothing is kept
            if rng.random() < 0.7:
                m['lb'] = f2x((N // 2 + 0.5 + rng.uniform(0, 2)) * fs / N)
                if rng.random() < 0.5:
                    m['ub'] = f2x((N // 2 + 3.5) * fs / N)
            else:
                m['lb'] = f2x(-2.0 * fs / N)
                m['ub'] = f2x(-0.5 * fs / N)
        elif bm == 4:                                   # inverted band lb > ub: nothing is kept
            m['lb'] = f2x((k2 + 1.5) * fs / N)
            m['ub'] = f2x(max(0.0, (k1 - 0.5)) * fs / N)
        elif bm in (1, 5):                              # edges strictly between bins
            m['lb'] = f2x(max(0.0, (k1 - 0.5 + rng.uniform(-0.3, 0.3)) * fs / N))
            if rng.random() < 0.8:
                m['ub'] = f2x((k2 + 0.5 + rng.uniform(-0.3, 0.3)) * fs / N)
        else:                                           # edges exactly on a bin (exactly representable grid)
            p = rng.choice([4, 8, 16] if kind != 'keep' else [8, 16])
            m['N'] = N = p
            if name in BANDED:
                m['n'] = 4 * N + 3
            else:
                m['n'] = N
            m['Fs'] = f2x(rng.choice([1.0, 2.0, 8.0, 0.5, 1024.0]))
            m.pop('interval', None)
            m.setdefault('unit', 's')
            fs = x2f(m['Fs'])
            k1 = rng.randint(1, N // 2 - 1)
            k2 = rng.randint(k1, N // 2)
            m['lb'] = f2x(k1 * fs / N)
            m['ub'] = f2x(k2 * fs / N)
    # on-bin sinusoid
    if name.split('/')[0] in ('periodogram', 'periodogram_csd', 'multi_taper_psd', 'multi_taper_csd', 'SpectralAnalyzer.periodogram',
                              'SpectralAnalyzer.spectrum_fourier', 'SpectralAnalyzer.psd', 'SpectralAnalyzer.cpsd') \
            and idx % 5 != 0 and m['N'] >= 8:
        N = m['N']
        if 'multi_taper' in name:
            if m['n'] >= 16:
                m['centroid'] = True
                m['NFFT'] = None
                m['N'] = m['n']
                m['k0'] = rng.randint(m['n'] // 3, m['n'] // 2 - 3)
        elif name.startswith('SpectralAnalyzer.psd') or name.startswith('SpectralAnalyzer.cpsd'):
            m['n'] = N                                  # one segment
            m['k0'] = rng.randint(2, N // 2 - 2) if N >= 8 else 1
        else:
            if m.get('NFFT') is not None and m['NFFT'] < m['n']:
                m['n'] = m['NFFT']
            if not m.get('complex') and m['n'] < N:
                # a REAL sinusoid peaks on its bin only when the record holds whole periods: with a
                # zero-padded short record the +k0 / -k0 kernels overlap and shift the maximum
                # (false alarm seen at n=4, NFFT=13, k0=1) -- the real-signal probe uses n = N
                m['n'] = N
            hi = N - 1 if (m.get('complex') and CALLS[name][1] in ('two', 'shift')) else (N - 1) // 2
            m['k0'] = rng.randint(1, max(1, hi))
    return m


class _C(Case):
    __slots__ = ('_res',)


def cmp_parts(kind):
    """`;`-separated vectors (one per hand-out / read), each compared like a single grid"""
    one = cmp_grid(kind == 'shift')

    def cmp(impl, model):
        if impl.startswith('err') or model.startswith('bad') or model.startswith('no-such') or model == 'unsupported':
            return impl == model
        a, b = impl.split(';'), model.split(';')
        if len(a) != len(b):
            return False
        if kind == 'keep':
            return a == b
        return all(x == y if (x == 'none' or y == 'none') else one(x, y) for x, y in zip(a, b))
    return cmp


def make_case(m):
    try:
        res = run_call(m)
    except Exception as e:  # noqa
        res = 'err ' + err_kind(e)
    if m.get('call') == 'two':
        impl = res if isinstance(res, str) else (';'.join(flist(end) for k, snap, end in res) or 'none')
        c = _C(model_line(m), impl, 'two-analyzers/' + m['mode'], cmp=cmp_parts('one'), meta=m, nontrivial=True)
        c._res = res
        return c
    kind = CALLS[m['call']][1]
    if m.get('hist'):
        if isinstance(res, str):
            impl = res
        else:
            m['hist']['seen'] = res[5]['events']
            impl = ';'.join((ilist(end) if kind == 'keep' else flist(end)) for snap, end in res[5]['views']) or 'none'
        c = _C(model_line(m), impl, m['call'] + '/history', cmp=cmp_parts(kind), meta=m, nontrivial=m['N'] >= 3)
        c._res = res
        return c
    if isinstance(res, str):
        impl = res
    elif kind == 'keep':
        impl = ilist(res[0])
    else:
        impl = flist(np.asarray(res[0], dtype=float).reshape(-1))
    c = _C(model_line(m), impl, m['call'] + ('/retarget' if m.get('rt') else '/' + parity(m)), cmp=cmp_grid(kind == 'shift') if kind != 'keep' else None,
             meta=m, nontrivial=m['N'] >= 3)
    c._res = res
    return c


N_IS_LENGTH = ('CoherenceAnalyzer.frequencies/multi_taper_csd', 'CoherenceAnalyzer.frequencies/periodogram_csd',
               'MTCoherenceAnalyzer.frequencies', 'SpectralAnalyzer.periodogram/real', 'SpectralAnalyzer.periodogram/complex',
               'SpectralAnalyzer.spectrum_fourier/real', 'SpectralAnalyzer.spectrum_fourier/complex',
               'SpectralAnalyzer.spectrum_multi_taper/real', 'SpectralAnalyzer.spectrum_multi_taper/complex',
               'SNRAnalyzer.mt_frequencies', 'FilterAnalyzer.filtered_fourier')
RT_PRE = ('freq', 'spec', 'both', 'both-rev')
RT_ORDER = ('freq-first', 'spec-first')


def gen_retarget(rng, name, tier, how, pre, order, idx):
    """state B = an ordinary call description; state A = what the SAME analyzer object was built for and
    read on before: another rate / unit / length (set_input) and/or other parameters NFFT, lb, ub (params)"""
    m = gen_meta(rng, name, tier, idx)
    for k in ('retarget', 'k0', 'centroid'):
        m.pop(k, None)
    if name in BANDED and m.get('lb') is not None and m.get('ub') is not None and x2f(m['lb']) > x2f(m['ub']):
        m['lb'], m['ub'] = m['ub'], m['lb']     # the spectra are read here too, and cache_fft refuses an inverted band
    A = {}
    fsB = x2f(m['Fs'])
    if how in ('set_input', 'both'):
        if rng.random() < 0.5:
            u, dt, rate = rng.choice([iv for iv in INTERVALS if float(iv[2]) != fsB])
            A.update(unit=u, interval=dt, Fs=f2x(float(rate)))
        else:
            A.update(interval=None, Fs=f2x(fsB * rng.choice([3.0, 0.5, 7.0])), unit=rng.choice(['s', 'ms', 'us']))
        if name in N_IS_LENGTH:
            nA = m['n'] + rng.choice([1, 3, 2, 5])          # another length, mostly the other parity
            A.update(n=nA, N=nA)
        else:
            A['n'] = m['n'] + rng.choice([0, 1, 6])
        if name.startswith('SpectralAnalyzer.') and name.split('/')[-1] in ('real', 'complex') and idx % 2:
            A['complex'] = None if m.get('complex') else True      # the first series was of the other kind (sides differ)
    if how in ('params', 'both'):
        fsA = x2f(A['Fs']) if 'Fs' in A else fsB
        if name != 'FilterAnalyzer.filtered_fourier':
            NA = m['N'] + rng.choice([1, 2, 3, 5])
            A['N'] = NA
            A['n'] = max(A.get('n', m['n']), 4 * NA + 1)
        if name in BANDED or CALLS[name][1] == 'keep':
            if m.get('lb') is None and m.get('ub') is None or rng.random() < 0.6:
                A['lb'] = f2x(rng.uniform(0.02, 0.2) * fsA)
                A['ub'] = f2x(rng.uniform(0.22, 0.45) * fsA)
            else:
                A['lb'], A['ub'] = None, None
    m['rt'] = {'how': how, 'pre': pre, 'order': order, 'A': A}
    return m



_OTHERS = {}


def others_of(name):
    if name not in _OTHERS:
        _OTHERS[name] = other_results(name)
    return _OTHERS[name]


HIST_EVENTS = ('FOF', 'OF')          # hand out, read another result, hand out again / the other result first


def gen_history(rng, name, tier, events, other, idx, dc):
    """an ordinary call description + a read history.  `other`: one result name, or 'ALL' (every other result of the
    class, in a drawn order).  dc: the band (if the call has one) starts at 0 Hz, so that the DC bin is in the vector."""
    m = gen_meta(rng, name, tier, idx)
    for k in ('retarget', 'k0', 'centroid'):
        m.pop(k, None)
    if name in BANDED and m.get('lb') is not None and m.get('ub') is not None and x2f(m['lb']) > x2f(m['ub']):
        m['lb'], m['ub'] = m['ub'], m['lb']
    if dc and (name in BANDED or CALLS[name][1] == 'keep'):
        m.pop('lb', None)
        if m.get('ub') is not None and x2f(m['ub']) < 0:
            m.pop('ub')
    if other == 'ALL':
        o = list(others_of(name))
        rng.shuffle(o)
        m['hist'] = {'events': events, 'other': o, 'label': 'all'}
    else:
        m['hist'] = {'events': events, 'other': [other]}
    return m


TWO_MODES = ('shared', 'none', 'omitted', 'own', 'mixed')
TWO_PATTERNS = ('ab-BA', 'ab-AB', 'aAbB')


def gen_two(rng, tier, mode, classes, pattern, idx):
    """several live analyzers on inputs of DIFFERENT rates / units; mode = how they get their method dict"""
    N = 64 if mode in ('none', 'omitted', 'mixed') else rng.randint(4, 24)
    if mode not in ('none', 'omitted', 'mixed'):
        N = (N | 1) if idx % 2 else (N & ~1)
    ans, used = [], set()
    for j, c in enumerate(classes):
        a = {'cls': c, 'dseed': rng.randint(0, 10**6), 'n': (2 * N + 3 if N == 64 else 4 * N) + rng.randint(0, 7)}
        while True:
            if (idx + j) % 2 == 0:
                u, dt, rate = rng.choice(INTERVALS)
                a.update(unit=u, interval=dt, Fs=f2x(float(rate)))
            else:
                a.pop('interval', None)
                a.update(unit=rng.choice(['s', 'ms', 'us']), Fs=f2x(float(rng.choice(FS_VALUES))))
            if x2f(a['Fs']) not in used:
                break
        used.add(x2f(a['Fs']))
        ans.append(a)

    def rd(k):          # how analyzer k's frequency vector is read: SpectralAnalyzer has two Welch results with an axis
        if classes[k] != 'S':
            return ['f%d' % k]
        return [['f%d' % k], ['c%d' % k], ['f%d' % k, 'c%d' % k], ['c%d' % k, 'f%d' % k]][(idx // 2 + k) % 4]
    K = len(classes)
    if pattern == 'ab-BA':
        ev = ['n%d' % k for k in range(K)] + [e for k in reversed(range(K)) for e in rd(k)]
    elif pattern == 'ab-AB':
        ev = ['n%d' % k for k in range(K)] + [e for k in range(K) for e in rd(k)]
    else:               # each one read before the next one is built; the earlier ones are read again at the end
        ev = [e for k in range(K) for e in ['n%d' % k] + rd(k)] + [e for k in range(K - 1) for e in rd(k)]
    return {'call': 'two', 'mode': mode, 'N': N, 'n': max(a['n'] for a in ans), 'ans': ans, 'events': ev}


TWO_SIDED = [c for c in CALLS if CALLS[c][1] in ('two', 'shift')]
ARANGE_LENGTHS = [49, 61, 98, 103, 121, 122]        # lengths at which a float-step arange(0, Fs, Fs/N) emits N+1 points
ARANGE_RATES = [1.0, 2 * math.pi, 1000.0]


def fixed_meta(name, N, Fs):
    """a plain call of `name` with data length = FFT length = N at rate Fs (deterministic)"""
    m = {'call': name, 'dseed': N, 'n': N, 'N': N, 'Fs': f2x(Fs)}
    if '.' not in name.split('/')[0] and name != 'get_freqs':
        m.update(sides=name.split('/')[-1], NFFT=None, nch=[2, 1][N % 2])
    if name in COMPLEX_CALLS or (CALLS[name][1] == 'two' and '.' not in name and N % 2):
        m['complex'] = True
    if name in ANALYZER:
        m['unit'] = ['s', 'ms', 'us'][N % 3]
    return m


def draw(make, tries=6):
    """a call that raises for reasons outside C05 (dpss on some n, …) is redrawn"""
    c = None
    for _try in range(tries):
        c = make_case(make())
        if not isinstance(c._res, str):
            break
    return c


def cases(rng, tier, seed):
    per = {'quick': 30, 'thorough': 400}[tier]
    rep = {'quick': 1, 'thorough': 8}[tier]
    out = []
    # minimal failing inputs of the recorded findings first (regression corpus)
    for m in CORPUS:
        out.append(make_case(dict(m)))
    # random calls; parity / NFFT mode / unit / band mode stratified by the case index
    for name in CALLS:
        k = per if 'multi_taper' not in name and 'Granger' not in name else max(12, per // 2)
        for i in range(k):
            out.append(draw(lambda: gen_meta(rng, name, tier, i)))
    # two-sided grids at the lengths where float-step grids go wrong, at all three rates, on EVERY seed …
    for name in TWO_SIDED:
        for N in ARANGE_LENGTHS:
            for Fs in ARANGE_RATES:
                out.append(make_case(fixed_meta(name, N, Fs)))
    # … and a sweep over every length 2..131 (rate rotating with the seed) for the cheap estimators
    top = 131 if tier == 'quick' else 400
    for name in ('periodogram/twosided', 'periodogram_csd/twosided', 'periodogram/onesided', 'periodogram_csd/onesided', 'get_freqs'):
        for N in range(2, top + 1):
            out.append(make_case(fixed_meta(name, N, ARANGE_RATES[(N + seed) % 3])))
    # re-targeted analyzers: every analyzer x way of re-targeting x what was read before x read order
    for r in range(rep):
        i = 0
        for name, hows in RT_HOWS.items():
            for how in hows:
                for pre in RT_PRE:
                    for order in RT_ORDER:
                        i += 1
                        out.append(draw(lambda: gen_retarget(rng, name, tier, how, pre, order, i + r)))
    # read histories of one analyzer: every analyzer x every OTHER result its class offers (found by introspection) x
    # {hand out, read the other, hand out again | the other first}; plus all other results in a drawn order, and the
    # same followed by reset() and a second round.  Every vector handed out is inspected AT THE END.
    for r in range(rep):
        i = 0
        for name in ANALYZER:
            hs = [(ev, o) for o in others_of(name) for ev in HIST_EVENTS] + [('FOF', 'ALL')]
            if RT_HOWS[name] != ['none']:                  # the class has reset()
                hs.append(('FOFRFOF', 'ALL'))
            for ev, o in hs:
                for dc in ((True, False) if (name in BANDED or CALLS[name][1] == 'keep') else (True,)):
                    i += 1
                    out.append(draw(lambda: gen_history(rng, name, tier, ev, o, i + r, dc)))
    # several live analyzers: every ordered pair of classes x how they get their method dict x order of events
    # (thorough: also triples)
    for r in range(rep):
        i = 0
        for mode in TWO_MODES:
            for ca in TWO_CLS:
                for cb in TWO_CLS:
                    for pat in TWO_PATTERNS:
                        i += 1
                        out.append(make_case(gen_two(rng, tier, mode, [ca, cb], pat, i + r)))
        if tier == 'thorough':
            for mode in TWO_MODES:
                for _ in range(12):
                    i += 1
                    out.append(make_case(gen_two(rng, tier, mode, [rng.choice('CPES') for _k in range(3)], rng.choice(TWO_PATTERNS), i + r)))
    return out


CORPUS = [
    {'call': 'periodogram_csd/twosided', 'n': 4, 'N': 4, 'NFFT': None, 'sides': 'twosided', 'Fs': f2x(10.0), 'dseed': 0},
    {'call': 'periodogram_csd/onesided', 'n': 5, 'N': 5, 'NFFT': None, 'sides': 'onesided', 'Fs': f2x(10.0), 'dseed': 0},
    {'call': 'multi_taper_psd/onesided', 'n': 9, 'N': 9, 'NFFT': None, 'sides': 'onesided', 'Fs': f2x(10.0), 'dseed': 0},
    {'call': 'multi_taper_csd/onesided', 'n': 9, 'N': 9, 'NFFT': None, 'sides': 'onesided', 'Fs': f2x(10.0), 'dseed': 0},
    {'call': 'get_freqs', 'n': 5, 'N': 5, 'Fs': f2x(10.0), 'dseed': 0},
    {'call': 'get_spectra/periodogram_csd/onesided', 'n': 4, 'N': 4, 'NFFT': None, 'sides': 'onesided', 'Fs': f2x(10.0), 'dseed': 0},
    {'call': 'CoherenceAnalyzer.frequencies/periodogram_csd', 'n': 4, 'N': 4, 'Fs': f2x(10.0), 'unit': 'ms', 'interval': 100.0, 'dseed': 0},
    {'call': 'cache_fft', 'n': 23, 'N': 5, 'Fs': f2x(10.0), 'lb': f2x(1.0), 'ub': f2x(4.1), 'dseed': 0},
    {'call': 'MTCoherenceAnalyzer.frequencies', 'n': 5, 'N': 5, 'Fs': f2x(10.0), 'unit': 's', 'dseed': 0},
    {'call': 'SNRAnalyzer.mt_frequencies', 'n': 5, 'N': 5, 'Fs': f2x(10.0), 'unit': 's', 'dseed': 0},
    {'call': 'SpectralAnalyzer.spectrum_fourier/complex', 'n': 4, 'N': 4, 'Fs': f2x(1.0), 'unit': 's', 'complex': True, 'dseed': 0},
    {'call': 'SpectralAnalyzer.spectrum_fourier/real', 'n': 5, 'N': 5, 'Fs': f2x(10.0), 'unit': 's', 'dseed': 0},
    {'call': 'GrangerAnalyzer.frequencies', 'n': 64, 'N': 4, 'Fs': f2x(1.0), 'unit': 's', 'dseed': 0, 'with_values': True},
    {'call': 'FilterAnalyzer.filtered_fourier', 'n': 9, 'N': 9, 'Fs': f2x(9.0), 'unit': 's', 'lb': f2x(1.5), 'ub': f2x(3.2), 'dseed': 0},
    # band below the first non-zero bin: only DC survives (seeded change C05-1: an empty slice [1:0] kept everything)
    {'call': 'FilterAnalyzer.filtered_fourier', 'n': 25, 'N': 25, 'Fs': f2x(0.5), 'unit': 's', 'lb': f2x(0.0), 'ub': f2x(0.015), 'dseed': 0},
    {'call': 'FilterAnalyzer.filtered_fourier', 'n': 16, 'N': 16, 'Fs': f2x(8.0), 'unit': 'ms', 'lb': f2x(0.0), 'ub': f2x(0.3), 'dseed': 0},
    # two CoherenceAnalyzers given ONE caller's method dict, inputs at 100 Hz and 250 Hz (recorded finding: the second reports 0..50 Hz)
    {'call': 'two', 'mode': 'shared', 'N': 64, 'n': 256, 'events': ['n0', 'n1', 'f1', 'f0'],
     'ans': [{'cls': 'C', 'n': 256, 'dseed': 1, 'Fs': f2x(100.0), 'unit': 's'}, {'cls': 'C', 'n': 256, 'dseed': 2, 'Fs': f2x(250.0), 'unit': 'ms', 'interval': 4.0}]},
    # … and the same experiment without any caller's dict
    {'call': 'two', 'mode': 'none', 'N': 64, 'n': 256, 'events': ['n0', 'n1', 'f1', 'f0'],
     'ans': [{'cls': 'C', 'n': 256, 'dseed': 1, 'Fs': f2x(100.0), 'unit': 's'}, {'cls': 'C', 'n': 256, 'dseed': 2, 'Fs': f2x(250.0), 'unit': 'ms', 'interval': 4.0}]},
]


def fail_of(m, key, what, c=None):
    mm = {k: v for k, v in m.items()}
    return Failure(key, what, {'meta': mm, 'key': key}, case=c)


def oracle(rng, tier, seed, focus, cases):
    fails, n = [], 0
    per_call = {}
    for c in cases:
        m = c.meta
        res = getattr(c, '_res', None)
        if res is None:
            continue
        n += 1
        js = judge(m, res)
        per_call.setdefault(m['call'], [0, 0])[0] += 1
        if js:
            per_call[m['call']][1] += 1
        for key, what in js:
            fails.append(fail_of(m, key, what, c))
        # GrangerAnalyzer: one frequency per causality value
        if m['call'] == 'GrangerAnalyzer.frequencies' and not isinstance(res, str) and res[1] is not None and not m.get('hist'):
            if len(np.atleast_1d(res[1])) != len(np.atleast_1d(res[0])):
                fails.append(fail_of(m, 'GrangerAnalyzer.frequencies/%s/length' % parity(m), 'frequencies and causality values differ in length', c))
    # keep the smallest input per key (stable, minimal replay)
    best = {}
    for f in fails:
        k = f.key
        cur = best.get(k)
        size = (f.replay['meta']['N'], f.replay['meta']['n'])
        if cur is None or size < cur[0]:
            best[k] = (size, f)
    ordered = [v[1] for k, v in sorted(best.items())]
    seen = {id(f) for f in ordered}
    ordered += [f for f in fails if id(f) not in seen]
    stats = {'calls_judged': n, 'distinct_failure_keys': len(best),
             'calls_failing': {k: '%d/%d' % (v[1], v[0]) for k, v in sorted(per_call.items()) if v[1]}}
    return ordered, stats


def replay(d):
    m = dict(d['meta'])
    try:
        res = run_call(m)
    except Exception as e:  # noqa
        res = 'err ' + err_kind(e)
    js = judge(m, res)
    if m['call'] == 'GrangerAnalyzer.frequencies' and not isinstance(res, str) and res[1] is not None \
            and len(np.atleast_1d(res[1])) != len(np.atleast_1d(res[0])):
        js.append(('GrangerAnalyzer.frequencies/%s/length' % parity(m), 'frequencies and causality values differ in length'))
    for key, what in js:
        if key == d.get('key'):
            return Failure(key, what, d)
    if js:
        return Failure(js[0][0], js[0][1], d)
    return None
