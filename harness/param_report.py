#!/venv/bin/python
"""param_report.py <dir with Cxx.json from VERIF_PARAM_TRACE> <outdir> — input-space map of the checks, one file per property.

For every function of the modules a property is anchored in: per parameter the value classes seen by THAT property's quick
check, the classes only other checks used (`others-only`), and flags: NEVER-VARIED (only the default was ever used by this
check), ONLY-float64 (array parameter that never saw an integer / float32 / complex64 dtype), ONLY-C (never a strided or
Fortran array), NOT-CALLED (function of an anchored module this check never reaches).  Blind spots of the correspondence,
not violations.  Produced with:
  for i in 01..20: VERIF_PARAM_TRACE=/tmp/pt/C$i.json VERIF_EVIDENCE_DIR=/tmp/pt/ev ./check C$i quick
"""
import sys, os, json, glob, re
d, outdir = sys.argv[1], sys.argv[2]
V = os.path.dirname(os.path.dirname(os.path.abspath(__file__)))
os.makedirs(outdir, exist_ok=True)
per = {os.path.basename(f)[:-5]: json.load(open(f)) for f in sorted(glob.glob(os.path.join(d, 'C*.json')))}
allq = sorted({q for r in per.values() for q in r})


def modof(q):
    t = q.split('.')
    for i, x in enumerate(t):
        if x[:1].isupper() or i == len(t) - 1:
            return '.'.join(t[:i])
    return q


summary = []
for l in open(os.path.join(V, 'properties.jsonl')):
    p = json.loads(l)
    pid = p['id']
    mods = {f.replace('/', '.').replace('.pyx', '').replace('.py', '') for f in p['anchors']['files']}
    mine = per.get(pid, {})
    lines = ['# %s — input space its quick check exercises in the anchored modules (harness/param_trace.py)' % pid, '']
    nflag = {}
    for q in allq:
        if modof(q) not in mods:
            continue
        r = mine.get(q)
        others = {}
        for o, ro in per.items():
            if o != pid:
                for prm, cls in ro.get(q, {}).items():
                    for c in cls:
                        others.setdefault(prm, set()).add(c)
        if not r:
            if others or q in {qq for ro in per.values() for qq in ro}:
                lines.append('## %s   **NOT-CALLED by %s** (called by: %s)' % (q, pid, ','.join(o for o, ro in per.items() if ro.get(q))))
                nflag['NOT-CALLED'] = nflag.get('NOT-CALLED', 0) + 1
            continue
        lines.append('## ' + q)
        for prm, cls in r.items():
            fl = []
            if not [c for c in cls if not c.startswith('default')]:
                fl.append('NEVER-VARIED')
            arr = [c for c in cls if re.search(r':\dd:', c)]
            if arr:
                if all(re.search(r':(float64|complex128):', c) for c in arr):
                    fl.append('ONLY-float64')
                if all(c.split(':')[3].startswith('C') for c in arr):
                    fl.append('ONLY-C')
            oo = sorted(others.get(prm, set()) - set(cls))
            lines.append('- `%s`: %s%s%s' % (prm, ', '.join('%s×%d' % kv for kv in sorted(cls.items(), key=lambda kv: -kv[1])[:12]),
                                             ('   **' + ' '.join(fl) + '**') if fl else '',
                                             ('   others-only: ' + ', '.join(oo[:10])) if oo else ''))
            for f in fl:
                nflag[f] = nflag.get(f, 0) + 1
        lines.append('')
    lines[1:1] = ['flags: ' + ', '.join('%s=%d' % kv for kv in sorted(nflag.items())), '']
    open(os.path.join(outdir, pid + '.md'), 'w').write('\n'.join(lines) + '\n')
    summary.append('%s  %s' % (pid, ', '.join('%s=%d' % kv for kv in sorted(nflag.items()))))
print('\n'.join(summary))
