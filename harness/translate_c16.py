"""C16 translator pass: which names may be the caller's buffer, and what is written in place
-> Generated/C16Alias.lean.

Pure `ast` walking of the anchor files of the property under translate.REPO; no repo code is
executed.  For every function / method of those files a small flow-sensitive may-alias analysis
is run (statement order; branches merged by union; loop bodies twice):

  value of a name      = the set of PARAMETERS of the function whose object (buffer, dict, list)
                         the name may be bound to.  Empty set = provably a fresh object.
  fresh                : arithmetic (`x - m`, `-x`, comparisons), `.copy()`, `np.array(..)`,
                         `np.zeros/empty/…`, reductions, FFTs, linear algebra, `.astype(..)`
                         (without `copy=False`), literals, calls of library functions whose
                         own summary says "returns a fresh object"
  may alias            : the parameter itself, `np.asarray/asanyarray/ascontiguousarray/atleast_nd/
                         reshape/ravel/squeeze/transpose/swapaxes/rollaxis/real/imag(..)`, `.reshape/.view/
                         .ravel/.squeeze/.T/.real/.imag/.conj()`, subscripting / slicing, `.astype(.., copy=False)`,
                         `np.array(.., copy=False)`, `a or b`, `a if c else b`, tuples / lists holding such
                         values, loop variables over such values, calls of library functions that
                         may return an argument (their summary), unknown calls (conservatively)
  in-place statements  : augmented assignment (`x /= N`, `x[i] += v`), subscript / slice assignment, attribute
                         assignment on a tracked object (`s.shape = …`), `out=` (keyword, or the output
                         position of a numpy ufunc), `np.ndarray.__iop__(x, …)`, mutating methods
                         (`.sort() .fill() .resize() .put() .append() .pop() .update() …`), `np.copyto/put/
                         place/putmask/fill_diagonal`, and calls of library functions that write to a
                         parameter (their summary), each with the parameters its target may alias.

Function summaries (returns-may-alias, writes-parameter) are iterated to a fixed point per file.
Parameters documented as plain numbers / flags / strings in the numpydoc `Parameters` section
(`N : int`, `sigma : float`, `debias : {True/False}`) and parameters with a numeric / bool / str /
None default are immutable python objects and are not tracked.  `self` is tracked (so that
`np.ndarray.__iadd__(self, val)` is seen) but a write to `self` is the object changing itself and
is reported with the alias `self`, which the consuming theorem allows.

The consuming theorem (`Props.C16.no_write_through_argument_alias`, by `decide`) says: every
in-place statement of the table targets a fresh object, `self`, or a parameter of a routine that is
documented to work in place.  A change that makes a routine hand back / keep working on the
caller's buffer and write to it breaks that theorem at translation time.
An unparsable file degrades to a table with `parsed := false` (the theorem then fails).
"""
import ast, re
import translate as T

FILES = ['nitime/utils.py', 'nitime/timeseries.py', 'nitime/algorithms/spectral.py', 'nitime/algorithms/filter.py',
         'nitime/analysis/spectral.py']
# the rest of the entry-point registry of harness/c16.py (every public routine of nitime.algorithms, every analyzer class);
# order: callees before callers, base classes before derived ones (cross-file summaries / class attribute maps)
FILES_EXTRA_BEFORE = ['nitime/algorithms/autoregressive.py', 'nitime/algorithms/cohere.py', 'nitime/algorithms/correlation.py',
                      'nitime/algorithms/entropy.py', 'nitime/algorithms/event_related.py', 'nitime/algorithms/wavelet.py',
                      'nitime/analysis/base.py']
FILES_EXTRA_AFTER = ['nitime/analysis/coherence.py', 'nitime/analysis/correlation.py', 'nitime/analysis/event_related.py',
                     'nitime/analysis/granger.py', 'nitime/analysis/normalization.py', 'nitime/analysis/snr.py']
ALL_FILES = FILES[:1] + FILES[2:4] + FILES_EXTRA_BEFORE + FILES[1:2] + FILES[4:] + FILES_EXTRA_AFTER

# ---------------------------------------------------------------- vocabulary
VIEW_FUNCS = {'asarray', 'asanyarray', 'ascontiguousarray', 'asfortranarray', 'asfarray', 'atleast_1d', 'atleast_2d', 'atleast_3d',
              'reshape', 'ravel', 'squeeze', 'transpose', 'swapaxes', 'rollaxis', 'moveaxis', 'real', 'imag', 'conj', 'conjugate',
              'broadcast_to', 'broadcast_arrays', 'expand_dims', 'require', 'flipud', 'fliplr', 'flip', 'diagonal', 'diag', 'split',
              'array_split', 'hsplit', 'vsplit', 'asmatrix', 'mat', 'nan_to_num', 'real_if_close', 'positive', 'view', 'rot90',
              'triu', 'tril', 'trim_zeros', 'getattr', 'iter', 'reversed', 'tuple', 'list', 'dict', 'zip', 'enumerate', 'sorted',
              'vars', 'next', 'super'}
# names under np.* that hand back an argument unless told otherwise
ARRAY_CTOR = {'array'}                    # fresh unless copy=False
VIEW_METHODS = {'reshape', 'view', 'ravel', 'squeeze', 'swapaxes', 'transpose', 'conj', 'conjugate', 'diagonal', 'newbyteorder',
                'get', 'setdefault', 'values', 'items', 'keys', '__getitem__', 'item', 'pop', 'popitem', 'flat', 'getfield',
                '__array__', 'filled', 'compressed', 'byteswap', 'copy_if_needed'}
FRESH_METHODS = {'copy', 'mean', 'sum', 'std', 'var', 'min', 'max', 'ptp', 'prod', 'cumsum', 'cumprod', 'dot', 'round', 'argsort', 'argmax',
                 'argmin', 'any', 'all', 'nonzero', 'tolist', 'flatten', 'tobytes', 'tostring', 'repeat', 'take', 'choose', 'clip',
                 'trace', 'searchsorted', 'index', 'count', 'format', 'join', 'split', 'strip', 'startswith', 'endswith', 'lower', 'upper',
                 'total_seconds', 'is_integer', 'conjugate_fresh'}
MUTATING_METHODS = {'sort', 'fill', 'resize', 'put', 'itemset', 'setfield', 'partition', 'setflags', 'append', 'extend', 'insert', 'pop',
                    'remove', 'clear', 'update', 'setdefault', 'popitem', 'reverse', '__setitem__', '__delitem__', '__iadd__', '__isub__',
                    '__imul__', '__idiv__', '__itruediv__', '__ifloordiv__', '__imod__', '__ipow__', '__iand__', '__ior__', '__ixor__',
                    'byteswap_inplace'}
WRITE_FIRST_ARG_FUNCS = {'copyto', 'put', 'place', 'putmask', 'fill_diagonal', 'put_along_axis', 'setattr', 'delattr'}
INPLACE_DUNDERS = {'__iadd__', '__isub__', '__imul__', '__idiv__', '__itruediv__', '__ifloordiv__', '__imod__', '__ipow__',
                   '__iand__', '__ior__', '__ixor__', '__setitem__', '__delitem__', '__setattr__'}
UNARY_UFUNCS = {'sqrt', 'abs', 'absolute', 'exp', 'log', 'log2', 'log10', 'sin', 'cos', 'tan', 'arcsin', 'arccos', 'arctan', 'sinh', 'cosh',
                'tanh', 'arcsinh', 'arccosh', 'arctanh', 'negative', 'conj', 'conjugate', 'square', 'sign', 'floor', 'ceil', 'rint',
                'isnan', 'isfinite', 'angle_', 'reciprocal', 'fabs', 'expm1', 'log1p', 'trunc'}
BINARY_UFUNCS = {'add', 'subtract', 'multiply', 'divide', 'true_divide', 'floor_divide', 'power', 'mod', 'remainder', 'maximum', 'minimum',
                 'arctan2', 'hypot', 'fmod', 'greater', 'less', 'equal', 'logical_and', 'logical_or', 'bitwise_and', 'bitwise_or'}
# np.take / clip / round / cumsum … accept out= only as keyword in the code base; dot(a, b, out) positional 3rd
SCALAR_ATTRS = {'shape', 'dtype', 'ndim', 'size', 'itemsize', 'nbytes', 'strides', 'flags', 'time_unit', '_conversion_factor', 'sampling_rate',
                '__class__', '__name__', 'type', 'kind', 'start', 'stop', 'step'}
FRESH_MODULES = {'fftpack', 'linalg', 'sig', 'signal', 'mlab', 'stats', 'interpolate', 'special', 'math', 'warnings', 'itertools', 'os', 're',
                 'random', 'fft', 'dist', 'sps', 'sparse', 'optimize', 'signaltools', 'tsa', 'tsu', 'utils', 'desc', 'ts'}
FRESH_BUILTINS = {'len', 'int', 'float', 'complex', 'bool', 'str', 'repr', 'range', 'xrange', 'slice', 'isinstance', 'issubclass', 'hasattr', 'abs',
                  'min', 'max', 'sum', 'round', 'divmod', 'pow', 'type', 'id', 'hash', 'print', 'callable', 'any', 'all', 'map', 'filter',
                  'ValueError', 'TypeError', 'IndexError', 'KeyError', 'NotImplementedError', 'RuntimeError', 'AttributeError', 'set', 'frozenset',
                  'ord', 'chr', 'format', 'open', 'object', 'Exception', 'ZeroDivisionError', 'DeprecationWarning', 'UserWarning'}
SCALAR_DOC = re.compile(r'^\s*(int|float|bool|boolean|str|string|scalar|number|complex|integer|\{|flag|None|callable|function)', re.I)


def dotted(node):
    parts = []
    while isinstance(node, ast.Attribute):
        parts.append(node.attr)
        node = node.value
    if isinstance(node, ast.Name):
        parts.append(node.id)
        return '.'.join(reversed(parts))
    return None


def doc_scalar_params(fn):
    """parameters the numpydoc `Parameters` section declares as plain numbers / flags / strings"""
    doc = ast.get_docstring(fn) or ''
    out = set()
    m = re.search(r'Parameters\s*\n\s*-{3,}\s*\n(.*?)(\n\s*\n\s*[A-Z][A-Za-z ]+\n\s*-{3,}|\Z)', doc, flags=re.S)
    if not m:
        return out
    for line in m.group(1).splitlines():
        mm = re.match(r'^\s*([A-Za-z_][A-Za-z_0-9, ]*?)\s*:\s*(.+)$', line)
        if mm and SCALAR_DOC.match(mm.group(2)) and 'array' not in mm.group(2).lower() and 'list' not in mm.group(2).lower() \
                and 'dict' not in mm.group(2).lower() and 'sequence' not in mm.group(2).lower():
            for nm in mm.group(1).split(','):
                out.add(nm.strip())
    return out


class Summary:
    __slots__ = ('params', 'ret', 'writes', 'ret_extra')

    def __init__(self, params):
        self.params, self.ret, self.writes, self.ret_extra = params, set(), set(), set()


E = frozenset()
# np.* / builtins that may hand back the very object they were given
SAME_FUNCS = {'asarray', 'asanyarray', 'ascontiguousarray', 'asfortranarray', 'asfarray', 'atleast_1d', 'atleast_2d', 'atleast_3d', 'require',
              'squeeze', 'real', 'real_if_close', 'positive', 'asmatrix', 'mat', 'getattr', 'iter', 'next', 'broadcast_arrays'}
# … that make a new object on the same buffer
VIEWMAKING_FUNCS = {'reshape', 'ravel', 'transpose', 'swapaxes', 'rollaxis', 'moveaxis', 'imag', 'broadcast_to', 'expand_dims', 'flipud',
                    'fliplr', 'flip', 'diagonal', 'diag', 'split', 'array_split', 'hsplit', 'vsplit', 'rot90', 'trim_zeros', 'view'}
CONTAINER_FUNCS = {'tuple', 'list', 'dict', 'zip', 'enumerate', 'sorted', 'reversed', 'set', 'frozenset', 'vars'}
SAME_METHODS = {'squeeze', 'conj', 'conjugate', 'get', 'setdefault', 'pop', 'popitem', '__array__', 'filled', 'item'}
VIEWMAKING_METHODS = {'reshape', 'view', 'ravel', 'swapaxes', 'transpose', 'diagonal', 'newbyteorder', '__getitem__', 'getfield',
                      'compressed', 'byteswap'}
CONTAINER_METHODS = {'values', 'items', 'keys'}
VIEW_ATTRS = {'T', 'real', 'imag', 'flat', 'data', 'base', 'mT', 'H'}


def view(s):
    return frozenset(x if x.endswith('~') else x + '~' for x in s)


def strip(s):
    return frozenset(x.rstrip('~') for x in s)


class Val:
    """abstract value: `obj` = parameters whose object this value may be ('p') or whose buffer it may
    share as a separate object ('p~'); `held` = the same for what a python container holds"""
    __slots__ = ('obj', 'held')

    def __init__(self, obj=E, held=E):
        self.obj, self.held = frozenset(obj), frozenset(held)

    def __or__(self, o):
        return Val(self.obj | o.obj, self.held | o.held)

    def reach(self):
        return self.obj | self.held

    def __eq__(self, o):
        return self.obj == o.obj and self.held == o.held


FRESH = Val()


class FnAnalysis:
    """one function body under the current summaries of its module"""

    def __init__(self, qual, fn, summaries, cls=None):
        self.qual, self.fn, self.summaries, self.cls = qual, fn, summaries, cls
        a = fn.args
        self.params = [x.arg for x in (a.posonlyargs + a.args)] + ([a.vararg.arg] if a.vararg else []) + \
                      [x.arg for x in a.kwonlyargs] + ([a.kwarg.arg] if a.kwarg else [])
        scalars = doc_scalar_params(fn)
        pos = a.posonlyargs + a.args
        const_scalar = lambda d: (isinstance(d, ast.Constant) and isinstance(d.value, (int, float, complex, str, bool)) and d.value is not None) or \
                                 (isinstance(d, ast.UnaryOp) and isinstance(d.operand, ast.Constant))
        for x, d in zip(pos[len(pos) - len(a.defaults):], a.defaults):
            if const_scalar(d):
                scalars.add(x.arg)
        for x, d in zip(a.kwonlyargs, a.kw_defaults):
            if d is not None and const_scalar(d):
                scalars.add(x.arg)
        self.scalars = scalars & set(self.params)
        self.env = {p: (FRESH if p in self.scalars else Val([p])) for p in self.params}
        # `*args` / `**kwargs` are new containers holding the caller's objects
        if a.vararg:
            self.env[a.vararg.arg] = Val(E, [a.vararg.arg])
        if a.kwarg:
            self.env[a.kwarg.arg] = Val(E, [a.kwarg.arg])
        # module-level mutable objects (caches, tables): a name that is not rebound locally IS that object
        for g in MODULE_GLOBALS.get(CUR['module'], ()):
            if g not in self.env:
                self.env[g] = Val(['@' + g])
        # what other methods of the class (and of its bases) bound to `self.<attr>`: parameters of THOSE methods,
        # written 'Class.method:param' (the flows inside this method are followed statement by statement)
        if cls:
            own = qual + ':'
            for c in class_chain(cls):
                for attr, (otags, htags) in CLASS_ATTRS.get(c, {}).items():
                    otags = frozenset(t for t in otags if not t.startswith(own))
                    htags = frozenset(t for t in htags if not t.startswith(own))
                    if otags or htags:
                        cur = self.env.get('self.' + attr, FRESH)
                        self.env['self.' + attr] = Val(cur.obj | otags, cur.held | htags)
                for attr in CLASS_LEVEL.get(c, ()):
                    for root in ('self', 'cls', c):
                        cur = self.env.get(root + '.' + attr, FRESH)
                        self.env[root + '.' + attr] = Val(cur.obj | {'@%s.%s' % (c, attr)}, cur.held)
        self.attr_binds = {}    # attr -> qualified aliases bound to self.<attr> anywhere in this method
        self.fresh_callees = set()
        self.ndarrays = set()   # local names bound to a freshly allocated ndarray: item assignment copies VALUES into it
        self.evald = {}         # local name bound to eval(…) -> the library routines named by string constants of this function
        consts = {n.value for n in ast.walk(fn) if isinstance(n, ast.Constant) and isinstance(n.value, str)}
        self.named_routines = sorted(c for c in consts if c in summaries and '.' not in c)
        self.ret = set()
        self.writes = {}        # (line, kind, target) -> set of aliases
        self.bindings = {}      # (name, line) -> set of aliases

    def qualified(self, aliases):
        """aliases as seen from OTHER methods of the class: own parameters become 'Class.method:param'"""
        out = set()
        for a in aliases:
            base, tilde = a.rstrip('~'), ('~' if a.endswith('~') else '')
            if base in ('self', 'cls'):
                continue
            if ':' in base or base.startswith('@'):
                out.add(a)
            elif base in self.params:
                out.add('%s:%s%s' % (self.qual, base, tilde))
        return out

    # -- expressions -----------------------------------------------------
    def union(self, exprs):
        v = FRESH
        for e in exprs:
            v = v | self.val(e)
        return v

    def val(self, e):
        env = self.env
        if e is None or isinstance(e, (ast.Constant, ast.Lambda, ast.BinOp, ast.UnaryOp, ast.Compare, ast.JoinedStr, ast.FormattedValue)):
            return FRESH
        if isinstance(e, ast.Name):
            return env.get(e.id, FRESH)
        if isinstance(e, ast.Attribute):
            path = dotted(e)
            if path and path in env:
                return env[path]
            if e.attr in SCALAR_ATTRS:
                return FRESH
            v = self.val(e.value)
            return Val(view(v.obj), v.held)          # something reachable from the object (`.T`, `.data`, `.real`, …)
        if isinstance(e, ast.Subscript):
            if isinstance(e.value, ast.Name) and e.value.id in SCALAR_TABLES.get(CUR['module'], ()) and \
                    self.env.get(e.value.id, FRESH).obj == frozenset(['@' + e.value.id]):
                return FRESH                              # an entry of a module-level table of numbers / strings
            v = self.val(e.value)
            return Val(view(v.obj) | v.held, v.held)  # element of an array: a view; element of a container: the held object
        if isinstance(e, ast.Starred):
            return self.val(e.value)
        if isinstance(e, ast.BoolOp):
            return self.union(e.values)
        if isinstance(e, ast.IfExp):
            return self.val(e.body) | self.val(e.orelse)
        if isinstance(e, (ast.Tuple, ast.List, ast.Set)):
            return Val(E, self.union(e.elts).reach())
        if isinstance(e, ast.Dict):
            return Val(E, self.union([v for v in e.values if v is not None]).reach())
        if isinstance(e, (ast.ListComp, ast.GeneratorExp, ast.SetComp, ast.DictComp)):
            saved = dict(self.env)
            for g in e.generators:
                self.bind(g.target, self.element_of(self.val(g.iter)), None, record=False)
            r = self.val(e.value if isinstance(e, ast.DictComp) else e.elt)
            self.env = saved
            return Val(E, r.reach())
        if isinstance(e, ast.NamedExpr):
            r = self.val(e.value)
            self.bind(e.target, r, e.value)
            return r
        if isinstance(e, ast.Call):
            return self.val_call(e)
        if isinstance(e, ast.Await):
            return self.val(e.value)
        return FRESH

    def element_of(self, v):
        return Val(view(v.obj) | v.held, v.held)

    def kw(self, call, name):
        for k in call.keywords:
            if k.arg == name:
                return k.value
        return None

    def ctor_data(self, call):
        """the `data` argument of TimeSeries(data, …)"""
        d = self.kw(call, 'data')
        if d is None and call.args:
            d = call.args[0]
        if d is None or any(k.arg is None for k in call.keywords) or any(isinstance(a, ast.Starred) for a in call.args):
            return self.all_args(call)
        return self.val(d)

    def all_args(self, call):
        return self.union(list(call.args) + [k.value for k in call.keywords])

    def local_summary(self, call):
        """(summary, bound-args {param: expr}) when the callee is a function / method of the library"""
        f = call.func
        name, is_method = None, False
        if isinstance(f, ast.Name) and f.id in self.summaries:
            name = f.id
        elif isinstance(f, ast.Name) and f.id in UTILS_SUMMARIES and f.id not in self.env:
            sm = UTILS_SUMMARIES[f.id]
            return sm, self.bind_args(sm, call, False)
        elif isinstance(f, ast.Attribute) and isinstance(f.value, ast.Name) and f.value.id in ('self', 'cls') and self.cls:
            for c in [self.cls] + CLASS_BASES.get(self.cls, []):
                if c + '.' + f.attr in self.summaries:
                    name, is_method = c + '.' + f.attr, True
                    break
        elif isinstance(f, ast.Attribute) and dotted(f) and dotted(f).split('.')[0] in ('utils', 'tsu', 'ut') and f.attr in UTILS_SUMMARIES:
            sm = UTILS_SUMMARIES[f.attr]
            return sm, self.bind_args(sm, call, False)
        elif isinstance(f, ast.Attribute) and dotted(f) and dotted(f).split('.')[0] in ('tsa', 'alg', 'algorithms') and \
                dotted(f).split('.')[0] not in self.env and f.attr in ALG_SUMMARIES:
            sm = ALG_SUMMARIES[f.attr]
            return sm, self.bind_args(sm, call, False)
        elif isinstance(f, ast.Name) and f.id in ALG_SUMMARIES and f.id not in self.env:
            sm = ALG_SUMMARIES[f.id]
            return sm, self.bind_args(sm, call, False)
        if name is None:
            # Class(...) / ts.Class(...): the summary of its __new__ (else __init__), first parameter = the new object
            cname = f.id if isinstance(f, ast.Name) else (f.attr if isinstance(f, ast.Attribute) and (dotted(f) or '').split('.')[0] in ('ts', 'timeseries') else None)
            if cname and cname not in self.env and cname in CLASS_BASES:
                for c in class_chain(cname):
                    for ctor in ('.__new__', '.__init__'):
                        sm = self.summaries.get(c + ctor) or CLASS_SUMMARIES.get(c + ctor)
                        if sm is not None:
                            params = list(sm.params)[1:]
                            bound = self.bind_args(Summary(params), call, False)
                            return sm, bound
            return None, None
        sm = self.summaries[name]
        return sm, self.bind_args(sm, call, is_method)

    def bind_args(self, sm, call, is_method):
        params = list(sm.params)
        bound = {}
        if is_method and params and params[0] in ('self', 'cls'):
            bound[params[0]] = ast.Name(id='self', ctx=ast.Load())
            params = params[1:]
        for p, a in zip(params, call.args):
            if isinstance(a, ast.Starred):
                for q in params:
                    bound.setdefault(q, a.value)
                break
            bound[p] = a
        for k in call.keywords:
            if k.arg is not None:
                bound[k.arg] = k.value
            else:
                for p in sm.params:          # **kwargs: may feed any parameter
                    bound.setdefault(p, k.value)
        return bound

    def evald_summaries(self, c):
        f = c.func
        if isinstance(f, ast.Name) and f.id in self.evald:
            return [(self.summaries[n], self.bind_args(self.summaries[n], c, False)) for n in self.evald[f.id]]
        return None

    def val_call(self, c):
        f = c.func
        ev = self.evald_summaries(c)
        if ev is not None:
            r = E
            for sm, bound in ev:
                for p in sm.ret:
                    if p in bound:
                        r |= self.val(bound[p]).reach()
                r |= frozenset(sm.ret_extra)
            return Val(r)
        sm, bound = self.local_summary(c)
        hold = E
        if (isinstance(f, ast.Name) and f.id in HOLDING_CTORS and f.id not in self.env) or \
                (isinstance(f, ast.Attribute) and f.attr in HOLDING_CTORS and (dotted(f) or '').split('.')[0] in ('ts', 'timeseries')):
            hold = view(self.ctor_data(c).reach())
        if sm is not None:
            r = E
            if hold:
                return Val(E, hold)
            for p in sm.ret:
                if p in bound:
                    r |= self.val(bound[p]).reach()
            return Val(r | frozenset(sm.ret_extra))      # + constructor arguments of the class / module-level objects
        first = c.args[0] if c.args else None
        from_sequence = isinstance(first, (ast.List, ast.Tuple, ast.ListComp, ast.GeneratorExp))
        if isinstance(f, ast.Attribute):
            path = dotted(f) or ''
            root = path.split('.')[0] if path else ''
            if isinstance(f.value, ast.Call) and isinstance(f.value.func, ast.Name) and f.value.func.id == 'super':
                return FRESH if f.attr == '__new__' else Val(self.all_args(c).reach())
            if root in ('np', 'numpy') and root not in self.env:
                if path.split('.')[1:2] == ['ndarray']:
                    if f.attr in INPLACE_DUNDERS:
                        return self.val(first)
                    if f.attr in VIEWMAKING_METHODS or f.attr in SAME_METHODS:
                        return Val(view(self.val(first).reach()))
                    return FRESH
                if f.attr in ARRAY_CTOR:
                    cp = self.kw(c, 'copy')
                    if cp is not None and not (isinstance(cp, ast.Constant) and cp.value is True) and not from_sequence:
                        return Val(self.all_args(c).reach())
                    return FRESH
                r = E
                out = self.kw(c, 'out')
                if out is not None:
                    r |= self.val(out).reach()
                if f.attr in UNARY_UFUNCS and len(c.args) >= 2:
                    r |= self.val(c.args[1]).reach()
                if f.attr in BINARY_UFUNCS and len(c.args) >= 3:
                    r |= self.val(c.args[2]).reach()
                if f.attr in SAME_FUNCS and not from_sequence:
                    r |= self.all_args(c).reach()
                if f.attr in VIEWMAKING_FUNCS and not from_sequence:
                    r |= view(self.all_args(c).reach())
                return Val(r)
            if f.attr in HOLDING_CTORS and root in ('ts', 'timeseries') and root not in self.env:
                return Val(E, view(self.ctor_data(c).reach()))     # the new series wraps the array it is given
            if root in FRESH_MODULES and root not in self.env:
                return FRESH
            recv = self.val(f.value)
            if f.attr == 'astype':
                cp = self.kw(c, 'copy')
                if cp is not None and not (isinstance(cp, ast.Constant) and cp.value is True):
                    return Val(recv.obj)
                return FRESH
            if f.attr in FRESH_METHODS:
                return FRESH
            if f.attr in SAME_METHODS:
                return Val(recv.obj | recv.held, recv.held)
            if f.attr in VIEWMAKING_METHODS:
                return Val(view(recv.obj) | recv.held, recv.held)
            if f.attr in CONTAINER_METHODS:
                return Val(E, recv.reach())
            return Val(recv.reach() | self.all_args(c).reach())          # unknown method: conservative
        if isinstance(f, ast.Name):
            if f.id in HOLDING_CTORS and f.id not in self.env:
                return Val(E, view(self.ctor_data(c).reach()))
            if f.id in self.fresh_callees:
                return FRESH
            if f.id in FRESH_BUILTINS or f.id in IMPORTED_FRESH:
                return FRESH
            if f.id in CONTAINER_FUNCS:
                v = self.all_args(c)
                return Val(E, view(v.obj) | v.held)
            if f.id in SAME_FUNCS:
                return Val(self.all_args(c).reach())
            return Val(self.all_args(c).reach())                   # unknown function / callback: conservative
        return Val(self.all_args(c).reach())

    # -- effects ----------------------------------------------------------
    def write(self, node, kind, target_expr, aliases):
        key = (getattr(node, 'lineno', 0), kind, ast.unparse(target_expr) if not isinstance(target_expr, str) else target_expr)
        self.writes.setdefault(key, set()).update(strip(aliases))

    def call_effects(self, c):
        f = c.func
        for sm, bound in (self.evald_summaries(c) or []):
            for p in sm.writes:
                if p in bound:
                    self.write(c, 'call:' + f.id, bound[p], self.val(bound[p]).reach())
        sm, bound = self.local_summary(c)
        if sm is not None:
            for p in sm.writes:
                if p in bound:
                    self.write(c, 'call:' + (dotted(f) or '?').split('.')[-1], bound[p], self.val(bound[p]).reach())
            return
        out = self.kw(c, 'out')
        if out is not None and not (isinstance(out, ast.Constant) and out.value is None):
            self.write(c, 'out', out, self.val(out).obj)
        if isinstance(f, ast.Attribute):
            path = dotted(f) or ''
            root = path.split('.')[0] if path else ''
            if root in ('np', 'numpy') and root not in self.env:
                if path.split('.')[1:2] == ['ndarray'] and (f.attr in INPLACE_DUNDERS or f.attr in MUTATING_METHODS) and c.args:
                    self.write(c, 'method:' + f.attr, c.args[0], self.val(c.args[0]).obj)
                if f.attr in UNARY_UFUNCS and len(c.args) >= 2:
                    self.write(c, 'out', c.args[1], self.val(c.args[1]).obj)
                if f.attr in BINARY_UFUNCS and len(c.args) >= 3:
                    self.write(c, 'out', c.args[2], self.val(c.args[2]).obj)
                if f.attr in WRITE_FIRST_ARG_FUNCS and c.args:
                    self.write(c, 'call:np.' + f.attr, c.args[0], self.val(c.args[0]).obj)
                return
            if f.attr in MUTATING_METHODS and not (root in FRESH_MODULES and root not in self.env):
                recv = self.val(f.value)
                self.write(c, 'method:' + f.attr, f.value, recv.obj)
                if f.attr in ('append', 'extend', 'insert', 'update', 'setdefault') and isinstance(f.value, ast.Name):
                    n = f.value.id
                    cur = self.env.get(n, FRESH)
                    self.env[n] = Val(cur.obj, cur.held | self.all_args(c).reach())
        elif isinstance(f, ast.Name) and f.id in ('setattr', 'delattr') and c.args:
            self.write(c, 'call:' + f.id, c.args[0], frozenset(x for x in self.val(c.args[0]).obj if not x.endswith('~')))
        elif isinstance(f, ast.Name) and f.id in WRITE_FIRST_ARG_FUNCS and c.args:
            self.write(c, 'call:' + f.id, c.args[0], self.val(c.args[0]).obj)

    def effects_in(self, node):
        """in-place effects of every call nested in an expression / statement header"""
        if node is None:
            return
        for n in ast.walk(node):
            if isinstance(n, ast.Call):
                self.call_effects(n)

    def bind(self, target, v, value=None, record=True):
        if isinstance(target, ast.Name):
            self.env[target.id] = v
            if is_fresh_ndarray(value):
                self.ndarrays.add(target.id)
            else:
                self.ndarrays.discard(target.id)
            if isinstance(value, ast.Attribute) and (dotted(value) or '').split('.')[0] in (FRESH_MODULES - {'utils', 'tsu', 'tsa', 'ts'}) \
                    and (dotted(value) or '').split('.')[0] not in self.env:
                self.fresh_callees.add(target.id)          # `fft = fftpack.fft`
            else:
                self.fresh_callees.discard(target.id)
            if isinstance(value, ast.Call) and isinstance(value.func, ast.Name) and value.func.id == 'eval' and self.named_routines:
                self.evald[target.id] = self.named_routines
            else:
                self.evald.pop(target.id, None)
            if record:
                self.bindings.setdefault((target.id, getattr(target, 'lineno', 0)), set()).update(strip(v.reach()))
        elif isinstance(target, (ast.Tuple, ast.List)):
            if isinstance(value, (ast.Tuple, ast.List)) and len(value.elts) == len(target.elts):
                for t, x in zip(target.elts, value.elts):
                    self.bind(t, self.val(x), x, record)
            else:
                for t in target.elts:
                    self.bind(t, self.element_of(v), None, record)
        elif isinstance(target, ast.Starred):
            self.bind(target.value, Val(E, v.reach()), None, record)
        elif isinstance(target, ast.Attribute):
            path = dotted(target)
            base = self.val(target.value)
            same = frozenset(x for x in base.obj if not x.endswith('~'))
            if path and path.split('.')[0] in ('self', 'cls') and path.count('.') == 1:
                self.env[path] = v          # the object remembers what it was given
                ab = self.attr_binds.setdefault(path.split('.')[1], (set(), set()))
                ab[0].update(self.qualified(v.obj))
                ab[1].update(self.qualified(v.held))
                self.write(target, 'setattr', target, same)
            else:
                self.write(target, 'setattr', target, same)
                if path:
                    self.env[path] = v
        elif isinstance(target, ast.Subscript):
            base = self.val(target.value)
            self.write(target, 'setitem', target.value, base.obj)
            root = target.value
            if isinstance(root, ast.Name) and root.id not in self.ndarrays:      # the container now also holds the stored object
                cur = self.env.get(root.id, FRESH)
                self.env[root.id] = Val(cur.obj, cur.held | v.reach())

    # -- statements ---------------------------------------------------------
    def merge(self, envs):
        keys = set().union(*[set(e) for e in envs])
        out = {}
        for k in keys:
            v = FRESH
            for e in envs:
                v = v | e.get(k, FRESH)
            out[k] = v
        return out

    def block(self, stmts):
        for s in stmts:
            self.stmt(s)

    def stmt(self, s):
        if isinstance(s, (ast.FunctionDef, ast.AsyncFunctionDef, ast.ClassDef, ast.Import, ast.ImportFrom, ast.Global, ast.Nonlocal, ast.Pass,
                          ast.Break, ast.Continue)):
            return
        if isinstance(s, ast.Assign):
            self.effects_in(s.value)
            v = self.val(s.value)
            for t in s.targets:
                if isinstance(t, (ast.Subscript, ast.Attribute)):
                    self.effects_in(t)
                self.bind(t, v, s.value)
            return
        if isinstance(s, ast.AnnAssign):
            if s.value is not None:
                self.effects_in(s.value)
                self.bind(s.target, self.val(s.value), s.value)
            return
        if isinstance(s, ast.AugAssign):
            self.effects_in(s.value)
            t = s.target
            if isinstance(t, ast.Name):
                self.write(s, 'augassign', t, self.env.get(t.id, FRESH).obj)
            elif isinstance(t, ast.Subscript):
                self.write(s, 'augassign-item', t.value, self.val(t.value).obj)
            elif isinstance(t, ast.Attribute):
                path = dotted(t)
                v = self.env[path] if path in self.env else self.val(t.value)
                self.write(s, 'augassign-attr', t, v.obj)
            return
        if isinstance(s, ast.Expr):
            self.effects_in(s.value)
            return
        if isinstance(s, ast.Return):
            self.effects_in(s.value)
            self.ret |= strip(x for x in self.val(s.value).reach())
            return
        if isinstance(s, ast.Delete):
            for t in s.targets:
                if isinstance(t, ast.Name):
                    self.env.pop(t.id, None)
                elif isinstance(t, ast.Subscript):
                    self.write(s, 'delitem', t.value, self.val(t.value).obj)
            return
        if isinstance(s, ast.If):
            self.effects_in(s.test)
            e0 = dict(self.env)
            self.block(s.body)
            e1 = self.env
            self.env = dict(e0)
            self.block(s.orelse)
            self.env = self.merge([e1, self.env])
            return
        if isinstance(s, (ast.For, ast.AsyncFor)):
            self.effects_in(s.iter)
            e0 = dict(self.env)
            for _ in range(2):
                self.bind(s.target, self.element_of(self.val(s.iter)), None)
                self.block(s.body)
                self.env = self.merge([e0, self.env])
            self.block(s.orelse)
            return
        if isinstance(s, ast.While):
            e0 = dict(self.env)
            for _ in range(2):
                self.effects_in(s.test)
                self.block(s.body)
                self.env = self.merge([e0, self.env])
            self.block(s.orelse)
            return
        if isinstance(s, (ast.With, ast.AsyncWith)):
            for it in s.items:
                self.effects_in(it.context_expr)
                if it.optional_vars is not None:
                    self.bind(it.optional_vars, self.val(it.context_expr), it.context_expr)
            self.block(s.body)
            return
        if isinstance(s, ast.Try) or s.__class__.__name__ == 'TryStar':
            e0 = dict(self.env)
            self.block(s.body)
            envs = [self.env]
            for h in s.handlers:
                self.env = self.merge([e0, envs[0]])
                self.block(h.body)
                envs.append(self.env)
            self.env = self.merge(envs)
            self.block(s.orelse)
            self.block(s.finalbody)
            return
        if isinstance(s, ast.Raise):
            self.effects_in(s.exc)
            return
        if isinstance(s, ast.Assert):
            self.effects_in(s.test)
            return
        if isinstance(s, ast.Match):
            self.effects_in(s.subject)
            e0 = dict(self.env)
            envs = []
            for c in s.cases:
                self.env = dict(e0)
                self.block(c.body)
                envs.append(self.env)
            self.env = self.merge(envs + [e0])
            return
        self.effects_in(s)

    def run(self):
        self.block(self.fn.body)
        return self


IMPORTED_FRESH = {'lfilter', 'hilbert', 'detrend', 'warn', 'deepcopy'}
HOLDING_CTORS = {'TimeSeries'}     # TimeSeries(data, …) keeps np.asarray(data): the object shares the caller's buffer
CLASS_BASES = {}
UTILS_SUMMARIES = {}
ALG_SUMMARIES = {}
CLASS_SUMMARIES = {}    # 'Class.method' -> summary, from the files analysed so far
CLASS_ATTRS = {}        # class -> attr -> {'Class.method:param', '@global', …} bound to self.<attr> in any method
CLASS_LEVEL = {}        # class -> names assigned to a mutable object in the class body (shared by all instances)
MODULE_GLOBALS = {}     # module -> names assigned to a mutable object at module level
SCALAR_TABLES = {}      # module -> module-level dict literals whose values are numbers / strings
CUR = {'module': None}


NDARRAY_ALLOC = {'zeros', 'empty', 'ones', 'zeros_like', 'empty_like', 'ones_like', 'full', 'full_like', 'eye', 'identity', 'arange', 'linspace'}


def is_fresh_ndarray(value):
    if isinstance(value, ast.Call):
        d = (dotted(value.func) or '').split('.')
        return len(d) == 2 and d[0] in ('np', 'numpy') and d[1] in NDARRAY_ALLOC
    return False


def class_chain(cls, seen=None):
    seen = seen or []
    if cls in seen:
        return seen
    seen.append(cls)
    for b in CLASS_BASES.get(cls, []):
        class_chain(b, seen)
    return seen


def mutable_literal(v):
    """module / class level value that is an object somebody could later write to or hand out"""
    if isinstance(v, (ast.Dict, ast.List, ast.Set, ast.ListComp, ast.DictComp, ast.SetComp)):
        return True
    if isinstance(v, ast.Call):
        d = dotted(v.func) or ''
        return d.split('.')[-1] not in ('int', 'float', 'str', 'bool', 'complex', 'ceil', 'floor', 'dtype', 'compile', 'getLogger', 'frozenset',
                                        'tuple', 'namedtuple', 'auto_attr', 'property')
    return False


def stored_into(tree, name):
    """is there, anywhere in the module, an item assignment / update on the module-level name?"""
    for n in ast.walk(tree):
        if isinstance(n, ast.Subscript) and isinstance(n.ctx, (ast.Store, ast.Del)) and isinstance(n.value, ast.Name) and n.value.id == name:
            return True
        if isinstance(n, ast.Call) and isinstance(n.func, ast.Attribute) and isinstance(n.func.value, ast.Name) and n.func.value.id == name \
                and n.func.attr in MUTATING_METHODS:
            return True
        if isinstance(n, ast.AugAssign) and isinstance(n.target, ast.Name) and n.target.id == name:
            return True
    return False


def scan_module_state(mod, tree):
    globs, tables = set(), set()
    for n in tree.body:
        if isinstance(n, ast.Assign) and len(n.targets) == 1 and isinstance(n.targets[0], ast.Name) and not n.targets[0].id.startswith('__'):
            if mutable_literal(n.value):
                globs.add(n.targets[0].id)
                if isinstance(n.value, ast.Dict) and n.value.values and all(isinstance(x, (ast.Constant, ast.BinOp, ast.UnaryOp)) for x in n.value.values) \
                        and not stored_into(tree, n.targets[0].id):
                    tables.add(n.targets[0].id)       # a table of numbers / strings that nobody adds to
        elif isinstance(n, ast.ClassDef):
            for m in n.body:
                if isinstance(m, ast.Assign) and len(m.targets) == 1 and isinstance(m.targets[0], ast.Name) and mutable_literal(m.value) \
                        and not m.targets[0].id.startswith('__'):
                    CLASS_LEVEL.setdefault(n.name, set()).add(m.targets[0].id)
    MODULE_GLOBALS[mod] = globs
    SCALAR_TABLES[mod] = tables


def functions_of(tree):
    """(qualified name, node, class name or None) for every top-level function and every method"""
    out = []
    for n in tree.body:
        if isinstance(n, ast.FunctionDef):
            out.append((n.name, n, None))
        elif isinstance(n, ast.ClassDef):
            CLASS_BASES[n.name] = [b.id for b in n.bases if isinstance(b, ast.Name)]
            for m in n.body:
                if isinstance(m, ast.FunctionDef):
                    out.append((n.name + '.' + m.name, m, n.name))
    return out


def param_names(f):
    a = f.args
    return [x.arg for x in (a.posonlyargs + a.args)] + ([a.vararg.arg] if a.vararg else []) + \
           [x.arg for x in a.kwonlyargs] + ([a.kwarg.arg] if a.kwarg else [])


def analyse_file(path):
    tree = T.parse(path)
    mod = path[len('nitime/'):-3].replace('/', '.')
    CUR['module'] = mod
    scan_module_state(mod, tree)
    fns = functions_of(tree)
    summaries = {q: Summary(param_names(f)) for q, f, _ in fns}
    results = {}
    for _ in range(10):
        changed = False
        for q, f, cls in fns:
            r = FnAnalysis(q, f, summaries, cls).run()
            results[q] = r
            ret = {p for p in r.ret if p in r.params}
            extra = {p for p in r.ret if ':' in p or p.startswith('@')}
            wr = {p for ws in r.writes.values() for p in ws if p in r.params and p not in ('self', 'cls')}
            if ret != summaries[q].ret or wr != summaries[q].writes or extra != summaries[q].ret_extra:
                summaries[q].ret, summaries[q].writes, summaries[q].ret_extra = ret, wr, extra
                changed = True
            if cls:
                for attr, (otags, htags) in r.attr_binds.items():
                    cur = CLASS_ATTRS.setdefault(cls, {}).setdefault(attr, (set(), set()))
                    for i, new in ((0, otags), (1, htags)):
                        if not new <= cur[i]:
                            cur[i].update(new)
                            changed = True
        if not changed:
            break
    return fns, summaries, results


def lstr(xs):
    return '[' + ', '.join('"%s"' % str(x).replace('\\', '\\\\').replace('"', '\\"') for x in xs) + ']'


def gen_c16alias():
    rows_w, rows_f, rows_b, echo = [], [], [], {}
    parsed = True
    UTILS_SUMMARIES.clear()
    ALG_SUMMARIES.clear()
    CLASS_SUMMARIES.clear()
    CLASS_BASES.clear()
    CLASS_ATTRS.clear()
    CLASS_LEVEL.clear()
    MODULE_GLOBALS.clear()
    SCALAR_TABLES.clear()
    for path in ALL_FILES:
        try:
            fns, summaries, results = analyse_file(path)
        except (SyntaxError, OSError, RecursionError) as e:
            parsed = False
            echo[path] = 'unparsable: %r' % e
            continue
        if path == 'nitime/utils.py':
            UTILS_SUMMARIES.update({q: sm for q, sm in summaries.items() if '.' not in q})
        CLASS_SUMMARIES.update({q: sm for q, sm in summaries.items() if '.' in q})
        if path.startswith('nitime/algorithms/'):
            for q, sm in summaries.items():
                if '.' not in q:
                    ALG_SUMMARIES.setdefault(q, sm)
        mod = path[len('nitime/'):-3].replace('/', '.')
        for q, f, cls in fns:
            r = results[q]
            sm = summaries[q]
            meth = q.split('.')[-1] if cls else ''
            bare = q.split('.')[-1]
            public = (not bare.startswith('_')) or (bare.startswith('__') and bare.endswith('__'))
            rows_f.append((mod, q, [p for p in r.params], sorted(sm.ret), sorted(sm.writes), sorted(r.scalars),
                           sorted(x for x in sm.ret_extra if ':' in x), sorted(x for x in sm.ret_extra if x.startswith('@')), public))
            for (line, kind, target), al in sorted(r.writes.items()):
                rows_w.append((mod, q, line, kind, target, sorted(x for x in al if x not in ('self', 'cls') and not x.startswith('@') and ':' not in x),
                               any(x in ('self', 'cls') for x in al), meth, sorted(x for x in al if x.startswith('@')), sorted(x for x in al if ':' in x)))
            for (name, line), al in sorted(r.bindings.items(), key=lambda kv: (kv[0][1], kv[0][0])):
                al = sorted(x for x in al if x not in ('self', 'cls'))
                if al:
                    rows_b.append((mod, q, name, line, al))
    flagged = [w for w in rows_w if w[5] or w[9]]
    echo['functions'] = len(rows_f)
    echo['in_place_statements'] = len(rows_w)
    echo['in_place_on_possible_argument_alias'] = ['%s.%s:%d %s %s <- %s' % (w[0], w[1], w[2], w[3], w[4], w[5] + w[9]) for w in flagged]
    echo['returns_may_alias'] = {'%s.%s' % (f[0], f[1]): [x for x in f[3] if x not in ('self', 'cls')] + f[6] + f[7] for f in rows_f
                                 if f[8] and ([x for x in f[3] if x not in ('self', 'cls')] or f[6] or f[7])}
    echo['class_attributes_bound_to_arguments'] = {c + '.' + a: sorted(t[0]) + ['holds ' + x for x in sorted(t[1])]
                                                   for c, d in sorted(CLASS_ATTRS.items()) for a, t in sorted(d.items()) if t[0] or t[1]}
    echo['module_level_objects'] = {m: sorted(g) for m, g in sorted(MODULE_GLOBALS.items()) if g}
    echo['class_level_objects'] = {c: sorted(g) for c, g in sorted(CLASS_LEVEL.items()) if g}
    b = lambda v: 'true' if v else 'false'
    L = ['-- GENERATED by harness/translate_c16.py from ' + ', '.join(ALL_FILES) + '. DO NOT EDIT.',
         '-- may-alias analysis: which names can be the caller\'s object, and every in-place statement with its target.',
         'namespace Nitime.Generated.C16Alias', '',
         '/-- an in-place statement (augmented assignment, subscript / attribute assignment, `out=`, mutating method, call of a',
         'routine that writes to its parameter).  `argAliases` = the parameters of `func` (other than `self`) whose object the',
         'target may be — empty: the target is provably a fresh object (or `self`, see `onSelf`) -/',
         'structure Write where', '  module : String', '  func : String', '  line : Nat', '  kind : String', '  target : String',
         '  argAliases : List String', '  onSelf : Bool',
         '  /-- bare method name ("" for a module-level function) -/', '  method : String',
         '  /-- module-level / class-level objects the target may be -/', '  globalAliases : List String',
         '  /-- parameters of OTHER methods of the class (`Class.method:param`) whose object the target may be, reached through `self.<attr>` -/',
         '  ctorAliases : List String', '  deriving Repr, DecidableEq', '',
         '/-- summary of a function: parameters, which of them the return value may alias, which of them it writes to,',
         'and which are declared immutable (numbers / flags / strings) -/',
         'structure Fn where', '  module : String', '  func : String', '  params : List String', '  returnsAlias : List String',
         '  writesParams : List String', '  scalarParams : List String',
         '  /-- parameters of OTHER methods of the class (`Class.method:param`, reached through `self.<attr>`) the return value may alias -/',
         '  returnsCtorArg : List String',
         '  /-- module-level / class-level objects (`@name`) the return value may alias -/', '  returnsGlobal : List String',
         '  /-- part of the public interface (no leading underscore, or a dunder) -/', '  isPublic : Bool', '  deriving Repr, DecidableEq', '',
         '/-- a local name bound to something that may be a parameter\'s object (names bound to fresh objects are not listed) -/',
         'structure Binding where', '  module : String', '  func : String', '  name : String', '  line : Nat', '  aliases : List String',
         '  deriving Repr, DecidableEq', '',
         '/-- every anchor file parsed -/', 'def parsed : Bool := ' + b(parsed), '',
         'def writes : List Write := [']
    L.append(',\n'.join('  ⟨"%s", "%s", %d, "%s", %s, %s, %s, "%s", %s, %s⟩' % (w[0], w[1], w[2], w[3], lstr([w[4]])[1:-1], lstr(w[5]), b(w[6]), w[7], lstr(w[8]), lstr(w[9])) for w in rows_w))
    L += [']', '', 'def fns : List Fn := [']
    L.append(',\n'.join('  ⟨"%s", "%s", %s, %s, %s, %s, %s, %s, %s⟩' % (f[0], f[1], lstr(f[2]), lstr(f[3]), lstr(f[4]), lstr(f[5]), lstr(f[6]), lstr(f[7]), b(f[8])) for f in rows_f))
    L += [']', '', 'def bindings : List Binding := [']
    L.append(',\n'.join('  ⟨"%s", "%s", "%s", %d, %s⟩' % (x[0], x[1], x[2], x[3], lstr(x[4])) for x in rows_b))
    L += [']', '', 'end Nitime.Generated.C16Alias', '']
    return 'C16Alias.lean', '\n'.join(L), echo


# ------------------------------------------------------------------ round 2 (L7): exception handlers and the copy path
def _exc_names(h):
    if h.type is None:
        return ['<bare>']
    if isinstance(h.type, ast.Tuple):
        return [dotted(e) or '?' for e in h.type.elts]
    return [dotted(h.type) or '?']


def _always_raises(body):
    """every path through the statement list ends in `raise`"""
    for st in body:
        if isinstance(st, ast.Raise):
            return True
        if isinstance(st, ast.If) and st.orelse and _always_raises(st.body) and _always_raises(st.orelse):
            return True
        if isinstance(st, (ast.With,)) and _always_raises(st.body):
            return True
        if isinstance(st, ast.Try) and st.finalbody and _always_raises(st.finalbody):
            return True
    return False


def _walk_no_defs(stmts):
    """all nodes of the statements, nested function / class bodies excluded (their names are yielded)"""
    todo = list(stmts)
    while todo:
        n_ = todo.pop()
        yield n_
        if isinstance(n_, (ast.FunctionDef, ast.AsyncFunctionDef, ast.ClassDef)):
            continue
        todo.extend(ast.iter_child_nodes(n_))


def _assigned_names(body):
    out = set()
    if True:
        for node in _walk_no_defs(body):
            if isinstance(node, (ast.Assign, ast.AugAssign, ast.AnnAssign)):
                tg = node.targets if isinstance(node, ast.Assign) else [node.target]
                for t_ in tg:
                    for n_ in ast.walk(t_):
                        if isinstance(n_, ast.Name):
                            out.add(n_.id)
                        elif isinstance(n_, ast.Attribute):
                            out.add(dotted(n_) or '?')
            elif isinstance(node, (ast.Import, ast.ImportFrom)):
                out.update((a.asname or a.name).split('.')[0] for a in node.names)
            elif isinstance(node, (ast.FunctionDef, ast.ClassDef)):
                out.add(node.name)
    return sorted(out)


def _handlers_of(fn_body):
    """(line of try, exception types, re-raises on every path, returns a value, names bound in the handler) for every handler
    of every `try` lexically inside the statement list (nested functions / classes excluded)"""
    rows = []

    def walk(stmts):
        for st in stmts:
            if isinstance(st, (ast.FunctionDef, ast.AsyncFunctionDef, ast.ClassDef)):
                continue
            if isinstance(st, ast.Try) or st.__class__.__name__ == 'TryStar':
                for h in st.handlers:
                    rr = _always_raises(h.body)
                    returns = any(isinstance(n_, ast.Return) for n_ in _walk_no_defs(h.body))
                    rows.append((st.lineno, _exc_names(h), rr, returns, [] if rr else _assigned_names(h.body)))
                    walk(h.body)
                walk(st.body); walk(st.orelse); walk(st.finalbody)
            else:
                for fld in ('body', 'orelse', 'finalbody'):
                    sub = getattr(st, fld, None)
                    if isinstance(sub, list):
                        walk(sub)
    walk(fn_body)
    return rows


def _call_name(node):
    """dotted name of the callee when `node` is a call; a bare name / attribute as written otherwise"""
    if isinstance(node, ast.Call):
        return dotted(node.func) or '?'
    return '=' + (dotted(node) or node.__class__.__name__)


def _sources_of(fn, node, seen=()):
    """what may flow into the expression `node` inside `fn`: the callee names; local names are followed through every
    assignment to them anywhere in the function (any branch, any handler)"""
    if isinstance(node, ast.Name) and node.id not in seen and node.id not in [a.arg for a in fn.args.args]:
        out = []
        for st in ast.walk(fn):
            if isinstance(st, ast.Assign) and any(isinstance(t_, ast.Name) and t_.id == node.id for t_ in st.targets):
                out += _sources_of(fn, st.value, seen + (node.id,))
            elif isinstance(st, ast.AugAssign) and isinstance(st.target, ast.Name) and st.target.id == node.id:
                out.append('aug')
        return out or ['=' + node.id]
    if isinstance(node, ast.IfExp):
        return _sources_of(fn, node.body, seen) + _sources_of(fn, node.orelse, seen)
    if isinstance(node, ast.BoolOp):
        return [x for v in node.values for x in _sources_of(fn, v, seen)]
    return [_call_name(node)]


COPY_OPERATORS = ['__add__', '__sub__', '__mul__', '__div__', '__truediv__']


def gen_c16copypath():
    """try/except structure of every function of the registry files (which handlers complete normally = swallow the exception),
    and the copy path of TimeSeries: where copy()'s data / time / metadata arguments come from and what the operators call"""
    echo, rows, parsed = {}, [], True
    copy_meta, copy_data, copy_time, copy_found, ops = [], [], [], False, []
    for path in ALL_FILES:
        try:
            tree = T.parse(path)
        except (SyntaxError, OSError) as e:
            parsed = False
            echo[path] = 'unparsable: %r' % e
            continue
        mod = path[len('nitime/'):-3].replace('/', '.')
        for ln, exc, rr, ret, bound in _handlers_of(tree.body):
            rows.append((mod, '<module>', ln, exc, rr, ret, bound))
        for q, f, cls in functions_of(tree):
            for ln, exc, rr, ret, bound in _handlers_of(f.body):
                rows.append((mod, q, ln, exc, rr, ret, bound))
        if path == 'nitime/timeseries.py':
            aliases, meths = {}, {}
            for cname in ('TimeSeriesBase', 'TimeSeries'):       # base first: the derived class overrides
                for node in ast.walk(tree):
                    if isinstance(node, ast.ClassDef) and node.name == cname:
                        for st in node.body:       # `__truediv__ = __div__`
                            if isinstance(st, ast.Assign) and isinstance(st.value, ast.Name):
                                for t_ in st.targets:
                                    if isinstance(t_, ast.Name):
                                        aliases[t_.id] = st.value.id
                                        meths.pop(t_.id, None)
                            elif isinstance(st, ast.FunctionDef):
                                meths[st.name] = st
                                aliases.pop(st.name, None)
            for node in [1]:
                if True:
                    cp = meths.get('copy')
                    if cp is not None:
                        rets = [n_ for n_ in ast.walk(cp) if isinstance(n_, ast.Return) and n_.value is not None]
                        copy_found = len(rets) >= 1
                        for r_ in rets:
                            if isinstance(r_.value, ast.Call) and dotted(r_.value.func) in ('TimeSeries', 'self.__class__', 'type(self)'):
                                kw = {k_.arg: k_.value for k_ in r_.value.keywords}
                                pos = list(r_.value.args)
                                copy_data += _sources_of(cp, kw.get('data', pos[0] if pos else ast.Name(id='<missing>')))
                                copy_time += _sources_of(cp, kw['time']) if 'time' in kw else ['<missing>']
                                copy_meta += _sources_of(cp, kw['metadata']) if 'metadata' in kw else ['<missing>']
                            else:
                                copy_meta.append('<return not a TimeSeries(...) call>')
                    for opn in COPY_OPERATORS:
                        m_ = meths.get(aliases.get(opn, opn))
                        if m_ is None:
                            ops.append((opn, [], False))
                            continue
                        # where `out` (the returned name) comes from, and whether it is rebound / the operand returned
                        rets = [n_.value for n_ in ast.walk(m_) if isinstance(n_, ast.Return) and n_.value is not None]
                        srcs = sorted({x for r_ in rets for x in _sources_of(m_, r_)})
                        ops.append((opn, srcs, len(rets) == 1))
    swallow = [r for r in rows if not r[4]]
    echo['handlers'] = len(rows)
    echo['handlers_completing_normally'] = ['%s.%s:%d except %s binds %s%s' % (r[0], r[1], r[2], '/'.join(r[3]), r[6], ' returns' if r[5] else '') for r in swallow]
    echo['copy_metadata_sources'] = copy_meta
    echo['copy_data_sources'] = copy_data
    echo['copy_time_sources'] = copy_time
    echo['operators'] = {o: s_ for o, s_, _ in ops}
    b = lambda v: 'true' if v else 'false'
    L = ['-- GENERATED by harness/translate_c16.py (gen_c16copypath) from ' + ', '.join(ALL_FILES) + '. DO NOT EDIT.',
         '-- exception handlers of the registry files, and where TimeSeries.copy() / the arithmetic operators take their parts from.',
         'namespace Nitime.Generated.C16CopyPath', '',
         '/-- one `except` clause: `reraises` = every path through the handler ends in `raise`; otherwise the handler completes normally',
         '(the exception is swallowed): `returns` = it contains a `return`, `binds` = the names it assigns (the substitute values) -/',
         'structure Handler where', '  module : String', '  func : String', '  line : Nat', '  catches : List String', '  reraises : Bool',
         '  returns : Bool', '  binds : List String', '  deriving Repr, DecidableEq', '',
         '/-- every registry file parsed -/', 'def parsed : Bool := ' + b(parsed), '',
         'def handlers : List Handler := [']
    L.append(',\n'.join('  ⟨"%s", "%s", %d, %s, %s, %s, %s⟩' % (r[0], r[1], r[2], lstr(r[3]), b(r[4]), b(r[5]), lstr(r[6])) for r in rows))
    L += [']', '',
          '/-- `TimeSeries.copy` found, with `return TimeSeries(...)` -/', 'def copyFound : Bool := ' + b(copy_found),
          '/-- callees whose results may reach the `metadata=` argument of the series built by `TimeSeries.copy` (local names followed',
          'through every assignment in the function, handlers included) -/',
          'def copyMetadataSources : List String := ' + lstr(copy_meta),
          'def copyDataSources : List String := ' + lstr(copy_data),
          'def copyTimeSources : List String := ' + lstr(copy_time), '',
          '/-- arithmetic operator of TimeSeries ↦ callees that may produce the object it returns, and "exactly one return" -/',
          'def operators : List (String × List String × Bool) := [' + ', '.join('("%s", %s, %s)' % (o, lstr(s_), b(one)) for o, s_, one in ops) + ']',
          '', 'end Nitime.Generated.C16CopyPath', '']
    return 'C16CopyPath.lean', '\n'.join(L), echo


GENERATORS = [gen_c16alias, gen_c16copypath]

if __name__ == '__main__':
    import json
    name, text, echo = gen_c16alias()
    print(json.dumps(echo, indent=1))
