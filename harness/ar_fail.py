"""Round 2 helpers shared by the C10, C11, C12 oracles: failure paths (L7) and aliasing (L8).

L7: `after_failures` runs a family of calls that are refused / raise part-way (each in try/except) on the SAME argument
objects, requires the arguments to be bit-for-bit what they were, and then requires the ordinary call on those objects to
return what it returns on fresh copies.  `vars_delta` compares the instance dict of an object before / after a failed
operation (only declared one-time attributes may have appeared; nothing may have changed or disappeared).

L8: `strided_recip`, `strided_alleq` build coefficient arrays whose entries SHARE memory (`a[:,0,1]` and `a[:,1,0]` one
buffer; all four entries one buffer); `slice_view` is `R[c, c]` / `R[:, :, :k]`-style views of a stack that is used again.
"""
import copy
import numpy as np
import ar_seq


def after_failures(bad, args, ordinary):
    """bad: [(name, thunk)], thunks close over `args`; ordinary: callable(args) -> result.  Returns symptom strings."""
    fresh = copy.deepcopy(args)
    try:
        want = copy.deepcopy(ordinary(fresh))
    except Exception:  # noqa  (the ordinary call itself is not valid for this input: nothing to compare)
        return []
    syms = []
    for name, thunk in bad:
        snap = ar_seq.snapshot(args)
        try:
            thunk()
            outcome = 'returned'
        except Exception as e:  # noqa
            outcome = type(e).__name__
        if ar_seq.mutated(snap):
            syms.append('%s/argument-changed-by-refused-call' % name)
            return syms
        try:
            got = ordinary(args)
        except Exception as e:  # noqa
            syms.append('%s/later-call-raises-%s' % (name, type(e).__name__))
            return syms
        if not ar_seq.same(want, got):
            syms.append('%s/later-call-differs-from-fresh' % name)
            return syms
    return syms


def one_time_names(obj):
    """names declared as one-time properties on the object's class (nitime.descriptors.OneTimeProperty)"""
    from nitime import descriptors as desc
    out = set()
    for klass in type(obj).__mro__:
        for k, v in vars(klass).items():
            if isinstance(v, desc.OneTimeProperty):
                out.add(k)
    return out


def vars_snapshot(obj):
    plain = (int, float, str, bool, type(None), list, tuple, dict, np.integer, np.floating)
    return {k: (id(v), ar_seq.snapshot(v), copy.deepcopy(v) if isinstance(v, plain) else None)
            for k, v in vars(obj).items()}


def vars_delta(obj, before):
    """symptoms of a changed instance dict: an attribute that is not a declared one-time property appeared; an attribute
    disappeared or was re-bound / changed in place"""
    now = vars(obj)
    allowed = one_time_names(obj)
    for k in now:
        if k not in before and k not in allowed:
            return 'private-attribute-left-behind'
    for k, (ident, snap, val) in before.items():
        if k not in now:
            if k in allowed:
                continue
            return 'attribute-removed'
        if ar_seq.mutated(snap):
            return 'attribute-changed-in-place'
        if val is not None and not ar_seq.same(val, now[k]):
            return 'attribute-changed'
        if val is None and id(now[k]) != ident:
            return 'attribute-rebound'
    return None


def strided_recip(a):
    """(P,2,2) array over a (P,3) buffer: `a[:,0,1]` and `a[:,1,0]` are THE SAME memory (values must be reciprocal)"""
    a = np.asarray(a, dtype=float)
    assert np.array_equal(a[:, 0, 1], a[:, 1, 0])
    buf = np.ascontiguousarray(np.stack([a[:, 0, 0], a[:, 0, 1], a[:, 1, 1]], axis=1))
    v = np.lib.stride_tricks.as_strided(buf, shape=(a.shape[0], 2, 2), strides=(buf.strides[0], buf.strides[1], buf.strides[1]))
    assert np.array_equal(v, a)
    return v


def strided_alleq(a):
    """(P,2,2) array over a (P,) buffer: all four entries of a lag are one memory cell"""
    a = np.asarray(a, dtype=float)
    buf = np.ascontiguousarray(a[:, 0, 0])
    v = np.lib.stride_tricks.as_strided(buf, shape=(a.shape[0], 2, 2), strides=(buf.strides[0], 0, 0))
    assert np.array_equal(v, a)
    return v


def analyzer_failure_check(mk_analyzer, inputs, read_attrs, compare_attrs, plain):
    """L7, analyzer objects.  ONE analyzer: constructed on inputs[0], re-targeted with set_input to the others.  At every
    step `read_attrs` are read in try/except ValueError.  A read that raises must leave `vars(analyzer)` as it was (only
    declared one-time attributes may have appeared); at every step whose reads all succeed, `compare_attrs` must equal
    (bitwise) those of a FRESH analyzer on that input.  Returns (symptom, description) or None."""
    G = mk_analyzer(inputs[0])
    for k, inp in enumerate(inputs):
        if k:
            G.set_input(inp)
        before = vars_snapshot(G)
        raised = False
        order = list(read_attrs[k % 2:]) + list(read_attrs[:k % 2])
        for attr in order:
            try:
                getattr(G, attr)
            except ValueError:
                raised = True
                d = vars_delta(G, before)
                if d:
                    return d, 'after reading %s raised at step %d the analyzer holds %s' % (attr, k, sorted(set(vars(G)) - set(before)))
        if not raised:
            F = mk_analyzer(inp)
            for attr in compare_attrs:
                if not ar_seq.same(plain(getattr(F, attr)), plain(getattr(G, attr))):
                    return 'stale-after-failed-read', ('%s after set_input #%d differs from a fresh analyzer on the same input '
                                                       '(an earlier read on another input had raised)' % (attr, k))
    return None


def plain(v):
    """dicts keyed by numpy-integer pairs -> plain tuples, values as arrays"""
    if isinstance(v, dict):
        return {tuple(int(t) for t in k) if isinstance(k, tuple) else k: plain(x) for k, x in v.items()}
    if isinstance(v, (list, tuple)):
        return [np.asarray(x) for x in v]
    return np.asarray(v) if not isinstance(v, (int, float)) else v


def failing_then_good(fit_model, nrng, nproc, N, ij, max_order=3):
    """recordings for which order estimation (default criterion, small max_order) converges for the FIRST pair of `ij` and
    fails for a later one (a strongly autocorrelated last channel: the criterion never rises), and recordings of the same
    channel count for which it converges for every pair"""
    from scipy.signal import lfilter

    def status(x):
        out = []
        for (i, j) in ij:
            try:
                fit_model(x[i], x[j], order=None, max_order=max_order)
                out.append(True)
            except ValueError:
                out.append(False)
        return out
    for _ in range(40):
        bad = nrng.randn(nproc, N)
        bad[-1] = lfilter(np.ones(8) / 8.0, [1.0, -0.9], nrng.randn(N + 100))[100:]
        good = nrng.randn(nproc, int(nrng.choice([N, N + 32])))
        sb, sg = status(bad), status(good)
        if sb[0] and not all(sb) and all(sg):
            return bad, good
    return None, None
