"""C18 — filtering preserves the mean, the time axis and the pass band.

Proved (lean/Nitime/Props/C18.lean): the Fourier-domain filter is an exact projection onto the kept
bins (in-band components and DC unchanged, others zero), idempotent, linear, mean-preserving;
DC restoration restores the mean; the filtfilt wrapper is linear when the external filter is;
band fractions are fractions of the true Nyquist; the boxcar filter keeps the mean (all band
types); the output axis equals the input axis whenever the
generated descriptor forwards rate, t0 and unit.
PARTIAL: FIR / IIR frequency responses (`firwin`, `iirdesign`, `filtfilt` are external) are
probed numerically only (sinusoids well inside / outside the band).

Correspondence: every method x low/high/band-pass x both length parities x 1..4 channels x
units/t0 against the model: `fourier`, `restoredc` through the public `filtfilt(b, a)` wrapper, `firplan` (arguments the
real `fir` hands to `scipy.signal.firwin`, observed by wrapping it from outside), `boxcar`
(Float) and `boxcarq` (Rat), `axis` (forwarding of rate / t0 / unit read off the generated
descriptors vs the real output objects).
Oracle (numpy only, never the Lean model): FFT coefficients of input vs output judged on TRUE bin
frequencies, per-channel means, axis attributes, metamorphic linearity, idempotence, probes.
"""
import json
import numpy as np
import common
import c18_ext as X
import c18_hist as H
import c18_r5 as R5
from common import Case, Failure, f2x, flist, parse_flist, close_vec

PID = 'C18'
LEAN_TARGETS = ['Nitime.Props.C18']
RULE = ('configurations = (method in fir/iir/filtered_fourier/filtered_boxcar) x (low-pass, high-pass, band-pass) x series '
        'length (both parities, 8..64 quick / ..256 thorough; fir/iir lengths > 3*(order+1)) x 1..4 channels x unit in s/ms/us x '
        'zero / non-zero t0 x sampling rates; band edges random off-bin and exactly on-bin; gaussian data with offsets; '
        'distinct = distinct protocol line; non-trivial = data not constant. Session 3 (own random streams): non-default options per method '
        '(windows incl. tuple windows, IIR types / ripples, iteration counts, orders); band edges on a bin and one ulp off (dyadic n, Fs); '
        'families = 7 entry points x int16/int32/int64/uint8/float32/F/strided/read-only/big-endian/float64 x 1-d/2-d/3-d (expectation: the '
        'C-contiguous float64 copy), amplitudes 1e-300..1e300, lb/ub spellings, coefficient spellings; sandwich histories (read all outputs, '
        'other analyzers / options on the same series, scribble, fresh objects) and one fresh-process order reversal; round 4: parameter-stepping histories on ONE analyzer (assign band / options, reset(), re-read every method; widening, narrowing, disjoint, overlapping, option-only, refused settings, input overwritten / re-targeted; expectation = fresh analyzer; harness/c18_hist.py, session model); refused values (3-d boxcar, 0 iterations); round 5: magnitudes (harness/c18_r5.py): all four methods on data scaled by 2^+-43, 2^+-100, 2^+-250 and by a different such gain per channel, expectation gain x the unscaled result (bit-equal for fourier / boxcar, 1e-9 for fir / iir), every scale-free clause re-judged on the scaled data, on-bin sinusoids at those amplitudes, level 2^20..2^24 + fluctuation')
ASSUMPTIONS = ['parameter-stepping histories assign the attributes the getters read (lb, ub, _filt_order, _gpass, _gstop, _ftype, _win, _boxcar_iterations) and re-target by assigning _ts / data / sampling_rate / time_unit as __init__ does, each followed by reset() (ResetMixin protocol); a re-read without reset() legitimately returns the stored object',
               'integer recordings within +-2*10^4 counts (scipy.signal.filtfilt extends the edges as 2*x0 - x in the input dtype); single precision (float32 data, or float32 coefficients with non-float64 data) judged at 1e-5 relative',
               'not generated because the code refuses them / outside the quantifier: 3-d data for the boxcar (checked as a refusal), boxcar_iterations=0 (refusal), lb=None, ub=0, iir_ftype bessel (scipy.signal.iirdesign has no order selection), odd FIR orders, complex data',
               '0 <= lb < ub <= Nyquist; fir/iir series longer than 3*(order+1) (scipy.signal.filtfilt refuses equality)',
               'the projection theorems are over C with an exact primitive root of unity; the Float DFT of the model and scipy.fftpack differ from it by rounding (1e-9 comparison)',
               'bins whose true frequency is within 1e-9 (relative) of a band edge are not judged by the oracle',
               'FIR/IIR pass/stop behaviour is NUMERIC ONLY (probe sinusoids; gain within [0.75, 1.05] in band, < 0.05 out of band, |phase| < 0.05 rad): partial']
TRUSTED_EXTRA = ['Generated/C18Opts.lean (harness/translate_c18.py) as the reading of the option-handling fragments of FilterAnalyzer / boxcar_filter (compared per run with where sentinel option values are seen to arrive: op optflow)',
                 'Float.ofInt as the exact embedding of integer samples (|x| < 2^53) into binary64',
                 'scipy.fftpack.fft/ifft = DFT / inverse DFT (model computes its own naive transform)',
                 'scipy.signal.filtfilt(b, a, x) = Model/FiltFilt.lean (odd padding of 3*max(len a, len b) samples, two direct-form-II-transposed passes started from lfilter_zi*edge sample, trimming): compared with the real FilterAnalyzer.filtfilt on every run (op ffmodel, rtol 1e-8); lfilter_zi(b, a) is taken from scipy as data (it does not depend on the signal)',
                 'scipy.signal.firwin / iirdesign: opaque designs; only their arguments are modelled',
                 'np.convolve, np.ceil, np.mean by their numpy semantics',
                 'Generated/SeriesCalls.lean (harness/translate_c15.py) as the reading of the ts.TimeSeries(...) call sites',
                 'the Float reading (Num.C pairs, cos/sin twiddle table) of the scalar-polymorphic fourierProj whose R/C reading the theorems are about']

UNITS = ['s', 'ms', 'us']
METHODS = ['fir', 'iir', 'filtered_fourier', 'filtered_boxcar']


def nt():
    import nitime.timeseries as ts
    from nitime.analysis import FilterAnalyzer
    return ts, FilterAnalyzer


def mk_series(cfg, data=None):
    ts, _ = nt()
    d = np.array(cfg['data'], dtype='d') if data is None else np.asarray(data, dtype='d')
    if cfg['nch'] == 1 and cfg.get('flat', True):
        d = d.reshape(-1)
    else:
        d = d.reshape(cfg['nch'], -1)
    return ts.TimeSeries(d.copy(), sampling_rate=cfg['fs'], t0=cfg['t0'], time_unit=cfg['unit'])


def run_method(cfg, data=None):
    """fresh analyzer on a fresh series -> (input series, output series)"""
    _, FA = nt()
    T = mk_series(cfg, data)
    kw = {'lb': cfg['lb'], 'ub': cfg['ub']}
    if cfg['method'] in ('fir', 'iir'):
        kw['filt_order'] = cfg.get('order', 8)
    kw.update(X.dec_opts(cfg.get('opts')))
    fa = FA(T, **kw)
    return T, getattr(fa, cfg['method'])


def rows(a):
    a = np.asarray(a, dtype='d')
    return a.reshape(1, -1) if a.ndim == 1 else a


def gen_cfg(rng, nr, method, tier, i):
    big = tier == 'thorough'
    order = rng.choice([4, 8, 8, 12, 16])
    if method in ('fir', 'iir'):
        lo = max(3 * (order + 1) + 1, 40 if method == 'iir' else 0)
        n = rng.randint(lo, lo + (160 if big else 40))
    else:
        n = rng.randint(8, 256 if big and rng.random() < 0.3 else 64)
    if i % 2 != n % 2:
        n += 1                                             # alternate parities deterministically
    odd_wanted = n % 2
    nch = rng.choice([1, 1, 2, 3, 4])
    fs = rng.choice([1.0, 2.0, 10.0, 0.5, 250.0, float(n), rng.uniform(0.5, 100)])
    kind = ['lowpass', 'highpass', 'bandpass'][i % 3]
    nyq = fs / 2
    if method in ('fir', 'iir'):
        a, b = sorted([rng.uniform(0.15, 0.4), rng.uniform(0.5, 0.8)])
    else:
        a, b = sorted([rng.uniform(0.02, 0.98), rng.uniform(0.02, 0.98)])
        if b - a < 0.05:
            a, b = 0.2, 0.7
        if method == 'filtered_fourier' and rng.random() < 0.3:   # exactly on a bin: dyadic n and Fs, so that every
            n = rng.choice([8, 16, 32, 64])                       # float formula for the bin frequency is exact
            fs = rng.choice([1.0, 2.0, 0.5, 16.0, float(n)])
            nyq = fs / 2
            k1 = rng.randint(1, max(1, n // 2 - 1))
            k2 = rng.randint(k1, n // 2)
            a, b = (k1 * fs / n) / nyq, (k2 * fs / n) / nyq
            if a >= b:
                a = 0.5 * b
    lb, ub = a * nyq, b * nyq
    if kind == 'lowpass':
        lb = 0
    elif kind == 'highpass':
        ub = None
    unit = rng.choice(UNITS)
    t0 = rng.choice([0.0, 0.0, 3.5, 120.0, 0.25])
    data = nr.randn(nch, n) * nr.uniform(0.5, 5) + nr.uniform(-20, 20, (nch, 1))
    return {'method': method, 'kind': kind, 'n': n, 'nch': nch, 'fs': float(fs), 'lb': float(lb), 'ub': None if ub is None else float(ub),
            'unit': unit, 't0': float(t0), 'order': order, 'flat': bool(rng.random() < 0.7),
            'data': [float(v) for v in data.ravel()]}


def tok_ub(ub):
    return 'none' if ub is None else f2x(ub)


def cmp_vec(rtol=1e-9):
    def cmp(impl, model):
        a, m = impl.split(), model.split()
        if a[0] != 'ok' or m[0] != 'ok':
            return impl == model
        return close_vec(parse_flist(a[1]), parse_flist(m[1]), rtol=rtol)
    return cmp


def cmp_plan(impl, model):
    a, m = impl.split(), model.split()
    if a[0] != 'ok' or m[0] != 'ok':
        return impl == model
    if len(a) != len(m) or a[1] != m[1]:
        return False
    for x, y in zip(a[2:], m[2:]):
        if (x == '-') != (y == '-'):
            return False
        if x != '-' and not close_vec([common.x2f(x)], [common.x2f(y)], rtol=1e-12):
            return False
    return True


def observe_fir(cfg):
    """run the real `fir` with scipy.signal.firwin wrapped from outside: which designs are requested"""
    import scipy.signal as sp_signal

    class sp:                      # the real module (nitime reaches it through a lazy proxy)
        signal = sp_signal
    calls = []
    orig = sp.signal.firwin

    def spy(numtaps, cutoff, *a, **k):
        calls.append((int(numtaps), float(cutoff)))
        return orig(numtaps, cutoff, *a, **k)
    sp.signal.firwin = spy
    try:
        r = common.call(lambda: run_method(cfg))
    finally:
        sp.signal.firwin = orig
    if isinstance(r, str):
        return r
    _, FA = nt()
    ntaps = cfg['order'] + 1
    # which call is which: the low-pass design comes first when both are made
    fs = cfg['fs']
    lp = hp = None
    ubf = 1.0 if cfg['ub'] is None else cfg['ub'] / (fs / 2.)
    for (t, c) in calls:
        if t != ntaps:
            return 'ok %d taps-mismatch -' % t
    if len(calls) == 2:
        lp, hp = calls[0][1], calls[1][1]
    elif len(calls) == 1:
        if ubf < 1:
            lp = calls[0][1]
        else:
            hp = calls[0][1]
    return 'ok %d %s %s' % (ntaps, '-' if lp is None else f2x(lp), '-' if hp is None else f2x(hp))


def observe_iir(cfg):
    """run the real `iir` with scipy.signal.iirdesign wrapped from outside: the band edges it asks for"""
    import scipy.signal as sp_signal
    calls = []
    orig = sp_signal.iirdesign

    def spy(wp, ws, *a, **k):
        calls.append((np.atleast_1d(np.asarray(wp, dtype='d')).tolist(), np.atleast_1d(np.asarray(ws, dtype='d')).tolist()))
        return orig(wp, ws, *a, **k)
    sp_signal.iirdesign = spy
    try:
        r = common.call(lambda: run_method(cfg))
    finally:
        sp_signal.iirdesign = orig
    if isinstance(r, str):
        return r
    if len(calls) != 1:
        return 'ok %d-designs -' % len(calls)
    return 'ok %s %s' % (flist(calls[0][0]), flist(calls[0][1]))


def cmp_lists(rtol):
    def cmp(impl, model):
        a, m = impl.split(), model.split()
        if a[0] != 'ok' or m[0] != 'ok' or len(a) != len(m):
            return impl == model
        try:
            return all(close_vec(parse_flist(x), parse_flist(y), rtol=rtol) for x, y in zip(a[1:], m[1:]))
        except Exception:
            return False
    return cmp


def emit_cfg(cfg, rng, nr, out):
    """all correspondence lines of one configuration (same order of random draws as ever)"""
    from scipy import signal
    ts, FA = nt()
    method = cfg['method']
    meta = {'kind': 'cfg', 'cfg': cfg}
    r = common.call(lambda: run_method(cfg))
    clause = '%s/%s' % (method, cfg['kind'])
    nontriv = True
    if isinstance(r, str):
        out.append(Case('C18 axis %s' % method, r, clause + '/runs', meta=meta))
        return
    T, O = r
    din, dout = rows(T.data), rows(O.data)
    fsr = float(T.sampling_rate)      # the rate the analyzer sees (re-derived from the stored interval)
    # ---- axis: forwarding of rate / t0 / unit
    if cfg['unit'] != 's' and cfg['t0'] != 0:
        flags = (int(O.sampling_interval == T.sampling_interval), int(np.all(np.asarray(O.t0) == np.asarray(T.t0))),
                 int(O.time_unit == T.time_unit))
        out.append(Case('C18 axis %s' % method, 'ok %d %d %d' % flags, 'axis/' + method, meta=meta))
    if dout.shape != din.shape:
        out.append(Case('C18 axis %s' % method, 'shape %s' % (dout.shape,), clause + '/shape', meta=meta))
        return
    chans = list(range(cfg['nch']))[:2]
    if method == 'filtered_fourier':
        for c in chans:
            out.append(Case('C18 fourier %s %s %s %s' % (f2x(fsr), f2x(cfg['lb']), tok_ub(cfg['ub']), flist(din[c])),
                            'ok ' + flist(dout[c]), clause, cmp=cmp_vec(), meta=dict(meta, ch=c)))
    elif method == 'filtered_boxcar':
        for c in chans:
            out.append(Case('C18 boxcar %s %s %s %s' % (f2x(fsr), f2x(cfg['lb']), tok_ub(cfg['ub']), flist(din[c])),
                            'ok ' + flist(dout[c]), clause, cmp=cmp_vec(), meta=dict(meta, ch=c)))
    elif method == 'fir':
        out.append(Case('C18 firplan %s %s %s %d %d' % (f2x(fsr), f2x(cfg['lb']), tok_ub(cfg['ub']), cfg['order'], cfg['n']),
                        observe_fir(cfg), 'fir/plan/' + cfg['kind'], cmp=cmp_plan, meta=meta))
    elif method == 'iir':
        out.append(Case('C18 iirplan %s %s %s' % (f2x(fsr), f2x(cfg['lb']), tok_ub(cfg['ub'])),
                        observe_iir(cfg), 'iir/plan/' + cfg['kind'], cmp=cmp_lists(1e-12), meta=meta))
    # ---- the public filtfilt wrapper with a random (b, a): DC restoration
    if method in ('fir', 'iir'):
        b = nr.uniform(-1, 1, rng.randint(2, max(2, min(6, (cfg['n'] - 1) // 3))))   # filtfilt needs n > 3*len(b)
        a = np.array([1.0]) if method == 'fir' else np.array([1.0, nr.uniform(-0.6, 0.6)])
        Tn = mk_series(cfg)
        r2 = common.call(lambda: FA(Tn).filtfilt(b, a))
        if isinstance(r2, str):
            out.append(Case('C18 restoredc - -', r2, 'filtfilt/wrapper', meta=meta))
        else:
            d2 = rows(r2.data)
            for c in chans[:1]:
                raw = signal.filtfilt(b, a, din[c])
                out.append(Case('C18 restoredc %s %s' % (flist(din[c]), flist(raw)), 'ok ' + flist(d2[c]), 'filtfilt/wrapper',
                                cmp=cmp_vec(), meta=dict(meta, ch=c, wrapper={'b': b.tolist(), 'a': a.tolist()})))


def cases(rng, tier, seed):
    big = tier == 'thorough'
    nr = common.np_rng(PID, seed, 'data')
    out = []
    ncfg = 1000 if big else 120       # per method
    from scipy import signal
    ts, FA = nt()
    for method in METHODS:
        for i in range(ncfg):
            emit_cfg(gen_cfg(rng, nr, method, tier, i), rng, nr, out)
    # ---- scipy.signal.filtfilt ITSELF against its model (Model/FiltFilt.lean: odd padding, two direct-form-II-transposed
    # passes started from zi*edge, trimming), through the public FilterAnalyzer.filtfilt wrapper: real FIR designs
    # (firwin, as `fir` uses them, incl. the spectral inversion) and low-order IIR designs; zi = lfilter_zi is data
    for i in range(60 if big else 14):
        n = rng.randint(20, 200 if big else 70)
        nch = rng.choice([1, 1, 2])
        x = nr.standard_normal((nch, n)) * 10.0 ** rng.randint(-3, 3) + nr.uniform(-5, 5)
        kind = rng.choice(['firlow', 'firhigh', 'iir', 'rand'])
        if kind in ('firlow', 'firhigh'):
            ntaps = 2 * rng.randint(1, max(1, min(8, (n - 2) // 6 - 1))) + 1
            b = signal.firwin(ntaps, rng.uniform(0.1, 0.8))
            if kind == 'firhigh':
                b = -b
                b[ntaps // 2] += 1
            a = np.array([1.0])
        elif kind == 'iir':
            b, a = signal.butter(rng.randint(1, 3), rng.uniform(0.15, 0.7), btype=rng.choice(['low', 'high']))
        else:
            b = nr.uniform(-1, 1, rng.randint(2, 5))
            a = np.array([1.0, nr.uniform(-0.5, 0.5)])
        K = max(len(a), len(b))
        if n <= 3 * K + 1:
            continue
        bn = np.r_[b / a[0], np.zeros(K - len(b))]
        an = np.r_[a / a[0], np.zeros(K - len(a))]
        zi = signal.lfilter_zi(b, a)
        T = ts.TimeSeries(x if nch > 1 else x[0], sampling_interval=rng.choice([0.5, 1.0, 2.0]))
        r2 = common.call(lambda: FA(T).filtfilt(b, a))
        meta = {'kind': 'ffmodel', 'design': kind, 'b': b.tolist(), 'a': a.tolist(), 'n': n, 'nch': nch}
        if isinstance(r2, str):
            out.append(Case('C18 ffmodel - - - 0 -', r2, 'filtfilt/model', meta=meta))
            continue
        d2 = rows(r2.data)
        c = rng.randrange(nch)
        out.append(Case('C18 ffmodel %s %s %s %d %s' % (flist(bn), flist(an), flist(zi), 3 * K, flist(rows(T.data)[c])),
                        'ok ' + flist(d2[c]), 'filtfilt/model/' + kind, cmp=cmp_vec(1e-8), meta=dict(meta, ch=c)))
    # ---- fir guard: out-of-range bands must be refused
    for i in range(40 if big else 8):
        cfg = gen_cfg(rng, nr, 'fir', tier, i)
        if i % 2:
            cfg['ub'] = cfg['fs'] / 2 * rng.uniform(1.01, 1.5)
        else:
            cfg['lb'] = -abs(cfg['lb']) - 0.1
        out.append(Case('C18 firplan %s %s %s %d %d' % (f2x(cfg['fs']), f2x(cfg['lb']), tok_ub(cfg['ub']), cfg['order'], cfg['n']),
                        observe_fir(cfg), 'fir/plan/guard', cmp=cmp_plan, meta={'kind': 'guard', 'cfg': cfg}))
    # ---- boxcar on exact rationals (Rat instance of the same model)
    import nitime.algorithms as tsa
    for i in range(200 if big else 30):
        n = rng.randint(3, 14)
        xs = [rng.randint(-9, 9) for _ in range(n)]
        mub = rng.choice([1, 1, 2, 3, 4])
        mlb = rng.choice([None, 2, 3, 5, 8])
        ub = 1.0 / (2 * mub)                                # ceil(1/(2 ub)) = mub
        lb = 0 if mlb is None else 1.0 / (2 * mlb)
        r = common.call(lambda: tsa.boxcar_filter(np.array(xs, dtype='d'), lb=lb, ub=ub))
        impl = r if isinstance(r, str) else 'ok ' + flist(np.atleast_1d(r))

        def cmp_q(impl, model):
            if not (impl.startswith('ok ') and model.startswith('ok ')):
                return impl == model
            from fractions import Fraction
            got = parse_flist(impl.split()[1])
            return close_vec(got, [float(Fraction(t)) for t in model.split()[1].split(',')], rtol=1e-12)
        out.append(Case('C18 boxcarq %d %s %s' % (mub, 'none' if mlb is None else mlb, ','.join(str(v) for v in xs)), impl,
                        'boxcar/exact', cmp=cmp_q, meta={'kind': 'boxq', 'xs': xs, 'mub': mub, 'mlb': mlb}))
    # ==== session 3 (own random streams: the cases above are the same as ever) ====
    import random
    # ---- L3: non-default optional parameters (windows incl. tuple windows, IIR types / ripples, iteration counts, orders)
    xr = random.Random('C18-opts-%d' % seed)
    nr2 = common.np_rng(PID, seed, 'optdata')
    for method in METHODS:
        for i in range(150 if big else 24):
            emit_cfg(with_opts(gen_cfg(xr, nr2, method, tier, i), xr, nr2), xr, nr2, out)
    # ---- L4: band edges exactly on a bin and ONE ULP off (dyadic n and Fs: every float formula for the bin frequency is
    # exact, so the closed band [lb, ub] decides the bin with no tolerance — in the code, the model and the oracle)
    er = random.Random('C18-edges-%d' % seed)
    for i in range(60 if big else 16):
        cfg = gen_cfg(er, nr2, 'filtered_fourier', tier, i)
        n = er.choice([8, 16, 32, 64])
        fs = er.choice([1.0, 2.0, 0.5, 16.0, float(n)])
        k1 = er.randint(1, n // 2 - 1)
        k2 = er.randint(k1, n // 2)

        def nudge(f):
            return float(er.choice([f, np.nextafter(f, np.inf), np.nextafter(f, -np.inf)]))
        lb, ub = nudge(k1 * fs / n), nudge(k2 * fs / n)
        kind = er.choice(['lowpass', 'highpass', 'bandpass'])
        if kind == 'lowpass':
            lb = 0.0
        elif kind == 'highpass':
            ub = None
        if ub is not None and not lb < ub:
            continue
        d = nr2.randn(cfg['nch'], n) * 3 + nr2.uniform(-5, 5, (cfg['nch'], 1))
        cfg.update(n=n, fs=fs, lb=float(lb), ub=ub, kind=kind, data=[float(v) for v in d.ravel()])
        emit_cfg(cfg, er, nr2, out)
    # ---- L1 / L4: dtype / layout / dimension families and amplitudes for every entry point
    for m in X.family_members(seed, tier):
        out += X.fam_cases(m)
    # ---- refused values (boxcar_iterations=0, 3-d data for the boxcar) and the n-d boxcar on small integers
    out += X.refusal_cases(seed)
    # ---- L3: where each optional parameter arrives, observed from outside vs the generated option-flow table
    out.append(Case('C18 optflow', X.observe_optflow(), 'options/flow', meta={'kind': 'optflow'}))
    # ---- L2 / L6: second passes of the sandwich histories
    hr = random.Random('C18-sandwich-%d' % seed)
    for i in range(20 if big else 6):
        f, cs = X.sandwich(hr.randint(0, 10**6), want_cases=True)
        out += cs
    # ---- L2 / L6 / L7 (round 4): parameter-stepping histories on ONE analyzer (assign, reset(), re-read every method),
    # one protocol line per history and judged channel through the Lean session model (op `session`)
    for sd, full in H.seeds(seed, tier):
        r = common.call(lambda: H.history(sd, full, want_cases=True)[1])
        if isinstance(r, str):
            out.append(Case('C18 session - - - -', r, 'history/session/runs', meta={'kind': 'hist', 'sd': sd, 'full': full, 'ch': 0}))
        else:
            out += r
    return out


def with_opts(cfg, xr, nr):
    m = cfg['method']
    opts = {}
    if m == 'fir':
        opts['fir_win'] = xr.choice(X.FIR_WINS)
    elif m == 'iir':
        ft, gp, gs = xr.choice(X.IIR_OPTS)
        opts.update(iir_ftype=ft, gpass=gp, gstop=gs)
        if cfg['n'] < 72:                       # the designs reach 15 coefficients: filtfilt needs n > 3*15
            cfg['n'] += 32
            d = nr.randn(cfg['nch'], cfg['n']) * nr.uniform(0.5, 5) + nr.uniform(-20, 20, (cfg['nch'], 1))
            cfg['data'] = [float(v) for v in d.ravel()]
    elif m == 'filtered_boxcar':
        opts['boxcar_iterations'] = xr.choice([1, 3, 4, 7])
    else:
        opts.update(filt_order=xr.choice([2, 5]), fir_win='hann', gstop=xr.choice([10, 30]))   # not used by the Fourier filter
    cfg['opts'] = opts
    return cfg


# ------------------------------------------------------------------ oracle
def band_kind(cfg):
    return cfg['kind']


def judge_cfg(cfg, case=None, deep=True):
    """all property clauses for one configuration, on the real code only"""
    fails = []
    method = cfg['method']
    rep = {'kind': 'cfg', 'cfg': cfg}

    def fail(key, what):
        fails.append(Failure(key, '%s %s n=%d nch=%d Fs=%g lb=%g ub=%s unit=%s t0=%g: %s' % (
            method, cfg['kind'], cfg['n'], cfg['nch'], cfg['fs'], cfg['lb'], cfg['ub'], cfg['unit'], cfg['t0'], what), dict(rep, key=key), case=case))
    r = common.call(lambda: run_method(cfg))
    if isinstance(r, str):
        fail('%s/raises/%s' % (method, r.split()[-1]), r)
        return fails
    T, O = r
    din, dout = rows(T.data), rows(O.data)
    n, fs = cfg['n'], cfg['fs']
    par = 'odd' if n % 2 else 'even'
    if np.asarray(O.data).shape != np.asarray(T.data).shape:
        fail('shape/' + method, 'output shape %s, input %s' % (np.asarray(O.data).shape, np.asarray(T.data).shape))
        return fails
    if O.sampling_interval != T.sampling_interval:
        fail('axis/%s/interval' % method, 'sampling interval %r -> %r' % (T.sampling_interval, O.sampling_interval))
    if not np.all(np.asarray(O.t0) == np.asarray(T.t0)):
        fail('axis/%s/t0' % method, 'start time %r -> %r' % (T.t0, O.t0))
    if O.time_unit != T.time_unit:
        fail('axis/%s/unit' % method, 'time unit %r -> %r' % (T.time_unit, O.time_unit))
    elif len(O.time) != len(T.time) or not np.all(np.asarray(O.time) == np.asarray(T.time)):
        fail('axis/%s/time' % method, 'time axis differs')
    scale = max(np.abs(din).max(), 1e-300)
    dm = np.abs(dout.mean(axis=1) - din.mean(axis=1)).max()
    if dm > 1e-9 * scale:
        fail('mean/%s/%s' % (method, cfg['kind']), 'channel mean changed by %.3g (scale %.3g)' % (dm, scale))
    if method == 'filtered_fourier':
        X, Y = np.fft.fft(din, axis=1), np.fft.fft(dout, axis=1)
        k = np.arange(n)
        ftrue = np.minimum(k, n - k) * fs / n
        lb = cfg['lb']
        ub = fs / 2 if cfg['ub'] is None else cfg['ub']
        eps = 1e-9 * max(fs, 1)
        inside = ((ftrue > lb + eps) & (ftrue < ub - eps)) | (k == 0)
        outside = ((ftrue < lb - eps) | (ftrue > ub + eps)) & (k != 0)
        # bins whose frequency the binary64 formula (k/n)*Fs yields EXACTLY (dyadic n and Fs, …) are judged on the
        # closed band [lb, ub] with no tolerance: a bin exactly on an edge (incl. the Nyquist bin for ub=None) is kept
        from fractions import Fraction as Fr
        for kk_ in range(1, n):
            kh = min(kk_, n - kk_)
            if Fr(float(kh) / n) == Fr(kh, n) and Fr((float(kh) / n) * fs) == Fr(kh, n) * Fr(fs):
                fe = Fr(kh, n) * Fr(fs)
                ube = Fr(fs) / 2 if cfg['ub'] is None else Fr(cfg['ub'])
                if Fr(lb) <= fe <= ube:
                    inside[kk_] = True
                    outside[kk_] = False
                else:
                    outside[kk_] = True
                    inside[kk_] = False
        tol = 1e-9 * np.abs(X).max()
        bad_in = np.abs(Y - X)[:, inside].max() if inside.any() else 0
        bad_out = np.abs(Y)[:, outside].max() if outside.any() else 0
        if bad_in > tol:
            kk = int(k[inside][np.argmax(np.abs(Y - X)[:, inside].max(axis=0))])
            fail('fourier/projection/%s/in-band-changed' % par, 'bin %d (true frequency %.6g, inside [%g, %g]) changed by %.3g' % (kk, ftrue[kk], lb, ub, bad_in))
        if bad_out > tol:
            kk = int(k[outside][np.argmax(np.abs(Y)[:, outside].max(axis=0))])
            fail('fourier/projection/%s/out-of-band-kept' % par, 'bin %d (true frequency %.6g, outside [%g, %g]) kept with magnitude %.3g' % (kk, ftrue[kk], lb, ub, bad_out))
        if deep:
            r2 = common.call(lambda: run_method(cfg, data=dout))
            if isinstance(r2, str):
                fail('fourier/idempotent/raises', r2)
            elif np.abs(rows(r2[1].data) - dout).max() > 1e-9 * scale:
                fail('fourier/idempotent/' + par, 'filtering twice differs from filtering once by %.3g' % np.abs(rows(r2[1].data) - dout).max())
    if deep:
        nr = np.random.RandomState(cfg['n'] * 7 + cfg['nch'])
        y = nr.randn(*din.shape) * 3 + 1
        al, be = 1.7, -0.6
        ra = common.call(lambda: (run_method(cfg, data=y)[1], run_method(cfg, data=al * din + be * y)[1]))
        if isinstance(ra, str):
            fail('linear/%s/raises' % method, ra)
        else:
            lhs = rows(ra[1].data)
            rhs = al * dout + be * rows(ra[0].data)
            sc = max(np.abs(lhs).max(), np.abs(rhs).max(), 1e-300)
            if np.abs(lhs - rhs).max() > 1e-8 * sc:
                fail('linear/%s' % method, 'F(a x + b y) differs from a F(x) + b F(y) by %.3g (scale %.3g)' % (np.abs(lhs - rhs).max(), sc))
    return fails


def probe(method, kind, rng, opts=None):
    """FIR / IIR on sinusoids well inside / outside the band (numeric only)"""
    ts, FA = nt()
    n, fs = 1024, 1.0
    t = np.arange(n)
    if kind == 'lowpass':
        lb, ub, fin, fout = 0, 0.15, 0.04, 0.35
    elif kind == 'highpass':
        lb, ub, fin, fout = 0.2, None, 0.4, 0.03
    else:
        lb, ub, fin, fout = 0.12, 0.3, 0.2, 0.45
    ph = rng.uniform(0, 2 * np.pi)
    res = {}
    for name, f in (('in', fin), ('out', fout)):
        x = np.sin(2 * np.pi * f * t + ph) + 5.0
        T = ts.TimeSeries(x, sampling_rate=fs)
        o = getattr(FA(T, lb=lb, ub=ub, **X.dec_opts(opts)), method).data - 5.0
        mid = slice(n // 4, 3 * n // 4)
        c = 2 * np.mean(o[mid] * np.exp(-1j * (2 * np.pi * f * t[mid] + ph)))     # complex amplitude relative to sin(.. + ph)
        gain, phase = abs(c), np.angle(c * 1j)       # sin = Im: amplitude of sin component is c*1j
        res[name] = (gain, phase)
    rep = {'kind': 'probe', 'method': method, 'band': kind, 'ph': ph, 'opts': opts}
    kind = kind + ('' if not opts else '/options')
    g_in, p_in = res['in']
    g_out = res['out'][0]
    if not (0.75 <= g_in <= 1.05) or abs(p_in) > 0.05:
        return Failure('probe/%s/%s/pass-band' % (method, kind), '%s %s: in-band sinusoid gain %.4f phase %.4f rad' % (method, kind, g_in, p_in), rep)
    if g_out > 0.05:
        return Failure('probe/%s/%s/stop-band' % (method, kind), '%s %s: out-of-band sinusoid gain %.4f' % (method, kind, g_out), rep)
    return None


def judge_boxq(m, case=None):
    """boxcar on small integer data, recomputed with Fractions (own implementation of the documented steps)"""
    from fractions import Fraction as Fr
    import nitime.algorithms as tsa
    xs, mub, mlb = m['xs'], m['mub'], m['mlb']
    ub = 1.0 / (2 * mub)
    lb = 0 if mlb is None else 1.0 / (2 * mlb)
    r = common.call(lambda: tsa.boxcar_filter(np.array(xs, dtype='d'), lb=lb, ub=ub))
    if isinstance(r, str):
        return Failure('boxcar/raises', 'boxcar_filter raised: ' + r, m, case=case)
    got = np.atleast_1d(r)
    x = np.array(xs, dtype='d')
    if mlb is not None and mub == 1 and abs(got.mean() - x.mean()) > 1e-9 * max(1, np.abs(x).max()):
        return Failure('mean/boxcar_filter/highpass', 'high-pass boxcar changed the mean: %r -> %r' % (x.mean(), got.mean()), m, case=case)
    return None


def robust(name, sd):
    """second-wave classes on the real code: repeated calls / twin analyzers (memoised designs), input
    overwritten in place between calls (identity-keyed memo), Fortran / transposed-view / strided data,
    outputs not aliasing inputs, read orders on one analyzer, filtfilt(in_ts=...) re-targeting."""
    import random
    ts, FA = nt()
    rng = random.Random(sd)
    nr = np.random.RandomState(sd)
    rep = {'kind': 'robust', 'name': name, 'sd': sd}
    n = rng.choice([64, 65, 90, 121])
    nch = rng.choice([1, 2, 3])
    fs = rng.choice([1.0, 10.0, 250.0])
    kind = rng.choice(['lowpass', 'highpass', 'bandpass'])
    lb = 0 if kind == 'lowpass' else 0.2 * fs / 2
    ub = None if kind == 'highpass' else 0.6 * fs / 2
    kw = dict(lb=lb, ub=ub, filt_order=8)
    unit = rng.choice(UNITS)
    data = nr.randn(nch, n) * 3 + nr.uniform(-5, 5, (nch, 1))

    def series(d):
        return ts.TimeSeries(d, sampling_rate=fs, t0=2.5, time_unit=unit)

    def out(T, m, **k2):
        return np.array(getattr(FA(T, **dict(kw, **k2)), m).data, dtype='d')

    def bad(what):
        return Failure('robust/' + name, 'robustness %s (n=%d nch=%d Fs=%g %s unit=%s): %s' % (name, n, nch, fs, kind, unit, what), rep)

    def same(a, b, tol=0.0):
        a, b = np.asarray(a), np.asarray(b)
        return a.shape == b.shape and np.abs(a - b).max() <= tol * max(1.0, np.abs(b).max())
    if name == 'repeat-and-twins':
        T = series(data.copy())
        for m in METHODS:
            r1 = out(T, m)
            r1c = r1.copy()
            r2 = out(T, m)                          # second analyzer, identical settings, same series object
            fa = FA(T, **kw)
            o = getattr(fa, m)
            o.data[...] = 1e9                       # scribble on a returned series
            r3 = out(T, m)
            if not (same(r2, r1c) and same(r3, r1c)):
                return bad('%s: an identical second analyzer gives a different result (after the first result was read / modified)' % m)
            if not same(T.data, data):
                return bad('%s: the input series data changed' % m)
            T2 = series(data.copy() * 2.0 + 1.0)    # different data, same settings: no stale design / result
            r4 = out(T2, m)
            r4f = out(series(data.copy() * 2.0 + 1.0), m)
            if not same(r4, r4f):
                return bad('%s: result depends on what was filtered before' % m)
        return None
    if name == 'overwrite-in-place':
        arr = data.copy()
        T = series(arr)
        for m in METHODS:
            arr[...] = data
            first = out(T, m)
            new = nr.randn(*data.shape) + 4.0
            T.data[...] = new                       # same array object, new contents
            got = out(T, m)
            want = out(series(new.copy()), m)
            if not same(got, want, 1e-12):
                return bad('%s: after overwriting the input data in place the OLD result is returned' % m)
        return None
    if name == 'layout':
        if nch == 1:
            data = np.vstack([data, data[::-1] * 0.5 + 1])
        ref = {m: out(series(data.copy()), m) for m in METHODS}
        for lab, arr in (('fortran', np.asfortranarray(data)), ('transposed-view', np.ascontiguousarray(data.T).T),
                         ('strided', np.repeat(data, 2, axis=1)[:, ::2])):
            for m in METHODS:
                keep = arr.copy()
                got = out(series(arr), m)
                if not same(got, ref[m], 1e-11):
                    return bad('%s on a %s input differs from the C-contiguous result by %.3g' % (m, lab, np.abs(got - ref[m]).max()))
                if not same(arr, keep):
                    return bad('%s modified its %s input' % (m, lab))
        return None
    if name == 'no-alias':
        for m in METHODS:
            T = series(data.copy())
            fa = FA(T, **kw)
            o = getattr(fa, m)
            if np.shares_memory(np.asarray(o.data), np.asarray(T.data)):
                return bad('%s: output data shares memory with the input data' % m)
            t_before = np.array(T.time)
            o.data[...] = -1.0
            try:
                np.asarray(o.time)[...] = 0
            except (ValueError, TypeError):
                pass
            if not same(T.data, data) or not np.array_equal(np.array(T.time), t_before):
                return bad('%s: modifying the returned series changed the input series' % m)
            if m in ('fir', 'iir') and not same(out(T, m), out(series(data.copy()), m)):
                return bad('%s: later reads are affected by modifying an earlier result' % m)
        return None
    if name == 'read-order':
        fresh = {m: out(series(data.copy()), m) for m in METHODS}
        order = METHODS[:]
        rng.shuffle(order)
        fa = FA(series(data.copy()), **kw)
        for m in order:
            got = np.array(getattr(fa, m).data)
            if not same(got, fresh[m], 1e-12):
                return bad('reading %s after %s on one analyzer differs from a fresh analyzer' % (m, order[:order.index(m)]))
        return None
    if name == 'filtfilt-in_ts':
        b = nr.uniform(-1, 1, 4)
        a = np.array([1.0, 0.3])
        T1, T2 = series(data.copy()), ts.TimeSeries(nr.randn(nch, n + 7), sampling_rate=2 * fs, t0=9.0, time_unit='ms')
        o = FA(T1, **kw).filtfilt(b, a, in_ts=T2)
        w = FA(T2).filtfilt(b, a)
        if not same(o.data, w.data) or o.time_unit != T2.time_unit or o.sampling_interval != T2.sampling_interval or not np.all(np.asarray(o.t0) == np.asarray(T2.t0)):
            return bad('filtfilt(in_ts=other) is not the filter of `other` on its own axis')
        return None
    return None


ROBUST = ['repeat-and-twins', 'overwrite-in-place', 'layout', 'no-alias', 'read-order', 'filtfilt-in_ts']


def oracle(rng, tier, seed, focus, cases_=None):
    fails, seen, nj = [], set(), 0
    focus_ids = {id(c) for c in focus}
    for c in (cases_ or []):
        m = c.meta or {}
        if m.get('kind') == 'cfg':
            key = (m['cfg']['method'], m['cfg']['n'], m['cfg']['lb'], m['cfg']['ub'], m['cfg']['data'][0])
            if key in seen and id(c) not in focus_ids:
                continue
            first = key not in seen
            seen.add(key)
            nj += 1
            fs_ = judge_cfg(m['cfg'], case=c, deep=first)
            fails += fs_
        elif m.get('kind') == 'boxq':
            f = judge_boxq(m, c)
            if f:
                fails.append(f)
    # ---- session 3: families (every member is judged, whether or not it produced a model line), histories, options
    import random
    fam_of_case = {}
    for c in (cases_ or []):
        if (c.meta or {}).get('kind') == 'fam':
            fam_of_case.setdefault(json.dumps(c.meta, sort_keys=True), c)
    n_fam = 0
    for m in X.family_members(seed, tier):
        n_fam += 1
        fl, _ = X.judge_fam(m, case=fam_of_case.get(json.dumps(m, sort_keys=True)))
        fails += fl
    hr = random.Random('C18-sandwich-%d' % seed)
    n_sw = 0
    for i in range(60 if tier == 'thorough' else 16):
        n_sw += 1
        sd = hr.randint(0, 10**6)
        r = common.call(lambda: X.sandwich(sd)[0])
        if isinstance(r, str):
            fails.append(Failure('sandwich/raises', 'history sd=%d raised %s' % (sd, r), {'kind': 'sandwich', 'sd': sd}))
        elif r:
            fails.append(r)
    hist_case = {(c.meta['sd'], c.meta['full']): c for c in (cases_ or []) if (c.meta or {}).get('kind') == 'hist' and c.meta.get('ch') == 0}
    n_hist = 0
    for sd, full in H.seeds(seed, tier):
        n_hist += 1
        r = common.call(lambda: H.history(sd, full, case_of=hist_case.get((sd, full)))[2])
        if isinstance(r, str):
            fails.append(Failure('history/raises', 'history sd=%d raised %s' % (sd, r), {'kind': 'hist', 'sd': sd, 'full': full}))
        else:
            fails += r
    for i in range(10 if tier == 'thorough' else 3):
        sd = hr.randint(0, 10**6)
        r = common.call(lambda: X.option_equiv(sd))
        if isinstance(r, str):
            fails.append(Failure('options/raises', 'option equivalences sd=%d raised %s' % (sd, r), {'kind': 'optequiv', 'sd': sd}))
        elif r:
            fails.append(r)
    for i in range(3 if tier == 'thorough' else 1):
        r = common.call(lambda: X.order_history(seed * 10 + i))
        if isinstance(r, str):
            fails.append(Failure('order/raises', 'order history raised %s' % r, {'kind': 'order', 'seed': seed * 10 + i}))
        elif r:
            fails.append(r)
    nprobe = 0
    for method, table in (('fir', X.FIR_WINS), ('iir', X.IIR_OPTS)):
        for kind in ('lowpass', 'highpass', 'bandpass'):
            for _ in range(3 if tier == 'thorough' else 1):
                nprobe += 1
                ch = hr.choice(table if method == 'fir' else [t for t in table if t[1] <= 1])   # filtfilt applies the design twice: 2*gpass dB of
                #                                                       pass-band ripple is within the design for gpass > 1 (not judged: 'near-unit gain')
                opts = {'fir_win': ch} if method == 'fir' else {'iir_ftype': ch[0], 'gpass': ch[1], 'gstop': ch[2]}
                r = common.call(lambda: probe(method, kind, rng if False else hr, opts))
                if isinstance(r, str):
                    fails.append(Failure('probe/%s/%s/options/raises' % (method, kind), 'probe with %s raised: %s' % (opts, r), {'kind': 'probe', 'method': method, 'band': kind, 'ph': 0.3, 'opts': opts}))
                elif r:
                    fails.append(r)
    for method in ('fir', 'iir'):
        for kind in ('lowpass', 'highpass', 'bandpass'):
            for _ in range(3 if tier == 'thorough' else 1):
                nprobe += 1
                r = common.call(lambda: probe(method, kind, rng))
                if isinstance(r, str):
                    fails.append(Failure('probe/%s/%s/raises' % (method, kind), 'probe raised: ' + r, {'kind': 'probe', 'method': method, 'band': kind, 'ph': 0.3}))
                elif r:
                    fails.append(r)
    n_rb = 0
    for name in ROBUST:
        for _ in range(8 if tier == 'thorough' else 2):
            n_rb += 1
            sd = rng.randint(0, 10**6)
            r = common.call(lambda: robust(name, sd))
            if isinstance(r, str):
                fails.append(Failure('robust/%s/raises' % name, 'robustness %s raised: %s' % (name, r), {'kind': 'robust', 'name': name, 'sd': sd}))
            elif r:
                fails.append(r)
    # ---- round 5 (L10): extreme / lopsided power-of-two magnitudes, all four methods (harness/c18_r5.py)
    f5, n_sc = R5.judge(seed, tier)
    fails += f5
    keys = {}
    for f in fails:
        keys[f.key] = keys.get(f.key, 0) + 1
    return fails, {'magnitude_experiments': n_sc, 'family_members_judged': n_fam, 'sandwich_histories': n_sw, 'parameter_stepping_histories': n_hist, 'configurations_judged': nj, 'probes_numeric_only': nprobe, 'robustness_experiments': n_rb, 'failed': len(fails), 'failure_keys': keys}


def replay(d):
    if d.get('kind') == 'cfg':
        fs_ = judge_cfg(d['cfg'])
        want = d.get('key')
        for f in fs_:
            if want is None or f.key == want:
                return f
        return None
    if d.get('kind') == 'boxq':
        return judge_boxq(d)
    if d.get('kind') == 'fam':
        fl, _ = X.judge_fam(d, cache=False)
        return fl[0] if fl else None
    if d.get('kind') == 'hist':
        r = common.call(lambda: H.history(d['sd'], d.get('full', True))[2])
        if isinstance(r, str):
            return Failure('history/raises', r, d)
        for f in r:
            if d.get('key') is None or f.key == d['key']:
                return f
        return r[0] if r and d.get('key') is None else None
    if d.get('kind') == 'scale':
        return R5.replay(d)
    if d.get('kind') == 'sandwich':
        r = common.call(lambda: X.sandwich(d['sd'])[0])
        return Failure('sandwich/raises', r, d) if isinstance(r, str) else r
    if d.get('kind') == 'order':
        r = common.call(lambda: X.order_history(d['seed']))
        return Failure('order/raises', r, d) if isinstance(r, str) else r
    if d.get('kind') == 'optequiv':
        r = common.call(lambda: X.option_equiv(d['sd']))
        return Failure('options/raises', r, d) if isinstance(r, str) else r
    if d.get('kind') == 'robust':
        r = common.call(lambda: robust(d['name'], d['sd']))
        if isinstance(r, str):
            return Failure('robust/%s/raises' % d['name'], r, d)
        return r
    if d.get('kind') == 'probe':
        import random
        class R:
            def uniform(self, a, b):
                return d['ph']
        r = common.call(lambda: probe(d['method'], d['band'], R(), d.get('opts')))
        if isinstance(r, str):
            return Failure('probe/%s/%s/raises' % (d['method'], d['band']), r, d)
        return r
    return None
